extern crate pairing_plus;
extern crate ff_zeroize as ff;
use ff::{Field, PrimeField};
use pairing_plus::bls12_381::{Fq, Fq2, FqRepr, G1, G2};
use pairing_plus::map_to_curve::MapToCurve;
use pairing_plus::{CurveProjective, SubgroupCheck};
fn main() {
    let u = Fq::from_repr(FqRepr::from(3)).unwrap();
    let p = <G1 as MapToCurve<G1>>::map2_to_curve(&u, &u);
    let mut q = <G1 as MapToCurve<G1>>::map_to_curve(&u);
    q.double();
    println!("g1 sub={} eq2x={}", p.into_affine().in_subgroup(), p == q);
    let mut nu = u; nu.negate();
    let z = <G1 as MapToCurve<G1>>::map2_to_curve(&u, &nu);
    println!("g1 u,-u zero={}", z.is_zero());
    let u2 = Fq2 { c0: Fq::one(), c1: Fq::one() };
    let p = <G2 as MapToCurve<G2>>::map2_to_curve(&u2, &u2);
    let mut q = <G2 as MapToCurve<G2>>::map_to_curve(&u2);
    q.double();
    println!("g2 sub={} eq2x={}", p.into_affine().in_subgroup(), p == q);
    let mut nu = u2; nu.negate();
    let z = <G2 as MapToCurve<G2>>::map2_to_curve(&u2, &nu);
    println!("g2 u,-u zero={}", z.is_zero());
}

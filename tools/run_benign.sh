#!/bin/bash
# Applies every behaviour-preserving edit in controls/benign to a scratch copy of /repo and
# runs ALL checks on it: every check must stay silent (exit 0).  Prints one line per edit.
cd "$(dirname "$0")/.."
rc=0
for f in controls/benign/*.diff controls/benign_agents/*.diff; do
  T=$(mktemp -d /tmp/benign.XXXXXX)
  rsync -a --exclude target --exclude .git /repo/ "$T/repo/"
  ( cd "$T/repo" && patch -p1 --no-backup-if-mismatch -s -i "$OLDPWD/$f" ) || { echo "$f: PATCH DOES NOT APPLY"; rm -rf "$T"; rc=1; continue; }
  ( cd "$T/repo" && cargo build --offline >/dev/null 2>&1 ) || { echo "$f: DOES NOT COMPILE"; rm -rf "$T"; rc=1; continue; }
  mkdir -p "$T/ev"; alarms=""
  for i in $(seq -w 1 20); do
    out=$(VERIF_REPO="$T/repo" VERIF_EVIDENCE_DIR="$T/ev" ./check C$i 2>&1); r=$?
    if [ $r -ne 0 ]; then alarms="$alarms C$i($r)"; echo "$out" | grep "rule" | head -2 | cut -c1-240; fi
  done
  if [ -z "$alarms" ]; then echo "$f: silent (20/20)"; else echo "$f: FALSE ALARMS:$alarms"; rc=1; fi
  rm -rf "$T"
done
exit $rc

#!/bin/bash
# Re-applies every kept mutant (seeded/*/patch.diff) and every positive control (controls/Cxx/*.diff)
# to a scratch copy of /repo and verifies that the checks recorded as detecting it still do.
# Usage: tools/recheck_seeded.sh [-j N]
cd "$(dirname "$0")/.."
J=${2:-8}
one() {
  d=$1
  if [ -f "$d/meta.json" ]; then patch=$d/patch.diff; checks=$(python3 -c "import json,sys;print(' '.join(json.load(open('$d/meta.json'))['detected_by']))"); name=$d
  else patch=$d; checks=$(basename $(dirname $d)); name=$d; fi
  T=$(mktemp -d /tmp/reseed.XXXXXX)
  rsync -a --exclude target --exclude .git /repo/ "$T/repo/"
  ( cd "$T/repo" && patch -p1 --no-backup-if-mismatch -s -i "/verif/$patch" >/dev/null 2>&1 ) || { echo "$name: PATCH DOES NOT APPLY"; rm -rf "$T"; return; }
  mkdir -p "$T/ev"; miss=""
  for c in $checks; do
    VERIF_REPO="$T/repo" VERIF_EVIDENCE_DIR="$T/ev" ./check $c >/dev/null 2>&1; r=$?
    [ $r -eq 1 ] || miss="$miss $c($r)"
  done
  [ -z "$miss" ] && echo "$name: detected by $checks" || echo "$name: MISSED BY$miss"
  rm -rf "$T"
}
export -f one
( ls -d seeded/*/; ls controls/C*/*.diff ) | sed 's:/$::' | xargs -P $J -I{} bash -c 'one {}'

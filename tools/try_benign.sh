#!/bin/bash
# try_benign.sh <patch> : applies a behaviour-preserving patch to a scratch copy and runs ALL 20 checks; prints alarms
cd "$(dirname "$0")/.."
f=$1
[ -f "$f" ] || { echo "no such patch $f"; exit 2; }
F=$(realpath "$f")
T=$(mktemp -d /tmp/benign.XXXXXX)
rsync -a --exclude target --exclude .git /repo/ "$T/repo/"
( cd "$T/repo" && patch -p1 --no-backup-if-mismatch -s -i "$F" ) || { echo "$f: PATCH DOES NOT APPLY"; rm -rf "$T"; exit 2; }
mkdir -p "$T/ev"; alarms=""
for i in $(seq -w 1 20); do
  out=$(VERIF_REPO="$T/repo" VERIF_EVIDENCE_DIR="$T/ev" ./check C$i 2>&1); r=$?
  if [ $r -ne 0 ]; then alarms="$alarms C$i($r)"; echo "$out" | grep -E "rule|Error|Traceback" | head -${2:-3} | cut -c1-${3:-300}; fi
done
if [ -z "$alarms" ]; then echo "$f: silent (20/20)"; else echo "$f: ALARMS:$alarms"; fi
rm -rf "$T"

#!/bin/bash
# Parallel version of run_benign.sh: every behaviour-preserving edit (controls/benign, controls/benign_agents, controls/benign_twins) applied to
# a scratch copy, all 20 checks must stay silent.  Usage: tools/run_benign_par.sh [-j N]
cd "$(dirname "$0")/.."
J=${2:-6}
ls controls/benign/*.diff controls/benign_agents/*.diff controls/benign_twins/*.diff | xargs -P $J -I{} tools/try_benign.sh {} 2 220

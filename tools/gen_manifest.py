#!/usr/bin/env python3
"""Regenerates MANIFEST.json from the per-property table below (claimed checks exist as
analysis/props/cXX.py; everything else is listed under not_applicable with its reason)."""
import json
import os

HERE = os.path.dirname(os.path.dirname(os.path.abspath(__file__)))
props = [json.loads(l) for l in open(os.path.join(HERE, 'properties.jsonl'))]

CLAIMS = {}
NA = {}


def claim(pid, category, text, note, technique, design_ref):
    CLAIMS[pid] = dict(category=category, text=text, note=note, technique=technique, design_ref=design_ref)


exec(open(os.path.join(HERE, 'tools', 'claims.py')).read())

checks = []
na = []
for p in props:
    pid = p['id']
    if pid in CLAIMS and os.path.exists(os.path.join(HERE, 'analysis', 'props', pid.lower() + '.py')):
        c = CLAIMS[pid]
        checks.append({
            'property_id': pid,
            'quick_cmd': './check %s --tier quick' % pid,
            'thorough_cmd': './check %s --tier thorough' % pid,
            'evidence_file': 'evidence/%s.json' % pid,
            'replay_cmd_template': './check %s --replay {path}' % pid,
            'engine': 'ppfacts+rules',
            'level_claimed': {'category': c['category'], 'text': c['text'], 'design_ref': c['design_ref']},
            'level_note': c['note'],
            'technique': c['technique'],
        })
    else:
        na.append({'property_id': pid, 'reason': NA.get(pid, 'check not built yet (framework under construction; see DESIGN.md for the planned static rules)')})

m = {
    'version': 1,
    'setup_cmd': 'cd driver && cargo build --offline && cd .. && python3 -c "import sys; sys.path.insert(0, \'analysis\'); import core; core.ensure_driver()"',
    'hooks': {
        'guard': 'pairing_plus_verif',
        'enable': 'none needed: the rustc_private driver (ppfacts) observes private items of the unmodified crate; no hook code exists in /repo',
        'baseline_off_cmd': 'cd /repo && cargo test --workspace --no-fail-fast --offline',
        'source_commits': [],
        'add_only': True,
    },
    'engines': [
        {'name': 'ppfacts', 'path': 'driver/', 'serves_properties': [c['property_id'] for c in checks],
         'kind_free_text': 'rustc_private driver (nightly) run as RUSTC_WORKSPACE_WRAPPER under cargo check: dumps items, ADTs, impls, const-evaluated constants, unsafe inventory and MIR with resolved callees of /repo\'s current tree as JSON; executes nothing of /repo'},
        {'name': 'rules', 'path': 'analysis/', 'serves_properties': [c['property_id'] for c in checks],
         'kind_free_text': 'stdlib-Python static analyses over the facts: CFG/dominators, reference resolution, constant propagation, exponent (linear-form) abstract interpretation, typestate, must-hold guards, who-may-call tables, table conformance arithmetic on extracted constants'},
    ],
    'checks': checks,
    'notes': 'Technique family: static analysis only. Known findings: known_findings.json. Design: DESIGN.md.',
    'not_applicable': na,
}
json.dump(m, open(os.path.join(HERE, 'MANIFEST.json'), 'w'), indent=1)
print('claimed:', [c['property_id'] for c in checks])
print('not claimed:', [n['property_id'] for n in na])

#!/bin/bash
# usage: confirm_mutant.sh <worktree> <k>
# Independently confirms a delivered mutant: patch applies, builds, the 129-test baseline
# (minus the three always-timing-out tests) passes with it, the demo FAILS with it and
# PASSES without it.  Writes <worktree>/DELIVER/<k>/confirm.log ; last line RESULT=...
W=$1; K=$2
D=$W/DELIVER/$K
LOG=$D/confirm.log
export CARGO_TARGET_DIR=$W/target
export CARGO_NET_OFFLINE=true
cd $W || exit 2
{
git checkout -q -- . ; rm -rf examples tests_demo
echo "== apply"; git apply $D/patch.diff || { echo RESULT=patch-does-not-apply; exit 0; }
echo "== build"; cargo build --offline 2>&1 | tail -2
mkdir -p examples; DEMO=$D/demo.rs; [ -f $DEMO ] || DEMO=$(ls $D/*.rs 2>/dev/null | head -1); cp $DEMO examples/demo.rs 2>/dev/null
echo "== demo with change (expect failure)"
timeout 1800 cargo run --offline --example demo > $D/demo_with.log 2>&1; RW=$?
tail -5 $D/demo_with.log; echo "demo exit with change: $RW"
echo "== tests with change"
timeout 7200 cargo test --offline --lib -- --skip bls12_engine_tests --skip g2_curve_tests --skip fq12_field_tests > $D/tests_with.log 2>&1; RT=$?
grep -E "^test result" $D/tests_with.log; grep -E "FAILED|panicked" $D/tests_with.log | head -5
echo "tests exit: $RT"
echo "== revert, demo without change (expect success)"
git checkout -q -- src
timeout 1800 cargo run --offline --example demo > $D/demo_without.log 2>&1; RO=$?
tail -3 $D/demo_without.log; echo "demo exit without change: $RO"
rm -rf examples
if [ $RW -ne 0 ] && [ $RT -eq 0 ] && [ $RO -eq 0 ]; then echo RESULT=confirmed; else echo "RESULT=NOT-confirmed (demo_with=$RW tests=$RT demo_without=$RO)"; fi
} > $LOG 2>&1

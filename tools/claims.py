# -*- per-property claim table (executed by gen_manifest.py) -*-
claim('C12', 'proof',
      'Abstract interpretation of final_exponentiation in the exponent domain proves, for every non-zero input, result = f^e with e == 3(q^12-1)/r (mod q^12-1), None <=> inverse() is None, plus the arithmetic corollaries. Full statement decided relative to the Fq12 operation contracts.',
      'Trusted: rustc MIR/const-eval; Fq12 square/mul/inverse/conjugate/frobenius/pow meet their contracts (C09, ff crate); inverse() is None exactly at 0.',
      'abstract interpretation (exponent / linear-form domain) over MIR + constant propagation', 'DESIGN.md 4.4, 5 C12')
claim('C17', 'proof',
      'Abstract interpretation of clear_h and its addition chains proves result = [h_eff]P for every curve point, h_eff exactly the RFC 9380 constants; arithmetic on constants (curve orders from the BLS parameter, End(E)-module structure of E(Fq)) shows the image has order dividing r.',
      'Trusted: rustc MIR; double/add_assign/sub_assign are the group law (C01); structure theorem for E(Fq) with j=0.',
      'abstract interpretation (linear-form domain) over MIR with counted loops; arithmetic on constants', 'DESIGN.md 4.4, 5 C17')
claim('C14', 'other',
      'Typestate (curve tag E\'/E/Sub) + stage-word dataflow over the generic MapToCurve bodies instantiated at G1 and G2, with the set of target-curve-only functions computed from the resolved call graph: decides the composition clause (each input through sswu, iso, clear exactly once; sum on the target curve; includes u0 = u1 and u0 = -u1 because the law used is the complete one on E) and the panic-edge clause. Stage internals are C15-C17.',
      'Trusted: stage functions meet their contracts; isogeny and [h_eff] are homomorphisms; target-curve group law complete (C01). Decides composition, not numeric output.',
      'typestate / dataflow over MIR + call-graph reachability', 'DESIGN.md 4.5, 5 C14, 6')
claim('C09', 'other',
      'Partial: SHAPE rules decide the linear part of the tower exactly (component-wise add/sub/double/negate/is_zero/zero/one, conjugate, v-rotation, Frobenius recursion + table indexing) and CONST decides all 26 Frobenius coefficients; inverse() fails only via the subfield inverse. Multiplication/squaring/inversion/sparse-product formulas are not decided (ring identities over runtime values: not in reach of static analysis).',
      'Necessary structural conditions + complete table conformance; formulas left to tests/other families.',
      'structural MIR rules (component-wise lifting, table-index conformance), constant-table arithmetic', 'DESIGN.md 4.7, 5 C09')

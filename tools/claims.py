# -*- per-property claim table (executed by gen_manifest.py) -*-
claim('C12', 'proof',
      'Abstract interpretation of final_exponentiation in the exponent domain proves, for every non-zero input, result = f^e with e == 3(q^12-1)/r (mod q^12-1), None <=> inverse() is None, plus the arithmetic corollaries. Full statement decided relative to the Fq12 operation contracts.',
      'Trusted: rustc MIR/const-eval; Fq12 square/mul/inverse/conjugate/frobenius/pow meet their contracts (C09, ff crate); inverse() is None exactly at 0.',
      'abstract interpretation (exponent / linear-form domain) over MIR + constant propagation', 'DESIGN.md 4.4, 5 C12')
claim('C17', 'proof',
      'Abstract interpretation of clear_h and its addition chains proves result = [h_eff]P for every curve point, h_eff exactly the RFC 9380 constants; arithmetic on constants (curve orders from the BLS parameter, End(E)-module structure of E(Fq)) shows the image has order dividing r.',
      'Trusted: rustc MIR; double/add_assign/sub_assign are the group law (C01); structure theorem for E(Fq) with j=0.',
      'abstract interpretation (linear-form domain) over MIR with counted loops; arithmetic on constants', 'DESIGN.md 4.4, 5 C17')
claim('C14', 'other',
      'Typestate (curve tag E\'/E/Sub) + stage-word dataflow over the generic MapToCurve bodies instantiated at G1 and G2, with the set of target-curve-only functions computed from the resolved call graph: decides the composition clause (each input through sswu, iso, clear exactly once; sum on the target curve; includes u0 = u1 and u0 = -u1 because the law used is the complete one on E) and the panic-edge clause. Stage internals are C15-C17.',
      'Trusted: stage functions meet their contracts; isogeny and [h_eff] are homomorphisms; target-curve group law complete (C01). Decides composition, not numeric output.',
      'typestate / dataflow over MIR + call-graph reachability', 'DESIGN.md 4.5, 5 C14, 6')
claim('C09', 'other',
      'Partial: SHAPE rules decide the linear part of the tower exactly (component-wise add/sub/double/negate/is_zero/zero/one, conjugate, v-rotation, Frobenius recursion + table indexing) and CONST decides all 26 Frobenius coefficients; inverse() fails only via the subfield inverse. Multiplication/squaring/inversion/sparse-product formulas are not decided (ring identities over runtime values: not in reach of static analysis).',
      'Necessary structural conditions + complete table conformance; formulas left to tests/other families.',
      'structural MIR rules (component-wise lifting, table-index conformance), constant-table arithmetic', 'DESIGN.md 4.7, 5 C09')
claim('C04', 'other',
      'Known-bits abstract interpretation of the four unchecked decoders, exhaustive over the 8 flag-bit combinations with all other input bits unconstrained: each combination produces exactly the outcomes of the format\'s decision table, no untested input bit is discarded, coordinates are range-checked via Fq::from_repr in wire order; checked decoders return Ok only after unchecked success + is_on_curve (uncompressed) + in_subgroup on that value, with the stated error order; in_subgroup = is_on_curve && is_zero([r]P) with the multiplier derived = r; root selection truth table; all assertions on these paths decided. Value-level clauses (sqrt, scalar mult, comparison compute their contracts) are C01/C02/C18.',
      'Trusted: rustc MIR; from_repr/read_be/sqrt/mul/Ord contracts. Decides validation structure for all inputs, not numeric decoding.',
      'known-bits abstract interpretation with exhaustive flag enumeration; path/guard analysis; exponent domain', 'DESIGN.md 4.1, 4.5, 5 C04')
claim('C05', 'other',
      'Narrow: abstract interpretation of the four encoders (lengths, flag byte per path, coordinate write order, sort flag = y > -y in the coordinate field\'s own order) and agreement with the decoders\' decision tables (same positions, same flag constants, same order, every non-producible flag combination rejected, no input bit discarded) => layout agreement and no second preimage differing in flag/ignored bits. Byte-exact ZCash values and numeric round trip are not decided (value-level).',
      'Trusted: into_repr canonical (< 2^381), write_be/read_be 48-byte big-endian, Ord contracts.',
      'known-bits abstract interpretation of encoders/decoders; structural agreement rules', 'DESIGN.md 4.11, 5 C05')
claim('C08', 'other',
      'In-repo obligations only: moduli = q(x), r(x) of the BLS parameter; all derive-emitted Montgomery constants equal their definitions; hand-written Montgomery literals correct and every Fq/Fr literal reduced; only the two unsafe transmute fns wrap raw limbs; layering: no hand-written inherent method on Fq/Fr/FqRepr/FrRepr (it would shadow the derive\'s trait methods under method-call syntax) and derive-generated bodies call only generated or external code; ff/ff_derive pinned. The generated limb arithmetic itself (external proc-macro output, numerical) is NOT decided.',
      'Trusted: ff_derive-zeroize 0.6.2 generates correct arithmetic for correct parameters.',
      'constant-table conformance on const-evaluated values; who-may-construct and layering (who-may-be-called-from-generated-code) rules', 'DESIGN.md 4.3, 5 C08')
claim('C13', 'other',
      'Def-use (origin-term) analysis: abort guard is exactly ell > 255 and dominates all hashing; every hash invocation absorbs the RFC 9380 sequence by role (Z_pad typed by BlockSize, msg, I2OSP(len,2), 0, DST_prime; b_0||1; strxor||idx+1; loop 1..ell; truncate); consecutive Length-byte blocks; from_okm = hi*2^(8L/2)+lo with the constant value-checked, for Fq and Fr (sibling agreement); Fq2 = (block0, block1). Byte-exact digest output is not decided.',
      'Trusted: digest/generic-array/ff contracts. A re-architected equivalent implementation would be reported as unrecognised (fail closed).',
      'def-use / origin-term matching over MIR, dominators, constant checks', 'DESIGN.md 4.2, 5 C13')
claim('C15', 'other',
      'EXP / sum-of-monomials abstract interpretation of the SSWU helper, both addition chains and both osswu_map bodies (2+9 paths) + arithmetic on extracted constants: RFC Z/A\'/B\' in position; helper computes x0 = B(1+s)/(-A s), s = xi^2 t^4 + xi t^2 (exceptional s = 0: denominator A xi) and g(x0) = (N^3 + A N D^2 + B D^3)/D^3; chain exponents (q-3)/4, (q^2-9)/16; candidate shape makes cand^2 v/u a 2nd/8th root of unity; G2 multiplier tables complete => a trial always matches (terminal panic infeasible); returned point is x0 or x1 = xi t^2 x0 under a path condition implying y^2 = g(x); x0 first; sign fixed with sgn0(y_affine)^sgn0(t).',
      'Trusted: field operation contracts, sgn0/negate_if (C18), Euler criterion.',
      'abstract interpretation (exponent-vector and sum-of-monomials domains) over MIR incl. table loops; constant-table arithmetic', 'DESIGN.md 4.4, 5 C15')
claim('C16', 'other',
      'Decided: (1) tables: the four coefficient tables of each group satisfy the polynomial identity that makes (XNUM/XDEN, y YNUM/YDEN) a normalised degree-11 / degree-3 rational map from E\' (with the A\', B\' SSWU uses) to the target curve, hence an isogeny (image on the curve, identity and kernel to identity, homomorphism); (2) evaluator: abstract interpretation of eval_iso in the sum-of-monomials domain proves, on every path and for both groups, X/Z^2 = XNUM(x/z^2)/XDEN(x/z^2) and Y/Z^3 = (y/z^3) YNUM(x/z^2)/YDEN(x/z^2) as homogenised sums over the table coefficients, for every Jacobian representative; own tables in order; scratch sizes. Not decided: which of the finitely many isogenies of that degree it is (pinned by the repository\'s vectors).',
      'Trusted: rational maps between elliptic curves fixing infinity are homomorphisms; Fq/Fq2 operation contracts.',
      'arithmetic on const-evaluated tables (polynomial identity); abstract interpretation in a sum-of-monomials domain (products of two sums interned, never expanded)', 'DESIGN.md 4.3, 5 C16')
claim('C18', 'other',
      'EXP interpretation of Fq2::sqrt (all four cases of Alg. 9 with exact exponents and the -1 tests), legendre via the norm, known-bits proof that Fq::sgn0 reads bit 0 of the canonical representation, Fq2::sgn0 selection, negate_if polarity, lexicographic Ord for Fq2 with c1 most significant, 2-adic constants. Correctness of Alg. 9 and of the derive-generated Fq/Fr sqrt, legendre, Ord is cited/external, not decided.',
      'Trusted: ff derive; Alg. 9 (eprint 2012/685).',
      'abstract interpretation (exponent domain, known-bits), structural rules', 'DESIGN.md 4.4, 5 C18')
claim('C19', 'other',
      'Abstract interpretation of the four point deserializers over (bit 7 of the first byte) x (caller flag) with everything else unknown: read_exact of the compressed size from the caller\'s reader; flag test depends exactly on bit 7; mismatch -> error before further reads; match -> exact remaining read, copy of exactly the stream bytes into a same-size encoding, CHECKED decoder; all errors reach Err; no panic edge. Serializers write exactly the encoder output with write_all under the right polarity. Fr/Fq12: 1/12 range-checked big-endian coefficients, no unwrap, writer/reader slot order agree. Value round trip is not decided.',
      'Trusted: std::io contracts; checked decoders (C04).',
      'known-bits abstract interpretation with exhaustive flag enumeration; def-use rules', 'DESIGN.md 4.2, 4.11, 5 C19')
claim('C01', 'other',
      'Narrow but exact on the exceptional classes: all paths of double, add_assign, add_assign_mixed, eq, negate, both conversions and is_normalized are enumerated for G1 and G2 with coordinates as symbolic monomials: identity short-circuits, the representation-independent equal-point tests (X1 Z2^2 = X2 Z1^2, Y1 Z2^3 = Y2 Z1^3) leading to double(), equality truth table, (x,y,1) and (X/Z^2, Y/Z^3) conversions with inversion only under Z != 0; one filter in all three batch-normalisation passes; default sub_assign(_mixed) = add(negate(copy)). The general-position formulas are polynomial identities over runtime values: not decided.',
      'Trusted: base-field contracts. Formulas of the generic branch are pinned by the random tests, not by this check.',
      'path-enumerating abstract interpretation (monomial domain) over MIR', 'DESIGN.md 4.1, 4.6, 5 C01')
claim('C02', 'other',
      'Table-driven and affine double-and-add paths are PROVED for all 256-bit scalars by bit-provenance + linear-form abstract interpretation (result = sum_n 2^n b_n P given the table contract; precomp_3 / precomp_256 establish the contracts from arbitrary buffers); recommended windows in 2..=22 on all paths; wNAF buffers emptied first (reuse == fresh), staged API threads one window and the context\'s own buffers, wnaf_form updates the scalar only with full-width operations. wNAF recoding/evaluation arithmetic and projective mul_assign\'s leading-zero skipping are not decided.',
      'Trusted: group-operation contracts (C01); BitIterator is MSB-first.',
      'abstract interpretation: bit-provenance vectors + linear forms over scalar bits, if-conversion, counted loops; range and def-use rules', 'DESIGN.md 4.4, 4.10, 5 C02')
claim('C03', 'other',
      'Narrow: Miller-loop scenario analysis (0..2 pairs, identities at every position): identity pairs skipped, every other pair consumes exactly its 68 line coefficients in order in step with G2Prepared::from_affine\'s schedule for the bits of |x|>>1, conjugation for negative x; identity short-circuit in from_affine; wiring of pairing / pairing_product / pairing_multi_product / pairing_with; final exponent (C12). That the Miller function and line functions are the ate pairing (bilinearity, non-degeneracy) is numerical: not decided.',
      'Trusted: line-function and Fq12 contracts; C12.',
      'abstract interpretation with scenario enumeration; def-use wiring rules; exponent domain', 'DESIGN.md 5 C03')
claim('C06', 'other',
      'Composition and constants: hash_to_field::<Base, X>(msg, dst, 2|1) -> map2_to_curve(u0, u1) | map_to_curve(u0) with each element used once; map layer SSWU -> isogeny -> add on the target curve -> clear_h for G1 and G2 (typestate); all constant tables of the pipeline equal the RFC values / satisfy their defining identities; expand/hash_to_field structure (C13). Bit-exact agreement with RFC vectors is not decided.',
      'Trusted: stage contracts C13, C15, C16, C17.',
      'def-use wiring, typestate, constant-table conformance', 'DESIGN.md 4.2, 4.5, 5 C06')
claim('C07', 'other',
      'Who-may-construct / who-may-call tables over the whole crate + typestate: every site building a point from raw coordinates is in an audited class; coordinate writes confined to the group-law impl; unchecked decoders / get_point_from_x / scale_by_cofactor / transmute / as_tuple_mut have only their audited callers; random() returns scale_by_cofactor (multiplier derived = h) of an on-curve candidate, non-identity; generators on curve with [r]G = O; map outputs through isogeny then clear_h (this rule found F1); deserializers use checked decoders; predicate = is_on_curve && is_zero([r]P). Closure of the arithmetic itself is C01.',
      'Trusted: group law closed on the subgroup.',
      'who-may-call / who-may-construct tables over resolved MIR, typestate, exponent domain, constant audit', 'DESIGN.md 4.2, 4.5, 5 C07, 6')
claim('C10', 'other',
      'Decided for the bucket method: digit extraction and inter-window doublings for EVERY window size 1..=20 and all scalar bits (each window\'s digit is a consecutive bit field of the scalar followed by exactly as many doublings as bit positions below it, paired with its own point; bit 255 used or asserted clear); the per-window running-sum reduction (res += sum_i i*B_i, buckets reset) for max_bucket <= 5 and all bucket contents on every path; bucket accumulation only under index > 0; component loops bounded by the minimum length; window heuristic in 1..=16 with monotone table; default entry wiring. Table-driven variant proved = sum_j [k_j]P_j for list lengths up to 3 (incl. mismatched) and all scalars; precomp_256 establishes its contract from any buffer. Composition of these facts gives sum_i [k_i]P_i; the reduction loop is only checked for max_bucket <= 5 and the component loop for <= 2 components (uniform loops, no induction attempted).',
      'Trusted: group-operation contracts.',
      'bit-provenance + linear-form abstract interpretation with region summaries and bounded structural parameters; range/constant and def-use rules', 'DESIGN.md 4.10, 5 C10')
claim('C11', 'other',
      'Narrow: same Miller-loop scenario analysis as C03 (identity pairs contribute 1 at any position for 0..2 pairs, per-pair coefficient consumption, shared squarings), product helpers pair p[i] with q[i] and exponentiate once, prepared elements immutable (Freeze, private fields, no &mut API). Product-of-pairings as a value statement is numerical: not decided.',
      'Trusted: line-function and Fq12 contracts; C12.',
      'abstract interpretation with scenario enumeration; def-use wiring rules; type facts', 'DESIGN.md 5 C11')
claim('C20', 'proof',
      'Effect analysis over all 443 bodies, 23 data types and every item: no mutable/thread-local/interior-mutable global, all types Freeze without raw pointers/locks/atomics, no hand-written unsafe impl, one audited unsafe block + the documented unsafe constructors, no FFI/asm/raw pointers/pointer casts, no resolved call into threads, locks, clocks, environment, I/O devices, OS randomness or hash seeding, RNG only via an explicit parameter, reused wNAF buffers emptied before refill; thorough tier adds 34 compile-pass/compile_fail type witnesses (Send+Sync+Copy, private fields, borrow rules). Conclusion: every operation is a function of its arguments; no data race or deadlock is possible.',
      'Trusted: soundness of safe Rust; std and the dependency crates (by API).',
      'effect/purity analysis over MIR + type facts; compile_fail / compile-pass witnesses', 'DESIGN.md 4.9, 5 C20')

# -*- per-property claim table (executed by gen_manifest.py) -*-
claim('C12', 'proof',
      'Abstract interpretation of final_exponentiation in the exponent domain proves, for every non-zero input, result = f^e with e == 3(q^12-1)/r (mod q^12-1), None <=> inverse() is None, plus the arithmetic corollaries. Full statement decided relative to the Fq12 operation contracts.',
      'Trusted: rustc MIR/const-eval; Fq12 square/mul/inverse/conjugate/frobenius/pow meet their contracts (C09, ff crate); inverse() is None exactly at 0.',
      'abstract interpretation (exponent / linear-form domain) over MIR + constant propagation', 'DESIGN.md 4.4, 5 C12')
claim('C17', 'proof',
      'Abstract interpretation of clear_h and its addition chains proves result = [h_eff]P for every curve point, h_eff exactly the RFC 9380 constants; arithmetic on constants (curve orders from the BLS parameter, End(E)-module structure of E(Fq)) shows the image has order dividing r.',
      'Trusted: rustc MIR; double/add_assign/sub_assign are the group law (C01); structure theorem for E(Fq) with j=0.',
      'abstract interpretation (linear-form domain) over MIR with counted loops; arithmetic on constants', 'DESIGN.md 4.4, 5 C17')

#!/usr/bin/env python3
"""usage: seed_mutant.py <worktree> <k> <slug> "<what it needs to manifest>"
Copies a confirmed mutant into /verif/seeded/<P>-<k>-<slug>/ and records which checks detect it."""
import json, os, re, shutil, subprocess, sys, tempfile
W, K, slug, needs = sys.argv[1], sys.argv[2], sys.argv[3], sys.argv[4]
P = os.path.basename(W.rstrip('/'))
D = os.path.join(W, 'DELIVER', K)
conf = open(os.path.join(D, 'confirm.log')).read()
assert conf.strip().endswith('RESULT=confirmed'), conf[-200:]
out = os.path.join('/verif/seeded', '%s-%s-%s' % (P, K, slug))
os.makedirs(out, exist_ok=True)
shutil.copy(os.path.join(D, 'patch.diff'), os.path.join(out, 'patch.diff'))
for f in os.listdir(D):
    if f.endswith('.rs') or f in ('demo.md', 'notes.md') or f.endswith('.py'):
        shutil.copy(os.path.join(D, f), os.path.join(out, f))
# run all checks on a scratch copy
T = tempfile.mkdtemp(prefix='seed.')
try:
    subprocess.check_call(['rsync', '-a', '--exclude', 'target', '--exclude', '.git', '/repo/', T + '/repo/'])
    subprocess.check_call(['patch', '-p1', '-s', '--no-backup-if-mismatch', '-i', os.path.join(out, 'patch.diff')], cwd=T + '/repo')
    env = dict(os.environ, VERIF_REPO=T + '/repo', VERIF_EVIDENCE_DIR=T + '/ev')
    os.makedirs(T + '/ev')
    detected = {}
    for i in range(1, 21):
        p = 'C%02d' % i
        r = subprocess.run(['/verif/check', p], env=env, stdout=subprocess.PIPE, stderr=subprocess.STDOUT, text=True)
        if r.returncode == 1:
            rules = re.findall(r'rule (\S+) instance (\S+)', r.stdout)
            detected[p] = sorted(set('%s|%s' % x for x in rules))[:6]
        elif r.returncode != 0:
            detected[p] = ['exit %d' % r.returncode]
finally:
    shutil.rmtree(T, ignore_errors=True)
tests = re.findall(r'^test result: .*$', conf, re.M)
meta = {
    'breaks_property': P,
    'source': 'independent sub-agent given only the property text and a scratch worktree',
    'needs_to_manifest': needs,
    'confirmed': {
        'how': 'tools/confirm_mutant.sh in a scratch worktree: patch applies, cargo build, cargo test --offline --lib (3 always-timing-out baseline tests skipped), demo with / without the change',
        'tests_with_change': tests[:1],
        'demo_fails_with_change': True, 'demo_passes_without_change': True,
    },
    'detected_by': sorted(k for k, v in detected.items() if not (v and v[0].startswith('exit'))),
    'detecting_rules': detected,
    'missed_by_own_property_check': P not in detected,
}
json.dump(meta, open(os.path.join(out, 'meta.json'), 'w'), indent=1)
print(out, '->', meta['detected_by'])

#!/usr/bin/env python3
"""mk_control.py <controls/Cxx/name.diff> <file relative to repo> <old> <new> [nth]
Creates a unified diff by editing a scratch copy of /repo (never /repo itself)."""
import os, shutil, subprocess, sys, tempfile
out, rel, old, new = sys.argv[1:5]
nth = int(sys.argv[5]) if len(sys.argv) > 5 else 0
T = tempfile.mkdtemp(prefix='mkctl.')
try:
    a = os.path.join(T, 'a'); b = os.path.join(T, 'b')
    for d in (a, b):
        os.makedirs(os.path.dirname(os.path.join(d, rel)), exist_ok=True)
        shutil.copy(os.path.join('/repo', rel), os.path.join(d, rel))
    s = open(os.path.join(b, rel)).read()
    assert s.count(old) > nth, 'pattern occurs %d times' % s.count(old)
    parts = s.split(old)
    s2 = old.join(parts[:nth + 1]) + new + old.join(parts[nth + 1:])
    open(os.path.join(b, rel), 'w').write(s2)
    r = subprocess.run(['diff', '-u', os.path.join('a', rel), os.path.join('b', rel)], cwd=T, stdout=subprocess.PIPE, text=True)
    os.makedirs(os.path.dirname(os.path.join('/verif', out)), exist_ok=True)
    open(os.path.join('/verif', out), 'w').write(r.stdout)
    print('wrote', out, len(r.stdout.splitlines()), 'lines')
finally:
    shutil.rmtree(T, ignore_errors=True)

#!/bin/bash
# usage: tools/try_mutant.sh <patch.diff> <Cxx> [<Cyy> ...]
# Applies the patch to a scratch copy of /repo and runs the given checks against it
# (evidence goes to a scratch directory; /repo and /verif/evidence are untouched).
set -u
PATCH=$(readlink -f "$1"); shift
[ -f "$PATCH" ] || { echo "NO SUCH PATCH $PATCH"; exit 3; }
T=$(mktemp -d /tmp/trymut.XXXXXX)
trap 'rm -rf "$T"' EXIT
rsync -a --exclude target --exclude .git /repo/ "$T/repo/"
( cd "$T/repo" && patch -p1 --no-backup-if-mismatch -s -i "$PATCH" ) || { echo "PATCH DOES NOT APPLY"; exit 3; }
mkdir -p "$T/ev"
rc=0
for p in "$@"; do
  VERIF_REPO="$T/repo" VERIF_EVIDENCE_DIR="$T/ev" "$(dirname "$0")/../check" "$p" --tier quick | grep -v "^C[0-9]*: " | cut -c1-400
  r=${PIPESTATUS[0]}
  echo "== $p exit $r"
done

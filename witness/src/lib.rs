//! Type-level witnesses for pairing-plus (C20, C07, C11, C02).  Nothing here is executed:
//! `no_run` twins only have to compile, `compile_fail,E....` witnesses must fail to compile with
//! exactly that error.  Every compile_fail witness has a compiling twin that differs only in the
//! offending line, so a witness that fails for the wrong reason (bad path, missing import)
//! is caught.  Run with `cargo +nightly test --doc --offline` (error codes are honoured on
//! nightly only).

/// Value types are `Send + Sync + Copy + 'static`; prepared elements `Send + Sync + Clone`.
/// ```no_run
/// use pairing_plus::bls12_381::*;
/// fn value<T: Send + Sync + Copy + 'static>() {}
/// fn shared<T: Send + Sync + Clone + 'static>() {}
/// value::<Fq>(); value::<Fr>(); value::<Fq2>(); value::<Fq6>(); value::<Fq12>();
/// value::<FqRepr>(); value::<FrRepr>();
/// value::<G1>(); value::<G2>(); value::<G1Affine>(); value::<G2Affine>();
/// value::<G1Compressed>(); value::<G1Uncompressed>(); value::<G2Compressed>(); value::<G2Uncompressed>();
/// shared::<G1Prepared>(); shared::<G2Prepared>(); shared::<Bls12>();
/// ```
pub struct SendSyncCopy;

/// A prepared element is not `Copy`... but is shareable by reference across threads.
/// ```no_run
/// use pairing_plus::bls12_381::*;
/// use pairing_plus::CurveAffine;
/// let p = G2Affine::one().prepare();
/// std::thread::scope(|s| {
///     s.spawn(|| { let _ = p.is_zero(); });
///     s.spawn(|| { let _ = p.is_zero(); });
/// });
/// ```
pub struct PreparedShared;

/// wNAF tables can be shared across threads through the explicit `shared()` API.
/// ```no_run
/// use pairing_plus::bls12_381::*;
/// use pairing_plus::{CurveProjective, Wnaf};
/// use ff_zeroize::{Field, PrimeField};
/// let mut w = Wnaf::new();
/// let table = w.base(G1::one(), 2);
/// let k = Fr::one().into_repr();
/// std::thread::scope(|s| {
///     let mut a = table.shared();
///     let mut b = table.shared();
///     s.spawn(move || { let _: G1 = a.scalar(k); });
///     s.spawn(move || { let _: G1 = b.scalar(k); });
/// });
/// ```
pub struct WnafShared;

/// Coordinates of an affine point cannot be read as fields from outside the crate.
/// ```compile_fail,E0616
/// use pairing_plus::bls12_381::*;
/// use pairing_plus::CurveAffine;
/// let g = G1Affine::one();
/// let _ = g.x;
/// ```
/// twin:
/// ```no_run
/// use pairing_plus::bls12_381::*;
/// use pairing_plus::CurveAffine;
/// let g = G1Affine::one();
/// let _ = g.as_tuple().0;
/// ```
pub struct AffineFieldsPrivate;

/// ... nor written.
/// ```compile_fail,E0616
/// use pairing_plus::bls12_381::*;
/// use pairing_plus::CurveProjective;
/// use ff_zeroize::Field;
/// let mut g = G2::one();
/// g.z = Fq2::zero();
/// ```
/// twin:
/// ```no_run
/// use pairing_plus::bls12_381::*;
/// use pairing_plus::CurveProjective;
/// let mut g = G2::one();
/// g.double();
/// ```
pub struct ProjectiveFieldsPrivate;

/// A point cannot be built with a struct literal.
/// ```compile_fail,E0451
/// use pairing_plus::bls12_381::*;
/// use ff_zeroize::Field;
/// let _ = G1 { x: Fq::zero(), y: Fq::one(), z: Fq::one() };
/// ```
/// twin:
/// ```no_run
/// use pairing_plus::bls12_381::*;
/// use pairing_plus::CurveProjective;
/// let _ = G1::zero();
/// ```
pub struct NoStructLiteral;

/// A field element cannot be built from raw limbs without the range check.
/// ```compile_fail,E0423
/// use pairing_plus::bls12_381::*;
/// let _ = Fq(FqRepr([1, 0, 0, 0, 0, 0]));
/// ```
/// twin:
/// ```no_run
/// use pairing_plus::bls12_381::*;
/// use ff_zeroize::PrimeField;
/// let _ = Fq::from_repr(FqRepr([1, 0, 0, 0, 0, 0]));
/// ```
pub struct NoRawFq;

/// ```compile_fail,E0423
/// use pairing_plus::bls12_381::*;
/// let _ = Fr(FrRepr([1, 0, 0, 0]));
/// ```
/// twin:
/// ```no_run
/// use pairing_plus::bls12_381::*;
/// use ff_zeroize::PrimeField;
/// let _ = Fr::from_repr(FrRepr([1, 0, 0, 0]));
/// ```
pub struct NoRawFr;

/// The raw constructors need `unsafe`.
/// ```compile_fail,E0133
/// use pairing_plus::bls12_381::*;
/// let _ = transmute::fq(FqRepr([1, 0, 0, 0, 0, 0]));
/// ```
/// twin:
/// ```no_run
/// use pairing_plus::bls12_381::*;
/// let _ = unsafe { transmute::fq(FqRepr([1, 0, 0, 0, 0, 0])) };
/// ```
pub struct TransmuteFqUnsafe;

/// ```compile_fail,E0133
/// use pairing_plus::bls12_381::*;
/// use ff_zeroize::Field;
/// let _ = transmute::g1_affine(Fq::zero(), Fq::one(), false);
/// ```
/// twin:
/// ```no_run
/// use pairing_plus::bls12_381::*;
/// use ff_zeroize::Field;
/// let _ = unsafe { transmute::g1_affine(Fq::zero(), Fq::one(), false) };
/// ```
pub struct TransmutePointUnsafe;

/// Mutable access to coordinates needs `unsafe`.
/// ```compile_fail,E0133
/// use pairing_plus::bls12_381::*;
/// use pairing_plus::CurveProjective;
/// let mut g = G1::one();
/// let _ = g.as_tuple_mut();
/// ```
/// twin:
/// ```no_run
/// use pairing_plus::bls12_381::*;
/// use pairing_plus::CurveProjective;
/// let mut g = G1::one();
/// let _ = unsafe { g.as_tuple_mut() };
/// ```
pub struct AsTupleMutUnsafe;

/// The shared accessors hand out shared references only.
/// ```compile_fail,E0594
/// use pairing_plus::bls12_381::*;
/// use pairing_plus::CurveProjective;
/// use ff_zeroize::Field;
/// let g = G1::one();
/// *g.as_tuple().2 = Fq::zero();
/// ```
/// twin:
/// ```no_run
/// use pairing_plus::bls12_381::*;
/// use pairing_plus::CurveProjective;
/// let g = G1::one();
/// let _ = *g.as_tuple().2;
/// ```
pub struct AsTupleShared;

/// The stage traits of the map are not nameable outside the crate.
/// ```compile_fail,E0603
/// use pairing_plus::bls12_381::OSSWUMap;
/// ```
/// ```compile_fail,E0603
/// use pairing_plus::bls12_381::IsogenyMap;
/// ```
/// ```compile_fail,E0603
/// use pairing_plus::bls12_381::ClearH;
/// ```
/// twin:
/// ```no_run
/// use pairing_plus::map_to_curve::MapToCurve;
/// use pairing_plus::bls12_381::{G1, Fq};
/// use ff_zeroize::Field;
/// let _ = <G1 as MapToCurve<G1>>::map_to_curve(&Fq::one());
/// ```
pub struct StageTraitsPrivate;

/// Prepared elements: fields are not accessible, so the coefficient list cannot be altered.
/// ```compile_fail,E0616
/// use pairing_plus::bls12_381::*;
/// use pairing_plus::CurveAffine;
/// let p = G2Affine::one().prepare();
/// let _ = p.coeffs.len();
/// ```
/// ```compile_fail,E0616
/// use pairing_plus::bls12_381::*;
/// use pairing_plus::CurveAffine;
/// let mut p = G2Affine::one().prepare();
/// p.infinity = true;
/// ```
/// twin:
/// ```no_run
/// use pairing_plus::bls12_381::*;
/// use pairing_plus::CurveAffine;
/// let p = G2Affine::one().prepare();
/// let _ = p.is_zero();
/// ```
pub struct PreparedFieldsPrivate;

/// The staged wNAF API: the table returned by `base()` borrows the context, so the context cannot
/// be re-staged while the table is alive (no aliasing of the scratch buffers).
/// ```compile_fail,E0499
/// use pairing_plus::bls12_381::*;
/// use pairing_plus::{CurveProjective, Wnaf};
/// use ff_zeroize::{Field, PrimeField};
/// let mut w = Wnaf::new();
/// let mut t = w.base(G1::one(), 2);
/// let mut t2 = w.base(G1::one(), 3);
/// let _: G1 = t.scalar(Fr::one().into_repr());
/// let _: G1 = t2.scalar(Fr::one().into_repr());
/// ```
/// twin:
/// ```no_run
/// use pairing_plus::bls12_381::*;
/// use pairing_plus::{CurveProjective, Wnaf};
/// use ff_zeroize::{Field, PrimeField};
/// let mut w = Wnaf::new();
/// let mut t = w.base(G1::one(), 2);
/// let _: G1 = t.scalar(Fr::one().into_repr());
/// let mut t2 = w.base(G1::one(), 3);
/// let _: G1 = t2.scalar(Fr::one().into_repr());
/// ```
pub struct WnafNoAliasing;

/// The wNAF context's buffers are private.
/// ```compile_fail,E0616
/// use pairing_plus::bls12_381::*;
/// use pairing_plus::Wnaf;
/// let w: Wnaf<(), Vec<G1>, Vec<i64>> = Wnaf::new();
/// let _ = w.base.len();
/// ```
/// twin:
/// ```no_run
/// use pairing_plus::bls12_381::*;
/// use pairing_plus::Wnaf;
/// let _w: Wnaf<(), Vec<G1>, Vec<i64>> = Wnaf::new();
/// ```
pub struct WnafBuffersPrivate;

/// Encoded points wrap a private byte array (only AsRef/AsMut views).
/// ```compile_fail,E0616
/// use pairing_plus::bls12_381::*;
/// use pairing_plus::EncodedPoint;
/// let e = G1Compressed::empty();
/// let _ = e.0[0];
/// ```
/// twin:
/// ```no_run
/// use pairing_plus::bls12_381::*;
/// use pairing_plus::EncodedPoint;
/// let e = G1Compressed::empty();
/// let _ = e.as_ref()[0];
/// ```
pub struct EncodedPrivate;

// ppfacts: a rustc_private driver that dumps facts about the crate being compiled
// (items, ADTs, impls, evaluated constants, unsafe inventory and the MIR of every body
// with resolved callees) as one JSON file.  Nothing of the analysed crate is executed;
// constants are obtained from rustc's own const-evaluator.
//
// Protocol: used as RUSTC_WORKSPACE_WRAPPER (argv[1] = path of the real rustc, dropped).
//   PPFACTS_OUT   = directory; one file <crate>.json is written per analysed crate
//   PPFACTS_CRATE = comma separated crate names to dump in full ("*" = every crate)
#![feature(rustc_private)]
#![allow(clippy::all)]

extern crate rustc_abi;
extern crate rustc_driver;
extern crate rustc_hir;
extern crate rustc_interface;
extern crate rustc_middle;
extern crate rustc_span;

use rustc_abi::{FieldIdx, Size};
use rustc_driver::{Callbacks, Compilation};
use rustc_hir::def::DefKind;
use rustc_hir::def_id::{DefId, LocalDefId, LOCAL_CRATE};
use rustc_hir::intravisit::{self, Visitor};
use rustc_middle::mir::interpret::{Allocation, GlobalAlloc, Scalar};
use rustc_middle::mir::{
    AggregateKind, BasicBlock, Body, Const, ConstValue, Operand, Place, ProjectionElem, Rvalue,
    StatementKind, TerminatorKind, UnwindAction,
};
use rustc_middle::ty::print::with_no_trimmed_paths;
use rustc_middle::ty::{self, GenericArgsRef, Instance, InstanceKind, Ty, TyCtxt, TypingEnv};
use rustc_span::Span;
use std::fmt::Write as _;

// ---------------------------------------------------------------- tiny JSON value
#[derive(Clone)]
enum J {
    Null,
    B(bool),
    N(String), // number, already formatted (arbitrary precision)
    S(String),
    A(Vec<J>),
    O(Vec<(String, J)>),
}
fn jn<T: std::fmt::Display>(v: T) -> J {
    J::N(v.to_string())
}
fn js<T: Into<String>>(v: T) -> J {
    J::S(v.into())
}
fn jo(v: Vec<(&str, J)>) -> J {
    J::O(v.into_iter().map(|(k, v)| (k.to_string(), v)).collect())
}
impl J {
    fn write(&self, out: &mut String) {
        match self {
            J::Null => out.push_str("null"),
            J::B(b) => out.push_str(if *b { "true" } else { "false" }),
            J::N(s) => out.push_str(s),
            J::S(s) => {
                out.push('"');
                for c in s.chars() {
                    match c {
                        '"' => out.push_str("\\\""),
                        '\\' => out.push_str("\\\\"),
                        '\n' => out.push_str("\\n"),
                        '\r' => out.push_str("\\r"),
                        '\t' => out.push_str("\\t"),
                        c if (c as u32) < 0x20 => {
                            let _ = write!(out, "\\u{:04x}", c as u32);
                        }
                        c => out.push(c),
                    }
                }
                out.push('"');
            }
            J::A(v) => {
                out.push('[');
                for (i, x) in v.iter().enumerate() {
                    if i > 0 {
                        out.push(',');
                    }
                    x.write(out);
                }
                out.push(']');
            }
            J::O(v) => {
                out.push('{');
                for (i, (k, x)) in v.iter().enumerate() {
                    if i > 0 {
                        out.push(',');
                    }
                    J::S(k.clone()).write(out);
                    out.push(':');
                    x.write(out);
                }
                out.push('}');
            }
        }
    }
}

// ---------------------------------------------------------------- helpers
struct Cx<'tcx> {
    tcx: TyCtxt<'tcx>,
}

impl<'tcx> Cx<'tcx> {
    fn path(&self, did: DefId) -> String {
        with_no_trimmed_paths!(self.tcx.def_path_str(did))
    }
    fn ty(&self, t: Ty<'tcx>) -> String {
        with_no_trimmed_paths!(format!("{}", t))
    }
    fn span(&self, sp: Span) -> String {
        let sm = self.tcx.sess.source_map();
        let lo = sm.lookup_char_pos(sp.lo());
        let name = match &lo.file.name {
            rustc_span::FileName::Real(r) => match r.local_path() {
                Some(p) => p.to_string_lossy().into_owned(),
                None => format!("{:?}", lo.file.name),
            },
            other => format!("{:?}", other),
        };
        format!("{}:{}", name, lo.line)
    }
    fn expn(&self, sp: Span) -> J {
        if !sp.from_expansion() {
            return J::Null;
        }
        let d = sp.ctxt().outer_expn_data();
        js(format!("{:?}", d.kind))
    }
    fn targs(&self, args: GenericArgsRef<'tcx>) -> J {
        J::A(args
            .iter()
            .map(|a| js(with_no_trimmed_paths!(format!("{}", a))))
            .collect())
    }

    // ------------------------------------------------------------ constant decoding
    fn decode(&self, env: TypingEnv<'tcx>, alloc: &Allocation, off: Size, t: Ty<'tcx>, depth: u32) -> J {
        let tcx = self.tcx;
        if depth > 6 {
            return jo(vec![("opaque", js(self.ty(t)))]);
        }
        let layout = match tcx.layout_of(env.as_query_input(t)) {
            Ok(l) => l,
            Err(_) => return jo(vec![("opaque", js(self.ty(t)))]),
        };
        let size = layout.size;
        if off.bytes() + size.bytes() > alloc.size().bytes() {
            return jo(vec![("opaque", js("out-of-bounds"))]);
        }
        let read_uint = |o: Size, n: Size| -> u128 {
            let bytes = alloc.inspect_with_uninit_and_ptr_outside_interpreter(
                o.bytes_usize()..(o + n).bytes_usize(),
            );
            let mut v: u128 = 0;
            for (i, b) in bytes.iter().enumerate() {
                if i < 16 {
                    v |= (*b as u128) << (8 * i);
                }
            }
            v
        };
        match *t.kind() {
            ty::Bool => J::B(read_uint(off, size) != 0),
            ty::Uint(_) | ty::Char => jn(read_uint(off, size)),
            ty::Int(_) => {
                let v = read_uint(off, size);
                let bits = size.bits();
                let sv: i128 = if bits >= 128 {
                    v as i128
                } else if v >> (bits - 1) & 1 == 1 {
                    (v as i128) - (1i128 << bits)
                } else {
                    v as i128
                };
                jn(sv)
            }
            ty::Float(_) => jo(vec![("float_bits", jn(read_uint(off, size)))]),
            ty::Array(elem, _) => {
                let n = match layout.fields {
                    rustc_abi::FieldsShape::Array { count, .. } => count,
                    _ => 0,
                };
                let mut v = Vec::new();
                for i in 0..n {
                    let fo = layout.fields.offset(i as usize);
                    v.push(self.decode(env, alloc, off + fo, elem, depth + 1));
                }
                J::A(v)
            }
            ty::Tuple(ts) => {
                let mut v = Vec::new();
                for (i, ft) in ts.iter().enumerate() {
                    let fo = layout.fields.offset(i);
                    v.push(self.decode(env, alloc, off + fo, ft, depth + 1));
                }
                J::A(v)
            }
            ty::Adt(def, args) if def.is_struct() => {
                let mut v = Vec::new();
                for (i, f) in def.non_enum_variant().fields.iter().enumerate() {
                    let ft = f.ty(tcx, args);
                    let fo = layout.fields.offset(i);
                    v.push((f.name.to_string(), self.decode(env, alloc, off + fo, ft, depth + 1)));
                }
                J::O(vec![
                    ("adt".to_string(), js(self.path(def.did()))),
                    ("fields".to_string(), J::O(v)),
                ])
            }
            ty::Ref(_, inner, _) | ty::RawPtr(inner, _) => {
                let ptr_size = tcx.data_layout.pointer_size();
                let prov = alloc.provenance().get_ptr(off);
                let addr = read_uint(off, ptr_size);
                match prov {
                    Some(p) => {
                        let meta = if size.bytes() > ptr_size.bytes() {
                            Some(read_uint(off + ptr_size, ptr_size))
                        } else {
                            None
                        };
                        self.deref_ptr(env, p.alloc_id(), Size::from_bytes(addr as u64), inner, meta, depth + 1)
                    }
                    None => jo(vec![("rawaddr", jn(addr))]),
                }
            }
            _ => jo(vec![("opaque", js(self.ty(t)))]),
        }
    }

    fn deref_ptr(
        &self,
        env: TypingEnv<'tcx>,
        id: rustc_middle::mir::interpret::AllocId,
        off: Size,
        inner: Ty<'tcx>,
        meta: Option<u128>,
        depth: u32,
    ) -> J {
        let tcx = self.tcx;
        let ga = tcx.global_alloc(id);
        let alloc = match ga {
            GlobalAlloc::Memory(a) => a,
            GlobalAlloc::Static(did) => {
                return jo(vec![("ref_static", js(self.path(did)))]);
            }
            GlobalAlloc::Function { instance } => {
                return jo(vec![("ref_fn", js(self.path(instance.def_id())))]);
            }
            _ => return jo(vec![("opaque", js("alloc"))]),
        };
        let alloc = alloc.inner();
        let pointee = match *inner.kind() {
            ty::Slice(elem) => {
                let n = meta.unwrap_or(0) as u64;
                let el = match tcx.layout_of(env.as_query_input(elem)) {
                    Ok(l) => l,
                    Err(_) => return jo(vec![("opaque", js("slice-elem"))]),
                };
                let mut v = Vec::new();
                for i in 0..n {
                    v.push(self.decode(env, alloc, off + el.size * i, elem, depth + 1));
                }
                J::A(v)
            }
            ty::Str => {
                let n = meta.unwrap_or(0) as usize;
                let s = off.bytes_usize();
                if s + n > alloc.size().bytes_usize() {
                    js("<oob str>")
                } else {
                    let b = alloc.inspect_with_uninit_and_ptr_outside_interpreter(s..s + n);
                    js(String::from_utf8_lossy(b).into_owned())
                }
            }
            _ => self.decode(env, alloc, off, inner, depth + 1),
        };
        jo(vec![("ref", pointee)])
    }

    fn const_value(&self, env: TypingEnv<'tcx>, cv: ConstValue, t: Ty<'tcx>) -> J {
        let tcx = self.tcx;
        match cv {
            ConstValue::ZeroSized => J::Null,
            ConstValue::Scalar(Scalar::Int(i)) => match *t.kind() {
                ty::Bool => J::B(i.to_bits_unchecked() != 0),
                ty::Int(_) => {
                    let bits = i.size().bits();
                    let v = i.to_bits_unchecked();
                    let sv: i128 = if bits >= 128 || bits == 0 {
                        v as i128
                    } else if v >> (bits - 1) & 1 == 1 {
                        (v as i128) - (1i128 << bits)
                    } else {
                        v as i128
                    };
                    jn(sv)
                }
                ty::Uint(_) | ty::Char => jn(i.to_bits_unchecked()),
                ty::Adt(def, args) if def.is_struct() => {
                    // scalar-ABI newtype: descend to the single non-ZST field
                    let mut out = jo(vec![("opaque", js(self.ty(t)))]);
                    for f in def.non_enum_variant().fields.iter() {
                        let ft = f.ty(tcx, args);
                        if let Ok(l) = tcx.layout_of(env.as_query_input(ft)) {
                            if !l.is_zst() {
                                out = J::O(vec![
                                    ("adt".to_string(), js(self.path(def.did()))),
                                    (
                                        "fields".to_string(),
                                        J::O(vec![(f.name.to_string(), self.const_value(env, cv, ft))]),
                                    ),
                                ]);
                            }
                        }
                    }
                    out
                }
                _ => jo(vec![("bits", jn(i.to_bits_unchecked())), ("ty", js(self.ty(t)))]),
            },
            ConstValue::Scalar(Scalar::Ptr(p, _)) => {
                let (prov, off) = p.prov_and_relative_offset();
                match *t.kind() {
                    ty::Ref(_, inner, _) | ty::RawPtr(inner, _) => {
                        self.deref_ptr(env, prov.alloc_id(), off, inner, None, 0)
                    }
                    _ => jo(vec![("opaque", js("ptr"))]),
                }
            }
            ConstValue::Slice { alloc_id, meta } => match *t.kind() {
                ty::Ref(_, inner, _) | ty::RawPtr(inner, _) => {
                    self.deref_ptr(env, alloc_id, Size::ZERO, inner, Some(meta as u128), 0)
                }
                _ => jo(vec![("opaque", js("slice"))]),
            },
            ConstValue::Indirect { alloc_id, offset } => match tcx.global_alloc(alloc_id) {
                GlobalAlloc::Memory(a) => self.decode(env, a.inner(), offset, t, 0),
                _ => jo(vec![("opaque", js("indirect"))]),
            },
        }
    }

    // ------------------------------------------------------------ MIR
    fn place(&self, p: &Place<'tcx>) -> J {
        let mut proj = Vec::new();
        for e in p.projection.iter() {
            proj.push(match e {
                ProjectionElem::Deref => J::A(vec![js("deref")]),
                ProjectionElem::Field(f, t) => J::A(vec![js("f"), jn(f.as_u32()), js(self.ty(t))]),
                ProjectionElem::Index(l) => J::A(vec![js("i"), jn(l.as_u32())]),
                ProjectionElem::ConstantIndex { offset, min_length, from_end } => {
                    J::A(vec![js("ci"), jn(offset), jn(min_length), J::B(from_end)])
                }
                ProjectionElem::Subslice { from, to, from_end } => {
                    J::A(vec![js("sub"), jn(from), jn(to), J::B(from_end)])
                }
                ProjectionElem::Downcast(name, v) => J::A(vec![
                    js("dc"),
                    jn(v.as_u32()),
                    match name {
                        Some(s) => js(s.to_string()),
                        None => J::Null,
                    },
                ]),
                ProjectionElem::OpaqueCast(t) => J::A(vec![js("oc"), js(self.ty(t))]),
                ProjectionElem::UnwrapUnsafeBinder(t) => J::A(vec![js("uub"), js(self.ty(t))]),
            });
        }
        jo(vec![("l", jn(p.local.as_u32())), ("p", J::A(proj))])
    }

    fn fn_ref(&self, env: TypingEnv<'tcx>, did: DefId, args: GenericArgsRef<'tcx>) -> J {
        let tcx = self.tcx;
        let mut o = vec![("def", js(self.path(did))), ("targs", self.targs(args))];
        o.push(("def_local", J::B(did.is_local())));
        o.push(("def_crate", js(tcx.crate_name(did.krate).to_string())));
        if let Some(tr) = tcx.trait_of_assoc(did) {
            o.push(("trait", js(self.path(tr))));
            o.push(("name", js(tcx.item_name(did).to_string())));
            if args.len() > 0 {
                if let Some(t0) = args[0].as_type() {
                    o.push(("self_ty", js(self.ty(t0))));
                }
            }
        } else if let Some(imp) = tcx.impl_of_assoc(did) {
            o.push(("name", js(tcx.item_name(did).to_string())));
            let st = tcx.type_of(imp).instantiate_identity().skip_norm_wip();
            o.push(("impl_self_ty", js(self.ty(st))));
        }
        if matches!(tcx.def_kind(did), DefKind::Fn | DefKind::AssocFn) {
            let args_e = tcx.erase_and_anonymize_regions(args);
            match Instance::try_resolve(tcx, env, did, args_e) {
                Ok(Some(inst)) => {
                    let kind = match inst.def {
                        InstanceKind::Item(_) => "item",
                        InstanceKind::Intrinsic(_) => "intrinsic",
                        InstanceKind::Virtual(..) => "virtual",
                        InstanceKind::ClosureOnceShim { .. } => "closure_once_shim",
                        InstanceKind::FnPtrShim(..) => "fnptr_shim",
                        InstanceKind::CloneShim(..) => "clone_shim",
                        InstanceKind::DropGlue(..) => "drop_glue",
                        InstanceKind::ReifyShim(..) => "reify_shim",
                        _ => "other",
                    };
                    let rd = inst.def_id();
                    o.push(("res", js(self.path(rd))));
                    o.push(("res_kind", js(kind)));
                    o.push(("res_targs", self.targs(inst.args)));
                    o.push(("res_local", J::B(rd.is_local())));
                    o.push(("res_crate", js(tcx.crate_name(rd.krate).to_string())));
                }
                _ => {
                    o.push(("res", J::Null));
                }
            }
        }
        jo(o)
    }

    fn constant(&self, env: TypingEnv<'tcx>, c: &Const<'tcx>, span: Span) -> J {
        let tcx = self.tcx;
        let t = c.ty();
        let mut o: Vec<(&str, J)> = vec![("ty", js(self.ty(t)))];
        if let ty::FnDef(did, args) = *t.kind() {
            o.push(("fn", self.fn_ref(env, did, args)));
            return jo(o);
        }
        match c {
            Const::Val(cv, _) => {
                o.push(("v", self.const_value(env, *cv, t)));
            }
            Const::Unevaluated(uv, _) => {
                o.push(("def", js(self.path(uv.def))));
                if let Some(p) = uv.promoted {
                    o.push(("promoted", jn(p.as_u32())));
                }
                if uv.args.len() > 0 {
                    o.push(("targs", self.targs(uv.args)));
                }
                match tcx.const_eval_resolve(env, *uv, span) {
                    Ok(cv) => o.push(("v", self.const_value(env, cv, t))),
                    Err(_) => o.push(("v_err", js("not evaluable here"))),
                }
            }
            Const::Ty(_, ct) => {
                o.push(("tyconst", js(format!("{:?}", ct))));
                if let Some(v) = ct.try_to_target_usize(tcx) {
                    o.push(("v", jn(v)));
                } else if let Some(leaf) = ct.try_to_leaf() {
                    // scalar constants of other widths (range-pattern bounds such as `0b100..=0b111` on a u8)
                    o.push(("v", self.const_value(env, ConstValue::Scalar(Scalar::Int(leaf)), t)));
                }
            }
        }
        jo(o)
    }

    fn operand(&self, env: TypingEnv<'tcx>, op: &Operand<'tcx>) -> J {
        match op {
            Operand::Copy(p) => J::A(vec![js("c"), self.place(p)]),
            Operand::Move(p) => J::A(vec![js("m"), self.place(p)]),
            Operand::Constant(c) => J::A(vec![js("k"), self.constant(env, &c.const_, c.span)]),
            #[allow(unreachable_patterns)]
            other => J::A(vec![js("?"), js(format!("{:?}", other))]),
        }
    }

    fn rvalue(&self, env: TypingEnv<'tcx>, rv: &Rvalue<'tcx>) -> J {
        match rv {
            Rvalue::Use(op, ..) => jo(vec![("k", js("use")), ("op", self.operand(env, op))]),
            Rvalue::Repeat(op, n) => jo(vec![
                ("k", js("repeat")),
                ("op", self.operand(env, op)),
                (
                    "n",
                    match n.try_to_target_usize(self.tcx) {
                        Some(v) => jn(v),
                        None => js(format!("{:?}", n)),
                    },
                ),
            ]),
            Rvalue::Ref(_, bk, p) => jo(vec![
                ("k", js("ref")),
                ("mut", J::B(matches!(bk, rustc_middle::mir::BorrowKind::Mut { .. }))),
                ("place", self.place(p)),
            ]),
            Rvalue::RawPtr(kind, p) => jo(vec![
                ("k", js("rawptr")),
                ("kind", js(format!("{:?}", kind))),
                ("place", self.place(p)),
            ]),
            Rvalue::Cast(kind, op, t) => jo(vec![
                ("k", js("cast")),
                ("kind", js(format!("{:?}", kind))),
                ("op", self.operand(env, op)),
                ("ty", js(self.ty(*t))),
            ]),
            Rvalue::BinaryOp(op, ops) => jo(vec![
                ("k", js("binop")),
                ("op", js(format!("{:?}", op))),
                ("a", self.operand(env, &ops.0)),
                ("b", self.operand(env, &ops.1)),
            ]),
            Rvalue::UnaryOp(op, a) => jo(vec![
                ("k", js("unop")),
                ("op", js(format!("{:?}", op))),
                ("a", self.operand(env, a)),
            ]),
            Rvalue::Discriminant(p) => jo(vec![("k", js("discr")), ("place", self.place(p))]),
            Rvalue::Aggregate(kind, ops) => {
                let kj = match &**kind {
                    AggregateKind::Array(t) => jo(vec![("array", js(self.ty(*t)))]),
                    AggregateKind::Tuple => jo(vec![("tuple", J::Null)]),
                    AggregateKind::Adt(did, variant, args, _, active) => jo(vec![
                        ("adt", js(self.path(*did))),
                        ("variant", jn(variant.as_u32())),
                        (
                            "variant_name",
                            js(self.tcx.adt_def(*did).variant(*variant).name.to_string()),
                        ),
                        ("targs", self.targs(args)),
                        ("union_field", match active {
                            Some(f) => jn(f.as_u32()),
                            None => J::Null,
                        }),
                    ]),
                    AggregateKind::Closure(did, args) => jo(vec![
                        ("closure", js(self.path(*did))),
                        ("targs", self.targs(args)),
                    ]),
                    other => jo(vec![("other", js(format!("{:?}", other)))]),
                };
                jo(vec![
                    ("k", js("agg")),
                    ("kind", kj),
                    ("ops", J::A(ops.iter().map(|o| self.operand(env, o)).collect())),
                ])
            }
            Rvalue::CopyForDeref(p) => jo(vec![("k", js("use")), ("op", J::A(vec![js("c"), self.place(p)]))]),
            Rvalue::ThreadLocalRef(did) => jo(vec![("k", js("tls")), ("def", js(self.path(*did)))]),
            other => jo(vec![("k", js("other")), ("dbg", js(format!("{:?}", other)))]),
        }
    }

    fn body(&self, owner: DefId, body: &Body<'tcx>) -> J {
        let env = TypingEnv::post_analysis(self.tcx, owner);
        let mut locals = Vec::new();
        for (_l, d) in body.local_decls.iter_enumerated() {
            locals.push(jo(vec![
                ("ty", js(self.ty(d.ty))),
                ("mut", J::B(d.mutability.is_mut())),
            ]));
        }
        let mut dbg = Vec::new();
        for v in body.var_debug_info.iter() {
            let val = match &v.value {
                rustc_middle::mir::VarDebugInfoContents::Place(p) => self.place(p),
                rustc_middle::mir::VarDebugInfoContents::Const(c) => {
                    jo(vec![("const", self.constant(env, &c.const_, c.span))])
                }
            };
            dbg.push(jo(vec![
                ("name", js(v.name.to_string())),
                ("val", val),
                ("arg", match v.argument_index {
                    Some(i) => jn(i),
                    None => J::Null,
                }),
            ]));
        }
        let bbj = |b: &BasicBlock| jn(b.as_u32());
        let unwind = |u: &UnwindAction| match u {
            UnwindAction::Cleanup(b) => jn(b.as_u32()),
            _ => J::Null,
        };
        let mut blocks = Vec::new();
        for (_bb, data) in body.basic_blocks.iter_enumerated() {
            let mut stmts = Vec::new();
            for st in data.statements.iter() {
                match &st.kind {
                    StatementKind::Assign(b) => {
                        let (p, rv) = &**b;
                        stmts.push(jo(vec![
                            ("k", js("assign")),
                            ("place", self.place(p)),
                            ("rv", self.rvalue(env, rv)),
                            ("span", js(self.span(st.source_info.span))),
                            ("expn", J::B(st.source_info.span.from_expansion())),
                        ]));
                    }
                    StatementKind::SetDiscriminant { place, variant_index } => {
                        stmts.push(jo(vec![
                            ("k", js("setdiscr")),
                            ("place", self.place(place)),
                            ("variant", jn(variant_index.as_u32())),
                            ("span", js(self.span(st.source_info.span))),
                        ]));
                    }
                    StatementKind::Intrinsic(i) => {
                        stmts.push(jo(vec![
                            ("k", js("intrinsic")),
                            ("dbg", js(format!("{:?}", i))),
                            ("span", js(self.span(st.source_info.span))),
                        ]));
                    }
                    _ => {}
                }
            }
            let term = data.terminator();
            let tsp = term.source_info.span;
            let mut t: Vec<(&str, J)> = Vec::new();
            match &term.kind {
                TerminatorKind::Goto { target } => {
                    t.push(("k", js("goto")));
                    t.push(("target", bbj(target)));
                }
                TerminatorKind::SwitchInt { discr, targets } => {
                    t.push(("k", js("switch")));
                    t.push(("discr", self.operand(env, discr)));
                    let mut tv = Vec::new();
                    for (v, b) in targets.iter() {
                        tv.push(J::A(vec![jn(v), bbj(&b)]));
                    }
                    t.push(("targets", J::A(tv)));
                    t.push(("otherwise", bbj(&targets.otherwise())));
                    let dty = discr.ty(&body.local_decls, self.tcx);
                    t.push(("discr_ty", js(self.ty(dty))));
                }
                TerminatorKind::Return => t.push(("k", js("return"))),
                TerminatorKind::Unreachable => t.push(("k", js("unreachable"))),
                TerminatorKind::UnwindResume => t.push(("k", js("resume"))),
                TerminatorKind::UnwindTerminate(_) => t.push(("k", js("terminate"))),
                TerminatorKind::Drop { place, target, unwind: u, .. } => {
                    t.push(("k", js("drop")));
                    t.push(("place", self.place(place)));
                    t.push(("target", bbj(target)));
                    t.push(("unwind", unwind(u)));
                }
                TerminatorKind::Call { func, args, destination, target, unwind: u, .. } => {
                    t.push(("k", js("call")));
                    t.push(("func", self.operand(env, func)));
                    t.push((
                        "args",
                        J::A(args.iter().map(|a| self.operand(env, &a.node)).collect()),
                    ));
                    t.push(("dest", self.place(destination)));
                    t.push(("target", match target {
                        Some(b) => bbj(b),
                        None => J::Null,
                    }));
                    t.push(("unwind", unwind(u)));
                }
                TerminatorKind::TailCall { func, args, .. } => {
                    t.push(("k", js("tailcall")));
                    t.push(("func", self.operand(env, func)));
                    t.push((
                        "args",
                        J::A(args.iter().map(|a| self.operand(env, &a.node)).collect()),
                    ));
                }
                TerminatorKind::Assert { cond, expected, msg, target, unwind: u } => {
                    t.push(("k", js("assert")));
                    t.push(("cond", self.operand(env, cond)));
                    t.push(("expected", J::B(*expected)));
                    let kind = format!("{:?}", msg);
                    let kind = kind.split(|c| c == '(' || c == ' ' || c == '{').next().unwrap_or("").to_string();
                    t.push(("msg", js(kind)));
                    t.push(("target", bbj(target)));
                    t.push(("unwind", unwind(u)));
                }
                TerminatorKind::FalseEdge { real_target, .. } => {
                    t.push(("k", js("goto")));
                    t.push(("target", bbj(real_target)));
                }
                TerminatorKind::FalseUnwind { real_target, .. } => {
                    t.push(("k", js("goto")));
                    t.push(("target", bbj(real_target)));
                }
                TerminatorKind::InlineAsm { .. } => t.push(("k", js("asm"))),
                other => {
                    t.push(("k", js("other")));
                    t.push(("dbg", js(format!("{:?}", other))));
                }
            }
            t.push(("span", js(self.span(tsp))));
            t.push(("expn", J::B(tsp.from_expansion())));
            blocks.push(jo(vec![
                ("cleanup", J::B(data.is_cleanup)),
                ("stmts", J::A(stmts)),
                ("term", jo(t)),
            ]));
        }
        jo(vec![
            ("arg_count", jn(body.arg_count)),
            ("locals", J::A(locals)),
            ("debug", J::A(dbg)),
            ("blocks", J::A(blocks)),
        ])
    }
}

// ---------------------------------------------------------------- unsafe-block visitor
struct UnsafeVisitor<'a, 'tcx> {
    cx: &'a Cx<'tcx>,
    owner: String,
    out: &'a mut Vec<J>,
}
impl<'a, 'tcx> Visitor<'tcx> for UnsafeVisitor<'a, 'tcx> {
    fn visit_block(&mut self, b: &'tcx rustc_hir::Block<'tcx>) {
        if let rustc_hir::BlockCheckMode::UnsafeBlock(src) = b.rules {
            self.out.push(jo(vec![
                ("owner", js(self.owner.clone())),
                ("source", js(format!("{:?}", src))),
                ("span", js(self.cx.span(b.span))),
                ("expn", self.cx.expn(b.span)),
            ]));
        }
        intravisit::walk_block(self, b);
    }
}

// ---------------------------------------------------------------- the dump
fn dump<'tcx>(tcx: TyCtxt<'tcx>, full: bool) -> J {
    let cx = Cx { tcx };
    let crate_name = tcx.crate_name(LOCAL_CRATE).to_string();
    let mut fns = Vec::new();
    let mut consts = Vec::new();
    let mut statics = Vec::new();
    let mut adts = Vec::new();
    let mut impls = Vec::new();
    let mut traits = Vec::new();
    let mut foreign = Vec::new();
    let mut unsafe_blocks = Vec::new();
    let mut other_items = Vec::new();

    // every definition of the crate
    for ldid in tcx.iter_local_def_id() {
        let did = ldid.to_def_id();
        let kind = tcx.def_kind(did);
        let sp = tcx.def_span(did);
        match kind {
            DefKind::Struct | DefKind::Enum | DefKind::Union => {
                let adt = tcx.adt_def(did);
                let generics = tcx.generics_of(did);
                let mono = generics.own_params.iter().all(|p| matches!(p.kind, ty::GenericParamDefKind::Lifetime));
                let t = tcx.type_of(did).instantiate_identity().skip_norm_wip();
                let env = TypingEnv::post_analysis(tcx, did);
                let mut variants = Vec::new();
                for v in adt.variants().iter() {
                    let mut fields = Vec::new();
                    for f in v.fields.iter() {
                        let ft = tcx.type_of(f.did).instantiate_identity().skip_norm_wip();
                        fields.push(jo(vec![
                            ("name", js(f.name.to_string())),
                            ("ty", js(cx.ty(ft))),
                            ("vis", js(format!("{:?}", f.vis))),
                            ("freeze", J::B(ft.is_freeze(tcx, env))),
                        ]));
                    }
                    variants.push(jo(vec![("name", js(v.name.to_string())), ("fields", J::A(fields))]));
                }
                adts.push(jo(vec![
                    ("path", js(cx.path(did))),
                    ("kind", js(format!("{:?}", kind))),
                    ("vis", js(format!("{:?}", tcx.visibility(did)))),
                    ("mono", J::B(mono)),
                    ("freeze", J::B(t.is_freeze(tcx, env))),
                    ("copy", J::B(tcx.type_is_copy_modulo_regions(env, t))),
                    ("variants", J::A(variants)),
                    ("span", js(cx.span(sp))),
                    ("expn", cx.expn(sp)),
                ]));
            }
            DefKind::Impl { of_trait } => {
                let st = tcx.type_of(did).instantiate_identity().skip_norm_wip();
                let mut o = vec![
                    ("self_ty", js(cx.ty(st))),
                    ("span", js(cx.span(sp))),
                    ("expn", cx.expn(sp)),
                    ("generics", jn(tcx.generics_of(did).own_params.len())),
                ];
                if of_trait {
                    let tr = tcx.impl_trait_ref(did).instantiate_identity().skip_norm_wip();
                    o.push(("trait", js(cx.path(tr.def_id))));
                    o.push(("trait_ref", js(with_no_trimmed_paths!(format!("{}", tr)))));
                    let hdr = tcx.impl_trait_header(did);
                    o.push(("safety", js(format!("{:?}", hdr.safety))));
                    o.push(("polarity", js(format!("{:?}", hdr.polarity))));
                } else {
                    o.push(("trait", J::Null));
                }
                let mut items = Vec::new();
                for it in tcx.associated_items(did).in_definition_order() {
                    items.push(jo(vec![
                        ("name", js(it.name().to_string())),
                        ("def", js(cx.path(it.def_id))),
                        ("kind", js(format!("{:?}", it.kind).split('{').next().unwrap_or("").trim().to_string())),
                        (
                            "trait_item",
                            match it.trait_item_def_id() {
                                Some(t) => js(cx.path(t)),
                                None => J::Null,
                            },
                        ),
                    ]));
                }
                o.push(("items", J::A(items)));
                impls.push(jo(o));
            }
            DefKind::Trait => {
                let mut items = Vec::new();
                for it in tcx.associated_items(did).in_definition_order() {
                    items.push(jo(vec![
                        ("name", js(it.name().to_string())),
                        ("def", js(cx.path(it.def_id))),
                        ("has_default", J::B(it.defaultness(tcx).has_value())),
                    ]));
                }
                traits.push(jo(vec![
                    ("path", js(cx.path(did))),
                    ("vis", js(format!("{:?}", tcx.visibility(did)))),
                    ("safety", js(format!("{:?}", tcx.trait_def(did).safety))),
                    ("items", J::A(items)),
                    ("span", js(cx.span(sp))),
                ]));
            }
            DefKind::Static { mutability, nested, .. } => {
                let t = tcx.type_of(did).instantiate_identity().skip_norm_wip();
                let env = TypingEnv::post_analysis(tcx, did);
                statics.push(jo(vec![
                    ("path", js(cx.path(did))),
                    ("ty", js(cx.ty(t))),
                    ("mutable", J::B(mutability.is_mut())),
                    ("nested", J::B(nested)),
                    ("thread_local", J::B(tcx.is_thread_local_static(did))),
                    ("freeze", J::B(t.is_freeze(tcx, env))),
                    ("span", js(cx.span(sp))),
                    ("expn", cx.expn(sp)),
                    ("foreign", J::B(tcx.is_foreign_item(did))),
                ]));
            }
            DefKind::Const { .. } | DefKind::AssocConst { .. } => {
                let t = tcx.type_of(did).instantiate_identity().skip_norm_wip();
                let mut o = vec![
                    ("path", js(cx.path(did))),
                    ("ty", js(cx.ty(t))),
                    ("vis", js(format!("{:?}", tcx.visibility(did)))),
                    ("span", js(cx.span(sp))),
                    ("expn", cx.expn(sp)),
                ];
                // only items with a body can be evaluated
                let has_body = ldid_has_body(tcx, ldid);
                if full && has_body && tcx.generics_of(did).is_empty() {
                    let env = TypingEnv::post_analysis(tcx, did);
                    match tcx.const_eval_poly(did) {
                        Ok(cv) => o.push(("v", cx.const_value(env, cv, t))),
                        Err(_) => o.push(("v_err", js("too generic or error"))),
                    }
                }
                consts.push(jo(o));
            }
            DefKind::ForeignMod | DefKind::ForeignTy | DefKind::GlobalAsm => {
                foreign.push(jo(vec![
                    ("path", js(cx.path(did))),
                    ("kind", js(format!("{:?}", kind))),
                    ("span", js(cx.span(sp))),
                ]));
            }
            DefKind::Fn | DefKind::AssocFn | DefKind::Closure => {
                let mut o: Vec<(&str, J)> = vec![
                    ("path", js(cx.path(did))),
                    ("kind", js(format!("{:?}", kind))),
                    ("span", js(cx.span(sp))),
                    ("expn", cx.expn(sp)),
                    ("foreign", J::B(tcx.is_foreign_item(did))),
                ];
                if matches!(kind, DefKind::Fn | DefKind::AssocFn) {
                    o.push(("name", js(tcx.item_name(did).to_string())));
                    o.push(("vis", js(format!("{:?}", tcx.visibility(did)))));
                    let sig = tcx.fn_sig(did).instantiate_identity().skip_norm_wip();
                    o.push(("unsafe", J::B(!sig.safety().is_safe())));
                    o.push(("const_fn", J::B(tcx.is_const_fn(did))));
                    o.push(("sig", js(with_no_trimmed_paths!(format!("{}", sig)))));
                    let g = tcx.generics_of(did);
                    o.push(("generic_count", jn(g.count())));
                    // names of all generic parameters in substitution order (parents first), as printed in types
                    let mut names: Vec<J> = Vec::new();
                    for i in 0..g.count() {
                        names.push(js(g.param_at(i, tcx).name.to_string()));
                    }
                    o.push(("generic_names", J::A(names)));
                    o.push(("reachable_pub", J::B(tcx.effective_visibilities(()).is_reachable(ldid))));
                }
                let parent = tcx.parent(did);
                o.push(("parent", js(cx.path(parent))));
                if let DefKind::Impl { of_trait } = tcx.def_kind(parent) {
                    let st = tcx.type_of(parent).instantiate_identity().skip_norm_wip();
                    o.push(("impl_self_ty", js(cx.ty(st))));
                    if of_trait {
                        let tr = tcx.impl_trait_ref(parent).instantiate_identity().skip_norm_wip();
                        o.push(("impl_trait", js(cx.path(tr.def_id))));
                    }
                    o.push(("impl_expn", cx.expn(tcx.def_span(parent))));
                } else if let DefKind::Trait = tcx.def_kind(parent) {
                    o.push(("in_trait", js(cx.path(parent))));
                }
                let has_body = ldid_has_body(tcx, ldid);
                o.push(("has_body", J::B(has_body)));
                if has_body && full && !tcx.is_foreign_item(did) {
                    let body = tcx.optimized_mir(did);
                    o.push(("mir", cx.body(did, body)));
                    let proms = tcx.promoted_mir(did);
                    let mut pv = Vec::new();
                    for p in proms.iter() {
                        pv.push(cx.body(did, p));
                    }
                    o.push(("promoted", J::A(pv)));
                }
                if has_body {
                    let hb = tcx.hir_body_owned_by(ldid);
                    let mut v = UnsafeVisitor { cx: &cx, owner: cx.path(did), out: &mut unsafe_blocks };
                    v.visit_body(hb);
                }
                fns.push(jo(o));
            }
            DefKind::Macro(..) | DefKind::Mod | DefKind::Use | DefKind::TyAlias | DefKind::ExternCrate => {
                if matches!(kind, DefKind::ExternCrate) {
                    other_items.push(jo(vec![("kind", js("ExternCrate")), ("path", js(cx.path(did)))]));
                }
            }
            _ => {}
        }
    }

    jo(vec![
        ("crate", js(crate_name)),
        ("full", J::B(full)),
        ("debug_assertions", J::B(tcx.sess.opts.debug_assertions)),
        ("overflow_checks", J::B(tcx.sess.overflow_checks())),
        ("fns", J::A(fns)),
        ("consts", J::A(consts)),
        ("statics", J::A(statics)),
        ("adts", J::A(adts)),
        ("impls", J::A(impls)),
        ("traits", J::A(traits)),
        ("foreign", J::A(foreign)),
        ("unsafe_blocks", J::A(unsafe_blocks)),
        ("other", J::A(other_items)),
    ])
}

fn ldid_has_body(tcx: TyCtxt<'_>, ldid: LocalDefId) -> bool {
    tcx.hir_maybe_body_owned_by(ldid).is_some()
}

struct PpCallbacks {
    out_dir: Option<String>,
    crates: Vec<String>,
}

impl Callbacks for PpCallbacks {
    fn after_analysis<'tcx>(&mut self, _c: &rustc_interface::interface::Compiler, tcx: TyCtxt<'tcx>) -> Compilation {
        let name = tcx.crate_name(LOCAL_CRATE).to_string();
        let Some(dir) = &self.out_dir else { return Compilation::Continue };
        let star = self.crates.iter().any(|c| c == "*");
        let listed = self.crates.iter().any(|c| *c == name);
        if !(star || listed) {
            return Compilation::Continue;
        }
        if name == "build_script_build" {
            return Compilation::Continue;
        }
        let full = listed || std::env::var("PPFACTS_FULL_ALL").is_ok();
        let j = dump(tcx, full);
        let mut s = String::new();
        j.write(&mut s);
        let path = format!("{}/{}.json", dir, name);
        let tmp = format!("{}.tmp{}", path, std::process::id());
        std::fs::write(&tmp, s).expect("ppfacts: cannot write fact file");
        std::fs::rename(&tmp, &path).expect("ppfacts: cannot rename fact file");
        Compilation::Continue
    }
}

fn main() {
    let mut args: Vec<String> = std::env::args().collect();
    // wrapper protocol: argv[1] is the path of the real rustc
    if args.len() > 1 && (args[1].ends_with("rustc") || args[1].contains("/rustc")) {
        args.remove(1);
    }
    let out_dir = std::env::var("PPFACTS_OUT").ok();
    let crates = std::env::var("PPFACTS_CRATE")
        .unwrap_or_else(|_| "pairing_plus".to_string())
        .split(',')
        .map(|s| s.to_string())
        .collect();
    let mut cb = PpCallbacks { out_dir, crates };
    rustc_driver::run_compiler(&args, &mut cb);
}

#[allow(dead_code)]
fn _unused(_: FieldIdx) {}

"""C01 -- the general-position formulas of the group law, decided in the polynomial-ring domain.

double, add_assign and add_assign_mixed are interpreted over MIR with the Jacobian coordinates as atoms of a commutative
ring (the base field Fq or Fq2: the identities below hold in any commutative ring, so one run per group suffices).
On every path that handles two finite operands by a formula, the returned (X3, Y3, Z3) is compared with the affine
chord-and-tangent law

    lambda = (y2 - y1) / (x2 - x1)     resp.  3 x1^2 / (2 y1)   (a = 0),
    x3 = lambda^2 - x1 - x2,           y3 = lambda (x1 - x3) - y1,          x_i = X_i / Z_i^2,  y_i = Y_i / Z_i^3

by cross-multiplication:  X3 * den(x3) == num(x3) * Z3^2  and  Y3 * den(y3) == num(y3) * Z3^3  as polynomials.  The
specification side is computed from the affine law by generic fraction arithmetic (no hand-derived projective formula
is trusted).  Paths for exceptional operands are the business of the truth-table rules in c01.py."""
import exp
import inline as INL
import stdmodel
import polyring as PR
from exp import Agg, Int, Opt, TOP
from polyring import Poly

FIELD = 'ff::Field'


class Frac:
    __slots__ = ('n', 'd')

    def __init__(self, n, d=None):
        self.n = n
        self.d = d if d is not None else PR.ONE

    def __add__(self, o):
        if self.d == o.d:
            return Frac(self.n.add(o.n), self.d)
        return Frac(self.n.mul(o.d).add(o.n.mul(self.d)), self.d.mul(o.d))

    def __sub__(self, o):
        if self.d == o.d:
            return Frac(self.n.add(o.n, -1), self.d)
        return Frac(self.n.mul(o.d).add(o.n.mul(self.d), -1), self.d.mul(o.d))

    def __mul__(self, o):
        return Frac(self.n.mul(o.n), self.d.mul(o.d))

    def __truediv__(self, o):
        return Frac(self.n.mul(o.d), self.d.mul(o.n))

    def scale(self, k):
        return Frac(self.n.scale(k), self.d)


def pw(p, k):
    r = PR.ONE
    for _ in range(k):
        r = r.mul(p)
    return r


def affine(X, Y, Z):
    return Frac(X, pw(Z, 2)), Frac(Y, pw(Z, 3))


def law_add(x1, y1, x2, y2):
    lam = (y2 - y1) / (x2 - x1)
    x3 = lam * lam - x1 - x2
    y3 = lam * (x1 - x3) - y1
    return x3, y3


def law_double(x1, y1):
    lam = (x1 * x1).scale(3) / y1.scale(2)
    x3 = lam * lam - x1.scale(2)
    y3 = lam * (x1 - x3) - y1
    return x3, y3


def transfer(I, fr, t, c, pth):
    nm = c.get('name')
    args = t['args']
    if c.get('trait') == FIELD:
        if nm in ('add_assign', 'sub_assign', 'mul_assign') and len(args) == 2:
            a, b = fr.deref_operand(args[0]), fr.deref_operand(args[1])
            if isinstance(a, Poly) and isinstance(b, Poly):
                fr.store_through(args[0], a.add(b) if nm == 'add_assign' else (a.add(b, -1) if nm == 'sub_assign' else a.mul(b)))
                return True
            return False
        if nm in ('double', 'negate', 'square') and len(args) == 1:
            a = fr.deref_operand(args[0])
            if isinstance(a, Poly):
                fr.store_through(args[0], a.scale(2) if nm == 'double' else (a.neg() if nm == 'negate' else a.mul(a)))
                return True
            return False
        if nm in ('zero', 'one') and not args:
            fr.storev(t['dest'], PR.ONE if nm == 'one' else PR.ZERO)
            return True
        if nm == 'is_zero' and len(args) == 1:
            a = fr.deref_operand(args[0])
            if isinstance(a, Poly):
                fr.storev(t['dest'], ('bool', ('pzero', a)))
                return True
            return False
    if c.get('trait') == 'std::cmp::PartialEq' and nm in ('eq', 'ne') and len(args) == 2:
        a, b = fr.deref_operand(args[0]), fr.deref_operand(args[1])
        for _ in range(3):
            if isinstance(a, exp.Ref):
                a = fr._project(fr.store.get(a.root, TOP), a.proj)
            if isinstance(b, exp.Ref):
                b = fr._project(fr.store.get(b.root, TOP), b.proj)
        if isinstance(a, Poly) and isinstance(b, Poly) and (a.is_zero() or b.is_zero()) and not (a.is_zero() and b.is_zero()):
            # `x == F::zero()` is the zero test of x
            key = ('pzero', b if a.is_zero() else a)
            fr.storev(t['dest'], ('bool', key if nm == 'eq' else ('not', key)))
            return True
        if isinstance(a, Poly) and isinstance(b, Poly):
            key = ('peq', a.add(b, -1))
            fr.storev(t['dest'], ('bool', key if nm == 'eq' else ('not', key)))
            return True
        return False
    if c.get('trait') == 'CurveProjective' and nm == 'double' and len(args) == 1:
        fr.store_through(args[0], ('doubled', fr.deref_operand(args[0])))
        return True
    if c.get('trait') in ('CurveProjective', 'CurveAffine') and nm == 'zero' and not args:
        fr.storev(t['dest'], ('identity',))
        return True
    return stdmodel.result_transfer(I, fr, t, c, pth)


def substitution(pth):
    """Facts a path established that can be used as substitutions: atom = constant (from `x == const` or `x.is_zero()`
    answered true).  Returns (dict atom -> Poly, list of other true facts as polynomials that vanish)."""
    import tt
    sub, vanish = {}, []
    for lab, taken in pth.labels:
        x, neg = tt.strip_not(lab)
        if not (isinstance(x, tuple) and x and x[0] in ('peq', 'pzero')):
            continue
        truth = (taken != 0) != neg
        if not truth:
            continue
        p = x[1]
        lin = [(k, v) for k, v in p.t.items() if len(k) == 1]
        const = p.t.get((), 0)
        if len(p.t) <= 2 and len(lin) == 1 and len(p.t) == (2 if const else 1) and lin[0][1] in (1, PR.Q - 1):
            a = lin[0][0][0]
            # +-a + const = 0
            sub[a] = Poly.const(-const if lin[0][1] == 1 else const)
        else:
            vanish.append(p)
    return sub, vanish


def apply_sub(p, sub):
    if not sub or not isinstance(p, Poly):
        return p
    out = PR.ZERO
    for k, v in p.t.items():
        term = Poly.const(v)
        for a in k:
            term = term.mul(sub[a] if a in sub else Poly.atom(a))
        out = out.add(term)
    return out


def vanishes_under(p, v):
    """Does polynomial p vanish wherever v = 0?  Decided when v = g*a + r is linear in some atom a (g, r free of a):
    substitute a = -r/g into p and clear denominators.  None when v has no such atom."""
    atoms = sorted({a for k in v.t for a in k})
    for a in atoms:
        if any(k.count(a) > 1 for k in v.t):
            continue
        g = Poly({tuple(x for x in k if x != a): c for k, c in v.t.items() if a in k})
        r = Poly({k: c for k, c in v.t.items() if a not in k})
        if any(a in k for k in g.t):
            continue
        deg = max((k.count(a) for k in p.t), default=0)
        total = PR.ZERO
        mr = r.neg()
        for k, c in p.t.items():
            i = k.count(a)
            rest = Poly({tuple(x for x in k if x != a): c})
            total = total.add(rest.mul(pw(mr, i)).mul(pw(g, deg - i)))
        return total.is_zero()
    return None


def finite_paths(res, first_is_proj, mixed):
    """Paths on which both operands are finite and the result is produced by arithmetic on coordinates."""
    import tt
    out = []
    for pth, ret, outs in res:
        if isinstance(ret, tuple) and ret and ret[0] == 'diverges':
            continue
        o = outs.get(1)
        if not (isinstance(o, Agg) and len(o.items) == 3 and all(isinstance(x, Poly) for x in o.items)):
            continue
        skip = False
        for lab, taken in pth.labels:
            x, neg = tt.strip_not(lab)
            truth = (taken != 0) != neg
            if isinstance(x, tuple) and x and x[0] == 'infinity' and truth:
                skip = True
            if isinstance(x, tuple) and x and x[0] == 'pzero' and truth and len(x[1].t) == 1 and list(x[1].t)[0] in (('Z1',), ('Z2',)):
                skip = True
        if not skip:
            out.append((pth, o))
    return out


def rules(fx, rep, groups):
    old = PR.MAX_DEG, PR.MAX_TERMS
    PR.MAX_DEG, PR.MAX_TERMS = 120, 40000000
    try:
        _rules(fx, rep, groups)
    finally:
        PR.MAX_DEG, PR.MAX_TERMS = old


def _rules(fx, rep, groups):
    A = Poly.atom
    X1, Y1, Z1, X2, Y2, Z2 = A('X1'), A('Y1'), A('Z1'), A('X2'), A('Y2'), A('Z2')
    x2a, y2a = A('x2'), A('y2')
    ax1, ay1 = affine(X1, Y1, Z1)
    ax2, ay2 = affine(X2, Y2, Z2)
    specs = {
        'double': law_double(ax1, ay1),
        'add_assign': law_add(ax1, ay1, ax2, ay2),
        'add_assign_mixed': law_add(ax1, ay1, Frac(x2a), Frac(y2a)),
    }
    n = 0
    for g, proj, aff in groups:
        inl = set()
        for tr_, ty in (('CurveProjective', proj), ('CurveAffine', aff)):
            for m in ('is_zero', 'is_normalized'):
                q = fx.impl_method(tr_, ty, m)
                if q:
                    inl.add(q)
        for nm in ('double', 'add_assign', 'add_assign_mixed'):
            p = fx.impl_method('CurveProjective', proj, nm)
            inst = '%s:%s:general-formula' % (g, nm)
            if not (p and fx.body(p)):
                rep.fail('RING', inst, 'not found')
                continue
            rep.fn(p)
            where = fx.fn(p)['span']
            args = [('byref', Agg([X1, Y1, Z1]))]
            if nm == 'add_assign':
                args.append(('byref', Agg([X2, Y2, Z2])))
            elif nm == 'add_assign_mixed':
                args.append(('byref', Agg([x2a, y2a, ('bool', ('infinity',))])))
            I = exp.Interp(fx, 'none', extra_transfer=transfer, max_paths=64, inline=lambda q: q in inl or INL.is_private_helper(fx, q))
            I.fork_inlined = True
            try:
                res = I.run(p, args)
            except (exp.NotDerivable, exp.Budget) as e:
                rep.fail('RING', inst, 'not derivable: %s' % e, where, construct=p)
                continue
            rep.sites(I.call_sites)
            n += 1
            sx, sy = specs[nm]
            sx_diff = X1.mul(pw(Z2, 2)).add(X2.mul(pw(Z1, 2)), -1) if nm == 'add_assign' else X1.add(x2a.mul(pw(Z1, 2)), -1)
            paths = finite_paths(res, True, nm == 'add_assign_mixed')
            bad = []
            if not paths:
                bad.append('no path computes the result of two finite operands from their coordinates')
            for pth, o in paths:
                sub, vanish = substitution(pth)
                X3, Y3, Z3 = [apply_sub(v, sub) for v in o.items]
                nx, dx, ny, dy = [apply_sub(v, sub) for v in (sx.n, sx.d, sy.n, sy.d)]
                try:
                    z2 = Z3.mul(Z3)
                    okx = X3.mul(dx) == nx.mul(z2)
                    oky = Y3.mul(dy) == ny.mul(z2.mul(Z3))
                except exp.NotDerivable as e:
                    bad.append('identity too large to expand: %s' % e)
                    continue
                # a path that is also taken for operands with equal x (P + (-P)) must produce the identity there
                same_x = (sx_diff, sx_diff.neg())
                only_same_x = False
                for v in vanish:
                    if nm != 'double' and v in same_x:
                        only_same_x = True
                        r_ = vanishes_under(Z3, v)
                        if r_ is not True:
                            bad.append('the formula path is taken for operands with the same x (P + (-P)) but Z3 does not vanish there: the result is not the identity')
                if only_same_x:
                    # a path taken only for operands with the same x: the chord law does not apply (its denominator is
                    # zero); which of double / identity is due is the skeleton rule's business, the identity is Z3 = 0
                    continue
                if not okx:
                    bad.append('X3/Z3^2 differs from lambda^2 - x1 - x2' + (' (under %s)' % sorted(sub) if sub else ''))
                if not oky:
                    bad.append('Y3/Z3^3 differs from lambda (x1 - x3) - y1' + (' (under %s)' % sorted(sub) if sub else ''))
            rep.check(not bad, 'RING', inst,
                      'on every path for two finite operands (%d): (X3/Z3^2, Y3/Z3^3) equals the affine %s law of x_i = X_i/Z_i^2, y_i = Y_i/Z_i^3 as an identity of polynomials in the coordinates (cross-multiplied)' % (len(paths), 'tangent' if nm == 'double' else 'chord'),
                      '; '.join(sorted(set(bad))[:3]), where, construct=p)
    rep.floor('RING', 'group-law-formulas', n, 6)

"""C15 -- simplified SWU: constants, candidate exponents, branch structure, sign fix.

All statements below are about exponent vectors (monomials) of the values the code
computes, derived by the EXP abstract interpreter, plus arithmetic on the extracted
constant tables.  Together they give, for every input t:
  * cand^2 * v / u is a 2nd (G1) resp. 8th (G2) root of unity (exponent shape);
  * the tables of multipliers are complete for those roots of unity, so some trial
    matches and the terminal panic of the G2 map is unreachable;
  * on each returning path the affine point (X/Z^2, Y/Z^3) is (x0, y) or (x1, y) with
    y^2 = g(x) *as a consequence of the path condition*, x0 tried first, and the sign of
    y fixed with sgn0(y_affine) ^ sgn0(t).
"""
import roles
import construles as C
import exp
import mathlib as M
from exp import Lin
from facts import callee
from props import common

PROP = 'C15'
HELP_NAMES = ['usq', 'xi_usq', 'xi2_u4', 'x0_num', 'x0_den', 'gx0_num', 'gx0_den']
OSSWU = 'bls12_381::osswu_map::OSSWUMap'


def subst(l, rel):
    """Substitute atoms by linear forms (relations established separately)."""
    out = Lin()
    for a, k in l.t.items():
        if a in rel:
            out = out.add(rel[a].scale(k))
        else:
            out = out.add(Lin({a: k}))
    return out


def mod2(l, atoms):
    """Reduce coefficients of order-2 atoms (sign, -1) modulo 2."""
    return Lin({a: (k % 2 if a in atoms else k) for a, k in l.t.items()})


def rules(fx, rep):
    sswu = C.check_sswu_consts(fx, rep)      # Z, A', B' in position, own module
    if len(sswu) < 2:
        return
    helper_paths = set((callee(v[3]).get('res') or callee(v[3])['def']) for v in sswu.values())
    rep.check(len(helper_paths) == 1, 'WIRE', 'shared-helper', 'G1 and G2 share one SSWU helper', 'different helpers: %s' % sorted(helper_paths))
    helper = sorted(helper_paths)[0]
    rep.fn(helper)
    # ------------------------------------------------ helper: monomials and the exceptional branch
    I = exp.Interp(fx, 'mul')
    at = Lin.atom
    try:
        hres = I.run(helper, [('byref', at('t')), ('byref', at('xi')), ('byref', at('A')), ('byref', at('B'))])
    except (exp.NotDerivable, exp.Budget) as e:
        rep.fail('EXP', 'helper:derivable', 'helper not derivable: %s' % e, fx.fn(helper)['span'])
        return
    rep.sites(I.call_sites)
    hw = fx.fn(helper)['span']
    rep.check(len(hres) == 2, 'GUARD', 'helper:two-paths', 'one data-dependent branch (zero denominator)', 'helper has %d paths' % len(hres), hw)
    rel = None
    ok_exc = False
    for pth, ret, _ in hres:
        if not (isinstance(ret, exp.Agg) and len(ret.items) == 7):
            rep.fail('EXP', 'helper:result-shape', 'helper does not return 7 field elements', hw)
            return
        usq, xi_usq, xi2_u4, x0_num, x0_den, gx0_num, gx0_den = ret.items
        labs = pth.labels
        rep.check(usq == Lin({'t': 2}) and xi_usq == Lin({'t': 2, 'xi': 1}) and xi2_u4 == Lin({'t': 4, 'xi': 2}), 'EXP', 'helper:monomials',
                  'usq = t^2, xi_usq = xi t^2, xi2_u4 = xi^2 t^4', 'monomial outputs are %r, %r, %r' % (usq, xi_usq, xi2_u4), hw)
        # (numerator, denominators and the exceptional branch: decided as polynomial identities by rule_helper_polys)
    rel = {'usq': Lin({'t': 2}), 'xi_usq': Lin({'t': 2, 'xi': 1}), 'xi2_u4': Lin({'t': 4, 'xi': 2}), 'gx0_den': Lin({'x0_den': 3})}

    # ------------------------------------------------ per group
    q = M.Q
    for g, ty, e_chain, shape_mul, shape_vec in (
            ('G1', 'bls12_381::ec::g1::G1', (q - 3) // 4, (q - 1) // 2, (1, 3)),
            ('G2', 'bls12_381::ec::g2::G2', (q * q - 9) // 16, (q * q - 1) // 8, (1, 15))):
        Z, A, B, hcall, path = sswu[g]
        body = fx.body(path)
        where = fx.fn(path)['span']

        # ---- the addition chain, located by role and decided by contract: a free function (&mut F, &F) reachable from the
        # map whose every path leaves base^e in its first argument -- on the general path e must be the RFC exponent; a
        # path taken only for base = 0 or base = 1 may return any positive power of the base (0^k = 0, 1^k = 1)
        import inline as INL
        import roles as ROLES
        import tt as TT

        def inline_plain(p):
            f = fx.fn(p)
            return f is not None and not f.get('impl_self_ty') and p != helper and f['kind'] == 'Fn'
        cand_fns = []
        for q_ in sorted(ROLES.reach(fx, path, lambda c_, f_, t_: inline_plain(c_.get('res') or c_.get('def')))):
            bq = fx.body(q_)
            f_ = fx.fn(q_)
            if bq is None or bq.arg_count != 2 or not inline_plain(q_):
                continue
            if not (bq.local_ty(1).startswith('&mut') and bq.local_ty(2).startswith('&') and not bq.local_ty(2).startswith('&mut')):
                continue
            cs_ = [callee(t_) or {} for _, t_ in bq.calls()]
            if sum(1 for c_ in cs_ if c_.get('trait') == 'ff::Field' and c_.get('name') in ('square', 'mul_assign')) < 16:
                continue
            cand_fns.append(q_)
        chain_fns = set()
        X = at('x')
        kz, k1 = ('is_zero', TT.lin_key(X)), TT.eq_key(X, Lin())
        for cf in cand_fns:
            rep.fn(cf)
            Ic = exp.Interp(fx, 'mul', inline=lambda p_: (inline_plain(p_) and p_ not in cand_fns) or INL.is_private_helper(fx, p_))
            Ic.fork_inlined = True
            why = None
            n_general = 0
            try:
                cres = Ic.run(cf, [('byref', exp.TOP), ('byref', X)])
                for pth_, ret_, outs_ in cres:
                    if isinstance(ret_, tuple) and ret_ and ret_[0] == 'diverges':
                        why = 'the chain has a panic edge'
                        break
                    v = outs_.get(1)
                    lits = TT.path_literals(pth_)
                    if [l for l in lits if l[0] not in (kz, k1)]:
                        why = 'branches on %r' % ([l[2] for l in lits if l[0] not in (kz, k1)][0],)
                        break
                    special = any(l[1] for l in lits)
                    if not isinstance(v, Lin) or not v.atoms() <= {'x'}:
                        why = 'result is %r, not a power of the base' % (v,)
                        break
                    if special:
                        if v.coeff('x') <= 0 and any(l[0] == kz and l[1] for l in lits):
                            why = 'returns base^%d for base = 0' % v.coeff('x')
                            break
                        continue
                    n_general += 1
                    if v.t != {'x': e_chain}:
                        why = 'chain computes %r' % (v,)
                        break
                if why is None and not n_general:
                    why = 'no general path'
            except (exp.NotDerivable, exp.Budget) as e:
                why = 'chain not derivable: %s' % e
            rep.check(why is None, 'EXP', '%s:chain-exponent' % g,
                      ('addition chain raises to (q-3)/4' if g == 'G1' else 'addition chain raises to (q^2-9)/16') + ' on its general path; special paths for base 0 / 1 return a positive power of the base',
                      why or '', fx.fn(cf)['span'])
            if why is None:
                chain_fns.add(cf)

        def tr(I2, fr, t, c, pth):
            r_ = c.get('res') or c['def']
            if r_ == helper:
                fr.storev(t['dest'], exp.Agg([at(n) for n in HELP_NAMES]))
                return True
            if c.get('trait') == 'ff::Field' and c.get('name') == 'is_zero' and len(t['args']) == 1:
                v = fr.deref_operand(t['args'][0])
                if isinstance(v, Lin) and v.t and set(v.t) <= {'x0_den', 'gx0_den'} and all(k_ > 0 for k_ in v.t.values()):
                    # the helper's denominators are non-zero on both of its paths (decided by the helper rules:
                    # A' xi resp. -A' (xi^2 t^4 + xi t^2) under the test that the latter is non-zero)
                    fr.storev(t['dest'], exp.Int(0, 1))
                    return True
            if r_ in chain_fns and len(t['args']) == 2:
                v = fr.deref_operand(t['args'][1])
                if isinstance(v, Lin):
                    fr.store_through(t['args'][0], v.scale(e_chain))
                    return True
            return False

        def inline(p):
            return inline_plain(p) and p not in chain_fns
        I2 = exp.Interp(fx, 'mul', inline=inline, extra_transfer=tr)
        I2.fork_inlined = True
        try:
            res = I2.run(path, [('byref', at('t'))])
        except (exp.NotDerivable, exp.Budget) as e:
            rep.fail('EXP', '%s:derivable' % g, 'map not derivable: %s at %s' % (e, getattr(e, 'where', None)), where)
            continue
        rep.sites(I2.call_sites)
        rep.check(len(chain_fns) == 1, 'WIRE', '%s:one-chain' % g, 'one addition-chain helper', 'chain helpers verified: %s (candidates %s)' % (sorted(chain_fns), cand_fns), where)

        ntables = 1 if g == 'G1' else 4
        res = merge_explicit_sign_fix(res)
        # G1 returns the second candidate without testing it: an added assertion of  y1^2 gden == xi^3 t^6 gnum  after the
        # failed first test states the theorem this rule establishes anyway (candidate shape => cand^2 gden/gnum = +-1, so
        # failure of the first test gives -1 and y1^2 gden = (-xi^3) t^6 cand^2 gden = xi^3 t^6 gnum).  Such labels are
        # set aside (and checked to speak about the y that is returned); the path on which the assertion fails is infeasible.
        asserted_y = []
        if g == 'G1':
            want_r2 = Lin({'gx0_num': 1, 'xi': 3, 't': 6})

            def theorem_y(lab):
                if not (isinstance(lab, tuple) and lab and lab[0] in ('eq', 'ne') and isinstance(lab[1], Lin) and isinstance(lab[2], Lin)):
                    return None
                lhs_, rhs_ = subst(lab[1], rel), subst(lab[2], rel)
                for a_, b_ in ((lhs_, rhs_), (rhs_, lhs_)):
                    if b_ == want_r2:
                        yy = a_.add(Lin({'x0_den': -3}))
                        if yy.t and all(v_ % 2 == 0 for v_ in yy.t.values()):
                            return Lin({k_: v_ // 2 for k_, v_ in yy.t.items()})
                return None
            res2 = []
            for p_, r_, o_ in res:
                keep, drop_path, seen_fail = [], False, False
                for l in p_.labels:
                    ty_ = theorem_y(l[0])
                    is_eq_lab = isinstance(l[0], tuple) and l[0] and l[0][0] in ('eq', 'ne')
                    if ty_ is not None and seen_fail:
                        asserted_y.append(ty_)
                        holds = (l[1] != 0) == (l[0][0] == 'eq')
                        if not holds:
                            drop_path = True
                        continue
                    if is_eq_lab and ((l[1] != 0) != (l[0][0] == 'eq')):
                        seen_fail = True
                    keep.append(l)
                if drop_path and isinstance(r_, tuple) and r_ and r_[0] == 'diverges':
                    continue
                if len(keep) != len(p_.labels):
                    np_ = exp.Path()
                    np_.labels = keep
                    np_.events = list(p_.events)
                    p_ = np_
                res2.append((p_, r_, o_))
            res = res2
        returns = [(p_, r_) for p_, r_, _ in res if isinstance(r_, exp.Agg)]
        diverges = [(p_, r_) for p_, r_, _ in res if isinstance(r_, tuple) and r_ and r_[0] == 'diverges']
        rep.check(len(returns) == (2 if g == 'G1' else 8), 'GUARD', '%s:returning-paths' % g,
                  '%d returning paths (first / second candidate%s)' % (len(returns), '' if g == 'G1' else ' x 4 multipliers'),
                  '%d returning paths' % len(returns), where)
        first_mults = []
        second_mults = []
        cand_shape_ok = True
        for pth, ret in returns:
            X, Y, Zc = ret.items
            if not all(isinstance(v, Lin) for v in (X, Y, Zc)):
                rep.fail('EXP', '%s:coordinates-tracked' % g, 'a returned coordinate is not a monomial in the helper outputs: %r' % (ret,), where)
                continue
            Xs, Ys, Zs = subst(X, rel), subst(Y, rel), subst(Zc, rel)
            x_aff = Xs.add(Zs.scale(-2))
            y_aff = Ys.add(Zs.scale(-3))
            # candidate tests in either spelling: `a == b` taken, or `a != b` not taken
            labels_n = []
            for l in pth.labels:
                if isinstance(l[0], tuple) and l[0] and l[0][0] in ('eq', 'ne'):
                    equal = (l[1] != 0) == (l[0][0] == 'eq')
                    labels_n.append((('eq',) + tuple(l[0][1:]), 1 if equal else 0))
                else:
                    labels_n.append(l)
            eqs = [l for l in labels_n if isinstance(l[0], tuple) and l[0][0] == 'eq']
            true_eqs = [l for l in eqs if l[1] != 0]
            false_eqs = [l for l in eqs if l[1] == 0]
            g1_second = (g == 'G1' and not true_eqs and len(false_eqs) == 1)
            if not g1_second and (len(true_eqs) != 1 or labels_n.index(true_eqs[0]) != len(labels_n) - 1):
                rep.fail('GUARD', '%s:return-under-one-match' % g, 'a point is returned without its own candidate test succeeding (labels %r)' % ([(l[0][0], l[1]) for l in pth.labels],), where)
                continue
            lab = false_eqs[0][0] if g1_second else true_eqs[0][0]
            if not (isinstance(lab[1], Lin) and isinstance(lab[2], Lin)):
                rep.fail('EXP', '%s:candidate-test-tracked' % g, 'the candidate test compares %r with %r: not monomials in the helper outputs' % (lab[1], lab[2]), where, construct=path)
                continue
            lhs, rhs = subst(lab[1], rel), subst(lab[2], rel)
            rep.check(Zs == Lin({'x0_den': 1}), 'EXP', '%s:Z=x-denominator@%d' % (g, len(false_eqs)), 'Z is the x-denominator', 'Z is %r' % (Zc,), where)
            # sign fix: exactly one negate_if on the y place, argument sgn0(y_affine) ^ sgn0(t)
            negs = [e for e in pth.events if e[0] == 'negate_if']
            okneg = len(negs) == 1
            why = '%d conditional negations on the returning path' % len(negs)
            if okneg:
                _, yplace, sg, nwhere = negs[0]
                # decided by value in the sign algebra: the condition is  sgn0(a) ^ sgn0(b)  (no constant term) with a the
                # affine y (before scaling by the denominator, without its sign) and b the input t
                okneg = isinstance(sg, exp.SBit) and len(sg.atoms) == 2 and sg.c == 0
                why = 'the negation condition is %r, not sgn0(y) ^ sgn0(t)' % (sg,)
                if okneg:
                    infos = list(sg.atoms.values())
                    want_y = mod2(y_aff.add(Lin({'sign': -1})), set())
                    ts = [i_ for i_ in infos if isinstance(i_[3], Lin) and i_[3] == at('t')]
                    ys = [i_ for i_ in infos if isinstance(i_[3], Lin) and i_ not in ts and subst(i_[3], rel) == want_y]
                    okneg = len(ts) == 1 and len(ys) == 1
                    if not okneg:
                        others = [i_[3] if isinstance(i_[3], Lin) else 'an untracked value (%r)' % (i_[1],) for i_ in infos if i_ not in ts and i_ not in ys]
                        why = 'the negation condition is not sgn0(y) ^ sgn0(t): it takes sgn0 of %s (affine y without its sign is %r, the input is t)' % (', '.join(repr(o_) for o_ in others), want_y)
            rep.check(okneg, 'WIRE', '%s:sign-fix@%d' % (g, len(false_eqs)), 'y is negated iff sgn0(y_affine) != sgn0(t), exactly once', why, where, construct=path)
            y0 = y_aff.add(Lin({'sign': -1}))
            is_first = x_aff == Lin({'x0_num': 1, 'x0_den': -1})
            is_second = x_aff == Lin({'x0_num': 1, 'x0_den': -1, 't': 2, 'xi': 1})
            if is_first and g1_second:
                rep.fail('GUARD', 'G1:first-candidate-test', 'x0 is returned although its test failed', where, construct=path)
                continue
            if is_first:
                # path condition must be  y0^2 * v == u
                want_l = y0.scale(2).add(Lin({'x0_den': 3}))
                good = (lhs == want_l and rhs == Lin({'gx0_num': 1})) or (rhs == want_l and lhs == Lin({'gx0_num': 1}))
                rep.check(good, 'GUARD', '%s:first-candidate-test@%d' % (g, len(false_eqs)), 'x0 is returned under y^2 * gden == gnum',
                          'x0 is returned under the test %r == %r, which does not say y^2 = g(x0)' % (lab[1], lab[2]), lab[3], construct=path)
                mult = Lin({a: k for a, k in y0.t.items() if a.startswith('const:')})
                first_mults.append((len(false_eqs), mult))
                cand = y0.add(mult.neg())
            elif is_second:
                mult = Lin({a: k for a, k in y0.t.items() if a.startswith('const:')})
                second_mults.append((len(false_eqs), mult))
                cand = y0.add(mult.neg()).add(Lin({'t': -3}))
                for ay in asserted_y:
                    rep.check(ay == y0, 'GUARD', 'G1:asserted-relation', 'the asserted relation y^2 gden == xi^3 t^6 gnum speaks about the y that is returned',
                              'an assertion after the failed first test constrains %r, but %r is returned' % (ay, y0), where, construct=path)
                if g == 'G1':
                    # single test: x1 is returned when  cand^2 * gden == gnum  FAILS; then (shape) cand^2 gden = -gnum
                    want_l = cand.scale(2).add(Lin({'x0_den': 3}))
                    good = g1_second and ((lhs == want_l and rhs == Lin({'gx0_num': 1})) or (rhs == want_l and lhs == Lin({'gx0_num': 1})))
                    msg = 'x1 is returned exactly when the first-candidate test cand^2 * gden == gnum fails'
                else:
                    want_l = y0.scale(2).add(Lin({'x0_den': 3}))
                    want_r = Lin({'gx0_num': 1, 'xi': 3, 't': 6})
                    good = (not g1_second) and ((lhs == want_l and rhs == want_r) or (rhs == want_l and lhs == want_r))
                    msg = 'x1 = xi t^2 x0 is returned under y^2 * gden == xi^3 t^6 gnum'
                rep.check(good, 'GUARD', '%s:second-candidate-test@%d' % (g, len(false_eqs)), msg,
                          'x1 is returned under the test %r == %r (taken %s)' % (lab[1], lab[2], 'false' if g1_second else 'true'), lab[3], construct=path)
            else:
                rep.fail('EXP', '%s:x-candidate@%d' % (g, len(false_eqs)), 'returned x = %r is neither x0 = num/den nor x1 = xi t^2 x0' % (x_aff,), where, construct=path)
                continue
            a, b = cand.coeff('gx0_num'), cand.coeff('x0_den')
            extra = cand.atoms() - {'gx0_num', 'x0_den'}
            # b counts x0_den, v = x0_den^3
            shape = (not extra) and b % 3 == 0 and (2 * a - 1, 2 * (b // 3) + 1) == (shape_mul * shape_vec[0], shape_mul * shape_vec[1])
            if not shape:
                cand_shape_ok = False
                rep.fail('EXP', '%s:candidate-shape@%d' % (g, len(false_eqs)),
                         'candidate root is u^a v^b with (2a-1, 2b+1) = (%#x, %#x) [extra atoms %s]; expected %#x * %r so that cand^2 v/u is a root of unity'
                         % (2 * a - 1, 2 * (b // 3) + 1 if b % 3 == 0 else -1, sorted(extra), shape_mul, shape_vec), where, construct=path)
        if cand_shape_ok and returns:
            rep.ok('EXP', '%s:candidate-shape' % g, 'cand = u^a v^b with (2a-1, 2b+1) = %s * %r on all %d returning paths' %
                   ('(q-1)/2' if g == 'G1' else '(q^2-1)/8', shape_vec, len(returns)), where)
        # G1 special: the second candidate is returned on the *failure* of the only test
        if g == 'G1':
            for pth, ret in returns:
                pass
        check_tables(fx, rep, g, first_mults, second_mults, Z, where, path)
        # order: x0 before x1
        firsts = [k for k, _ in first_mults]
        seconds = [k for k, _ in second_mults]
        rep.check(all(k1 < k2 for k1 in firsts for k2 in seconds) and bool(firsts) and bool(seconds), 'GUARD', '%s:x0-before-x1' % g,
                  'the second candidate is only reached after every first-candidate trial failed', 'trial order is wrong: first %s second %s' % (firsts, seconds), where)
        # panic edges
        if g == 'G1':
            rep.check(not diverges, 'PANIC', 'G1:no-panic-edge', 'no diverging path', 'diverging paths: %r' % ([d[1] for d in diverges],), where)
        else:
            def failed_(l):
                # the candidate test of this trial failed (`==` not taken or `!=` taken)
                return isinstance(l[0], tuple) and l[0] and l[0][0] in ('eq', 'ne') and ((l[1] != 0) != (l[0][0] == 'eq'))
            ok = len(diverges) == 1 and all(failed_(l) for l in diverges[0][0].labels) and len(diverges[0][0].labels) == 8
            rep.check(ok, 'PANIC', 'G2:terminal-panic-only-after-all-trials', 'the only panic edge lies after all 4+4 trials failed; table completeness + candidate shape make that infeasible',
                      'panic edges: %r' % ([(len(d[0].labels), d[1]) for d in diverges],), where)


def merge_explicit_sign_fix(res):
    """`if y.sgn0() != t.sgn0() { y.negate() }` (in any spelling: the interpreter keeps sign bits in GF(2)-affine form) is
    the same sign fix as `y.negate_if(y.sgn0() ^ t.sgn0())`: two paths that differ only in the value of one sign bit and
    in the sign of the returned y are folded into one path carrying the 'negate_if' event (and the symbolic sign) that the
    combinator form produces, its condition being the bit under which y is negated."""
    def sign_label(l):
        x = l[0]
        return isinstance(x, tuple) and len(x) == 2 and x[0] == 'sbit' and isinstance(x[1], exp.SBit)
    groups = {}
    out = []
    for r in res:
        pth, ret, outs = r
        sl = [l for l in pth.labels if sign_label(l)]
        if len(sl) != 1 or not isinstance(ret, exp.Agg) or len(ret.items) != 3:
            out.append(r)
            continue
        key = repr([l for l in pth.labels if not sign_label(l)]) + repr(SBit_base(sl[0][0][1]))
        groups.setdefault(key, []).append((r, sl[0]))
    for key, members in groups.items():
        if len(members) != 2:
            out.extend(m[0] for m in members)
            continue

        def base_value(l):
            taken = 1 if l[1] != 0 else 0
            return taken ^ l[0][1].c
        a, b = members
        if base_value(a[1]) == base_value(b[1]):
            out.extend(m[0] for m in members)
            continue
        one, zero = (a, b) if base_value(a[1]) else (b, a)
        y1, y0 = one[0][1].items[1], zero[0][1].items[1]
        same_rest = one[0][1].items[0] == zero[0][1].items[0] and one[0][1].items[2] == zero[0][1].items[2]
        if not (isinstance(y1, Lin) and isinstance(y0, Lin) and same_rest):
            out.extend(m[0] for m in members)
            continue
        base = SBit_base(one[1][0][1])
        if y1 == y0.add(Lin({'-1': 1})):
            cond, pos = base, zero            # negated when the bit is 1
        elif y0 == y1.add(Lin({'-1': 1})):
            cond, pos = base.flip(), one      # negated when the bit is 0
        else:
            out.extend(m[0] for m in members)
            continue
        np_ = exp.Path()
        np_.labels = [l for l in pos[0][0].labels if not sign_label(l)]
        np_.events = list(pos[0][0].events) + [('negate_if', None, cond, None)]
        items = list(pos[0][1].items)
        items[1] = items[1].add(Lin.atom('sign'))
        out.append((np_, exp.Agg(items, pos[0][1].kind), pos[0][2]))
    return out


def SBit_base(b):
    return exp.SBit(b.atoms, 0)


def check_tables(fx, rep, g, first_mults, second_mults, Z, where, path):
    xi = Z
    if g == 'G1':
        # first: no multiplier; second: sqrt(-xi^3)
        ok1 = len(first_mults) == 1 and not first_mults[0][1].t
        rep.check(ok1, 'CONST', 'G1:first-multiplier', 'first candidate is the bare chain output', 'first candidate multipliers: %r' % (first_mults,), where)
        ok2 = len(second_mults) == 1 and len(second_mults[0][1].t) == 1 and list(second_mults[0][1].t.values()) == [1]
        val = None
        if ok2:
            nm = list(second_mults[0][1].t)[0]
            val = C.dec_field_any(exp.CONST_ATOMS[nm])
            ok2 = val * val == -(xi * xi * xi)
        rep.check(ok2, 'CONST', 'G1:sqrt(-xi^3)', 'second candidate is scaled by c with c^2 = -xi^3', 'second-candidate constant %r does not square to -xi^3' % (val,), where, construct=path)
        return
    one = M.F2(1, 0)
    i_ = M.F2(0, 1)

    def vals(mults):
        out = []
        for k, m in sorted(mults):
            if len(m.t) != 1 or list(m.t.values()) != [1]:
                return None
            out.append(C.dec_field_any(exp.CONST_ATOMS[list(m.t)[0]]))
        return out
    r = vals(first_mults)
    fourth = {one, -one, i_, -i_}
    okr = r is not None and len(r) == 4 and set(x * x for x in r) == fourth
    rep.check(okr, 'CONST', 'G2:roots-of-unity-complete', 'the 4 first-candidate multipliers square to {1,-1,i,-i}: every 4th root of unity cand^2 v/u is cancelled by one of them',
              'first-candidate multipliers do not cover all four 4th roots of unity (some squares missing/duplicated)', where, construct=path)
    e = vals(second_mults)
    xi3 = xi * xi * xi
    oke = e is not None and len(e) == 4
    if oke:
        ratios = [x * x * xi3.inv() for x in e]
        oke = len(set(ratios)) == 4 and all((w ** 4) == -one for w in ratios)
    rep.check(oke, 'CONST', 'G2:etas-complete', 'the 4 second-candidate multipliers eta satisfy {eta^2/xi^3} = the four primitive 8th roots of unity',
              'second-candidate multipliers (ETAS) are not complete: eta^2/xi^3 must run over all four primitive 8th roots of unity', where, construct=path)


def main(tier, t0):
    return common.standard_main(
        PROP, tier, t0, rules, 'other',
        'EXP abstract interpretation of the shared SSWU helper, the two addition chains and both osswu_map bodies (all 2 + 9 paths), plus arithmetic '
        'on the extracted constants: Z, A\', B\' are the RFC values in position; chains raise to (q-3)/4 and (q^2-9)/16; the candidate root is u^a v^b with '
        'cand^2 v/u a 2nd / 8th root of unity; the G2 multiplier tables are complete for the 4th roots / primitive 8th roots, so a trial always matches '
        '(terminal panic infeasible); each returned affine point is x0 or x1 = xi t^2 x0 under a path condition that says y^2 = g(x); x0 is tried first; '
        'y is negated iff sgn0(y_affine) != sgn0(t) (decided in a GF(2) sign algebra, whatever the spelling); the helper\'s rational functions '
        'x0 = B(1+s)/(-A s) with s = xi^2 t^4 + xi t^2 (path for s = 0: B/(A xi), modulo s), g(x0) = (N^3 + A N D^2 + B D^3)/D^3 and its branch (a zero test of s up to a unit) '
        'are decided as polynomial identities in Z_q[t, xi, A, B].',
        ['rustc MIR + const evaluation', 'Fq/Fq2 operations meet their contracts; sgn0/negate_if contracts (C18)', 'Euler criterion / structure of roots of unity in Fq2'],
        ['exponent-vector reasoning for the maps (sums opaque there); the helper in a bounded polynomial ring'])


# ---------------------------------------------------------------- the helper's polynomials (polynomial-ring domain)
def rule_helper_polys(fx, rep):
    """The shared helper, decided in the polynomial ring Z_q[t, xi, A, B] (bounded degree; assume-guarantee on the field
    operations): with s = xi^2 t^4 + xi t^2 it returns the monomials t^2, xi t^2, xi^2 t^4 and, on the path taken for
    s != 0, x0 = N/D with N/D = B(1 + s)/(-A s); on the path taken for s = 0, x0 = B/(A xi); on both paths
    g(x0) = gN/gD with gD = D^3 and gN = N^3 + A N D^2 + B D^3.  Identities are cross-multiplied, those of the exceptional
    path hold modulo s; the branch must be a zero test of s up to a unit (a signed monomial in the non-zero constants)."""
    import polyring as PR
    import inline as INL
    import tt
    from props import c01gen as G
    Poly = PR.Poly
    sswu = C.check_sswu_consts(fx, core_report_sink())
    helper = roles.roles(fx).get('sswu_helper')
    paths = set()
    for g_, v in sswu.items():
        paths.add(callee(v[3]).get('res') or callee(v[3])['def'])
    if len(paths) == 1:
        helper = paths.pop()
    if fx.body(helper) is None:
        rep.fail('POLY', 'helper:anchor', 'SSWU helper not found')
        return
    where = fx.fn(helper)['span']
    t, xi, A, B = Poly.atom('t'), Poly.atom('xi'), Poly.atom('A'), Poly.atom('B')
    I = exp.Interp(fx, 'none', extra_transfer=G.transfer, max_paths=16, inline=lambda q: INL.is_private_helper(fx, q))
    I.fork_inlined = True
    try:
        res = I.run(helper, [('byref', t), ('byref', xi), ('byref', A), ('byref', B)])
    except (exp.NotDerivable, exp.Budget) as e:
        rep.fail('POLY', 'helper:derivable', 'not derivable: %s' % e, where, construct=helper)
        return
    rep.sites(I.call_sites)
    t2 = t.mul(t)
    s_ = xi.mul(xi).mul(t2).mul(t2).add(xi.mul(t2))
    LEAD = ('t', 't', 't', 't', 'xi', 'xi')

    def reduce_mod_s(p):
        # remainder of p on division by s (leading monomial xi^2 t^4, which s contains with coefficient 1)
        for _ in range(400):
            hit = None
            for k in p.t:
                if k.count('xi') >= 2 and k.count('t') >= 4:
                    hit = k
                    break
            if hit is None:
                return p
            rest = list(hit)
            for a_ in LEAD:
                rest.remove(a_)
            p = p.add(Poly({tuple(sorted(rest)): p.t[hit]}).mul(s_), -1)
        return p

    def unit_multiple_of_s(p):
        # p = c * m * s with c a non-zero integer constant and m a monomial in A, B, xi
        if p.is_zero():
            return False
        for m_atoms in ((), ('A',), ('B',), ('xi',), ('A', 'xi'), ('A', 'B'), ('B', 'xi'), ('A', 'A'), ('A', 'B', 'xi')):
            m = Poly({tuple(sorted(m_atoms)): 1})
            ms = m.mul(s_)
            k0 = sorted(ms.t)[0]
            if k0 in p.t:
                c_ = p.t[k0] * pow(ms.t[k0], -1, PR.Q) % PR.Q
                if c_ and p == ms.scale(c_):
                    return True
        return False

    def is_unit(p):
        return len(p.t) == 1 and all(a_ in ('A', 'B', 'xi') for a_ in list(p.t)[0]) and list(p.t.values())[0] % PR.Q != 0
    bad = []
    kinds = set()
    for pth, ret, _ in res:
        if isinstance(ret, tuple) and ret and ret[0] == 'diverges':
            bad.append('a path panics')
            continue
        if not (isinstance(ret, exp.Agg) and len(ret.items) == 7 and all(isinstance(x, Poly) for x in ret.items)):
            bad.append('the helper does not return seven polynomial values (%r)' % (ret,))
            continue
        usq, xi_usq, xi2_u4, N, D, gN, gD = ret.items
        exceptional = None
        for lab, taken in pth.labels:
            x, neg = tt.strip_not(lab)
            truth = (taken != 0) != neg
            if isinstance(x, tuple) and x and x[0] in ('pzero', 'peq') and unit_multiple_of_s(x[1]):
                if exceptional is not None and exceptional != truth:
                    exceptional = 'contradiction'
                else:
                    exceptional = truth
            else:
                bad.append('branches on %r, which is not a zero test of xi^2 t^4 + xi t^2 (up to a non-zero factor)' % (x,))
        if exceptional == 'contradiction':
            continue            # infeasible
        if exceptional is None:
            bad.append('a path does not decide whether xi^2 t^4 + xi t^2 vanishes')
            continue
        kinds.add(exceptional)
        name = 'exceptional' if exceptional else 'generic'
        red = reduce_mod_s if exceptional else (lambda p_: p_)
        if not (usq == t2 and xi_usq == xi.mul(t2) and xi2_u4 == xi.mul(xi).mul(t2).mul(t2)):
            bad.append('%s path: the monomial outputs are not t^2, xi t^2, xi^2 t^4' % name)
        if exceptional:
            if not is_unit(reduce_mod_s(D)):
                bad.append('exceptional path: the x-denominator %r is not a non-zero constant' % (D,))
            if not red(N.mul(A).mul(xi).add(B.mul(D), -1)).is_zero():
                bad.append('exceptional path: x0 = N/D is not B/(A xi)')
        else:
            if not unit_multiple_of_s(D):
                bad.append('generic path: the x-denominator %r is not a non-zero multiple of xi^2 t^4 + xi t^2' % (D,))
            if not N.mul(A.mul(s_).neg()).add(B.mul(s_.add(PR.ONE)).mul(D), -1).is_zero():
                bad.append('generic path: x0 = N/D is not B(1 + s)/(-A s)')
        if not red(gD.add(D.mul(D).mul(D), -1)).is_zero():
            bad.append('%s path: the g-denominator is not the cube of the x-denominator' % name)
        want = N.mul(N).mul(N).add(A.mul(N).mul(D).mul(D)).add(B.mul(D).mul(D).mul(D))
        if not red(gN.add(want, -1)).is_zero():
            bad.append('%s path: the g-numerator is not N^3 + A N D^2 + B D^3' % name)
    if not bad and kinds != {True, False}:
        bad.append('paths found for s = 0: %s, for s != 0: %s' % (True in kinds, False in kinds))
    rep.check(not bad, 'POLY', 'helper:rational-functions',
              'x0 = B(1+s)/(-A s) with s = xi^2 t^4 + xi t^2 (path for s = 0: B/(A xi)); g(x0) = (N^3 + A N D^2 + B D^3)/D^3 on both paths; the branch is a zero test of s up to a unit -- polynomial identities (exceptional path: modulo s)',
              '; '.join(bad[:3])[:700], where, construct=helper)


class _Sink:
    """Report stand-in for helper calls whose obligations are recorded elsewhere."""
    def __getattr__(self, k):
        return lambda *a, **kw: True


def core_report_sink():
    return _Sink()


_rules15 = rules


def rules(fx, rep):
    _rules15(fx, rep)
    rule_helper_polys(fx, rep)
    # "sgn0(y) = sgn0(t)" is RFC 9380's statement only if sgn0 is RFC 9380's sgn0
    from props import c18
    c18.rule_sgn0(fx, rep)

"""Shared driver for property modules: configurations, controls, finishing."""
import json
import os
import shutil
import subprocess
import sys
import tempfile
import time

import core
from facts import Facts

_cache = {}


def load(profile='dev', repo=None):
    key = (profile, repo)
    if key not in _cache:
        d = core.build_facts(profile, repo=repo)
        _cache[key] = Facts(os.path.join(d, 'pairing_plus.json'))
    return _cache[key]


def configs(tier):
    """(name, Facts) for every analysed build configuration of the tier."""
    out = [('dev', load('dev'))]
    if tier == 'thorough':
        out.append(('release', load('release')))
    return out


class CfgReport:
    """Report view that prefixes instances with the configuration name (dev is the
    reference configuration and carries no prefix so that keys stay stable)."""

    def __init__(self, rep, cfg):
        self._rep = rep
        self._cfg = cfg

    def _inst(self, instance):
        return instance if self._cfg == 'dev' else '%s[%s]' % (instance, self._cfg)

    def ok(self, rule, instance, detail='', where=None):
        self._rep.ok(rule, self._inst(instance), detail, where)

    def fail(self, rule, instance, detail, where=None, construct=None):
        self._rep.fail(rule, self._inst(instance), detail, where, construct)

    def check(self, cond, rule, instance, detail_ok='', detail_fail='', where=None, construct=None):
        return self._rep.check(cond, rule, self._inst(instance), detail_ok, detail_fail, where, construct)

    def floor(self, rule, what, count, minimum):
        self._rep.floor(rule, self._inst(what), count, minimum)

    def __getattr__(self, k):
        return getattr(self._rep, k)


def run_rules(prop, tier, rules):
    """rules(fx, rep) is evaluated once per configuration."""
    rep = core.Report(prop)
    for name, fx in configs(tier):
        rules(fx, CfgReport(rep, name))
    return rep


# ---------------------------------------------------------------- positive controls
def control_files(prop):
    out = []
    base = os.path.join(core.VERIF, 'controls', prop)
    if os.path.isdir(base):
        for f in sorted(os.listdir(base)):
            if f.endswith('.diff'):
                out.append(os.path.join(base, f))
    sbase = os.path.join(core.VERIF, 'seeded')
    if os.path.isdir(sbase):
        for d in sorted(os.listdir(sbase)):
            mp = os.path.join(sbase, d, 'meta.json')
            pp = os.path.join(sbase, d, 'patch.diff')
            if os.path.exists(mp) and os.path.exists(pp):
                try:
                    with open(mp) as f:
                        meta = json.load(f)
                except ValueError:
                    continue
                props = meta.get('detected_by') or []
                if prop in props:
                    out.append(pp)
    return out


def run_controls(prop, rules, rep):
    """Apply every seeded mutant registered for `prop` to a scratch copy of the *current*
    /repo tree, rebuild the facts there and require that the rules fire.  A control whose
    hunk no longer applies is reported as skipped (never as passed)."""
    results = []
    for cf in control_files(prop):
        name = os.path.relpath(cf, core.VERIF)
        tmp = tempfile.mkdtemp(prefix='ppctl.')
        try:
            dst = os.path.join(tmp, 'repo')
            shutil.copytree(core.REPO, dst, ignore=shutil.ignore_patterns('target', '.git'))
            r = subprocess.run(['patch', '-p1', '--no-backup-if-mismatch', '-i', cf], cwd=dst,
                               stdout=subprocess.PIPE, stderr=subprocess.STDOUT, text=True)
            if r.returncode != 0:
                results.append({'control': name, 'status': 'skipped', 'why': 'patch does not apply to the current tree'})
                rep.notes.append('control %s skipped: does not apply' % name)
                continue
            try:
                d = core.build_facts('dev', repo=dst, use_cache=False)
            except core.Infra as e:
                results.append({'control': name, 'status': 'skipped', 'why': 'mutant does not compile: %s' % str(e)[-300:]})
                continue
            fx = Facts(os.path.join(d, 'pairing_plus.json'))
            shutil.rmtree(d, ignore_errors=True)
            sub = core.Report(prop)
            try:
                rules(fx, CfgReport(sub, 'dev'))
                fired = [o for o in sub.violations()]
            except Exception as e:   # a crash of the analysis on a mutant counts as "fail closed"
                fired = [{'rule': 'internal', 'instance': 'exception', 'detail': repr(e)}]
            if fired:
                results.append({'control': name, 'status': 'detected',
                                'by': sorted(set('%s|%s' % (o['rule'], o['instance']) for o in fired))[:6]})
                rep.ok('CONTROL', name, 'seeded mutant detected by %s' % ', '.join(sorted(set(o['rule'] for o in fired))))
            else:
                results.append({'control': name, 'status': 'MISSED'})
                rep.fail('CONTROL', name, 'a seeded property-breaking mutant is not detected any more: the rule has gone vacuous')
        finally:
            shutil.rmtree(tmp, ignore_errors=True)
    return results


def benign_files(prop):
    """Behaviour-preserving edits (controls/benign) that touch a file anchored by `prop`."""
    anchors = set()
    try:
        with open(os.path.join(core.VERIF, 'properties.jsonl')) as f:
            for line in f:
                rec = json.loads(line)
                if rec['id'] == prop:
                    anchors = set(rec['anchors']['files'])
    except OSError:
        return []
    out = []
    cands = []
    for sub in ('benign', 'benign_agents'):
        base = os.path.join(core.VERIF, 'controls', sub)
        if os.path.isdir(base):
            cands += [os.path.join(base, fn) for fn in sorted(os.listdir(base)) if fn.endswith('.diff')]
    for cf_ in cands:
        base, fn = os.path.split(cf_)
        touched = set()
        with open(os.path.join(base, fn)) as f:
            for line in f:
                if line.startswith('+++ '):
                    pth = line[4:].strip().split('\t')[0]
                    touched.add(pth[2:] if pth.startswith(('a/', 'b/')) else pth)
        if touched & anchors:
            out.append(os.path.join(base, fn))
    return out


def run_benign(prop, rules, rep):
    """The rules must stay silent on every behaviour-preserving edit of the property's files."""
    results = []
    for cf in benign_files(prop):
        name = os.path.relpath(cf, core.VERIF)
        tmp = tempfile.mkdtemp(prefix='ppben.')
        try:
            dst = os.path.join(tmp, 'repo')
            shutil.copytree(core.REPO, dst, ignore=shutil.ignore_patterns('target', '.git'))
            r = subprocess.run(['patch', '-p1', '--no-backup-if-mismatch', '-i', cf], cwd=dst, stdout=subprocess.PIPE, stderr=subprocess.STDOUT, text=True)
            if r.returncode != 0:
                results.append({'benign': name, 'status': 'skipped', 'why': 'patch does not apply to the current tree'})
                continue
            try:
                d = core.build_facts('dev', repo=dst, use_cache=False)
            except core.Infra:
                results.append({'benign': name, 'status': 'skipped', 'why': 'does not compile on the current tree'})
                continue
            fx = Facts(os.path.join(d, 'pairing_plus.json'))
            shutil.rmtree(d, ignore_errors=True)
            sub = core.Report(prop)
            try:
                rules(fx, CfgReport(sub, 'dev'))
                fired = sub.violations()
            except Exception as e:
                fired = [{'rule': 'internal', 'instance': 'exception', 'detail': repr(e)}]
            if fired:
                results.append({'benign': name, 'status': 'FALSE-ALARM', 'by': ['%s|%s' % (o['rule'], o['instance']) for o in fired][:4]})
                rep.fail('BENIGN', name, 'the rules fire on a behaviour-preserving edit: %s' % [o['detail'][:120] for o in fired][:2])
            else:
                results.append({'benign': name, 'status': 'silent'})
                rep.ok('BENIGN', name, 'rules stay silent on this behaviour-preserving edit')
        finally:
            shutil.rmtree(tmp, ignore_errors=True)
    return results


def standard_main(prop, tier, t0, rules, level, explanation, trusted_base, assumptions, extra=None):
    rep = run_rules(prop, tier, rules)
    ex = dict(extra or {})
    ex['configurations'] = [c for c, _ in configs(tier)]
    if tier == 'thorough':
        ex['controls'] = run_controls(prop, rules, rep)
        ex['benign_edits'] = run_benign(prop, rules, rep)
    return core.finish(rep, tier, level, t0, explanation, trusted_base, assumptions, extra=ex)

"""Shared driver for property modules: configurations, controls, finishing."""
import json
import os
import shutil
import subprocess
import sys
import tempfile
import time

import core
from facts import Facts

_cache = {}


def load(profile='dev', repo=None):
    key = (profile, repo)
    if key not in _cache:
        d = core.build_facts(profile, repo=repo)
        _cache[key] = Facts(os.path.join(d, 'pairing_plus.json'))
    return _cache[key]


def configs(tier):
    """(name, Facts) for every analysed build configuration of the tier."""
    out = [('dev', load('dev'))]
    if tier == 'thorough':
        out.append(('release', load('release')))
    return out


class CfgReport:
    """Report view that prefixes instances with the configuration name (dev is the
    reference configuration and carries no prefix so that keys stay stable)."""

    def __init__(self, rep, cfg):
        self._rep = rep
        self._cfg = cfg

    def _inst(self, instance):
        return instance if self._cfg == 'dev' else '%s[%s]' % (instance, self._cfg)

    def ok(self, rule, instance, detail='', where=None):
        self._rep.ok(rule, self._inst(instance), detail, where)

    def fail(self, rule, instance, detail, where=None, construct=None):
        self._rep.fail(rule, self._inst(instance), detail, where, construct)

    def check(self, cond, rule, instance, detail_ok='', detail_fail='', where=None, construct=None):
        return self._rep.check(cond, rule, self._inst(instance), detail_ok, detail_fail, where, construct)

    def floor(self, rule, what, count, minimum):
        self._rep.floor(rule, self._inst(what), count, minimum)

    def __getattr__(self, k):
        return getattr(self._rep, k)


def run_rules(prop, tier, rules):
    """rules(fx, rep) is evaluated once per configuration."""
    rep = core.Report(prop)
    for name, fx in configs(tier):
        crep = CfgReport(rep, name)
        try:
            rules(fx, crep)
        except core.Infra:
            raise
        except (exp_mod().NotDerivable, exp_mod().Budget) as e:
            crep.fail('INTERNAL', 'rules-not-derivable', 'a rule could not be evaluated on this tree: %s' % e)
        except Exception as e:       # fail closed: code the rules cannot digest is reported, not waved through
            import traceback
            tb = traceback.extract_tb(e.__traceback__)
            loc = '%s:%d' % (os.path.basename(tb[-1].filename), tb[-1].lineno) if tb else '?'
            crep.fail('INTERNAL', 'rules-raised', 'a rule could not be evaluated on this tree (%s: %s at %s): the code has a shape the rule does not handle' % (type(e).__name__, e, loc))
    return rep


def exp_mod():
    import exp
    return exp


# ---------------------------------------------------------------- positive controls
def control_files(prop):
    out = []
    base = os.path.join(core.VERIF, 'controls', prop)
    if os.path.isdir(base):
        for f in sorted(os.listdir(base)):
            if f.endswith('.diff'):
                out.append(os.path.join(base, f))
    sbase = os.path.join(core.VERIF, 'seeded')
    if os.path.isdir(sbase):
        for d in sorted(os.listdir(sbase)):
            mp = os.path.join(sbase, d, 'meta.json')
            pp = os.path.join(sbase, d, 'patch.diff')
            if os.path.exists(mp) and os.path.exists(pp):
                try:
                    with open(mp) as f:
                        meta = json.load(f)
                except ValueError:
                    continue
                props = meta.get('detected_by') or []
                if prop in props:
                    out.append(pp)
    return out


def _on_patched_copy(prop, rules, cf, prefix):
    """Apply patch `cf` to a scratch copy of the current /repo tree, rebuild the facts and run the rules there.
    -> ('skipped', why) | ('ran', [violations])."""
    tmp = tempfile.mkdtemp(prefix=prefix)
    try:
        dst = os.path.join(tmp, 'repo')
        shutil.copytree(core.REPO, dst, ignore=shutil.ignore_patterns('target', '.git'))
        r = subprocess.run(['patch', '-p1', '--no-backup-if-mismatch', '-i', cf], cwd=dst,
                           stdout=subprocess.PIPE, stderr=subprocess.STDOUT, text=True)
        if r.returncode != 0:
            return ('skipped', 'patch does not apply to the current tree')
        try:
            d = core.build_facts('dev', repo=dst, use_cache=False)
        except core.Infra as e:
            return ('skipped', 'does not compile on the current tree: %s' % str(e)[-300:])
        fx = Facts(os.path.join(d, 'pairing_plus.json'))
        shutil.rmtree(d, ignore_errors=True)
        sub = core.Report(prop)
        try:
            rules(fx, CfgReport(sub, 'dev'))
            fired = [o for o in sub.violations()]
        except Exception as e:   # a crash of the analysis counts as a report ("fail closed")
            fired = [{'rule': 'internal', 'instance': 'exception', 'detail': repr(e)}]
        return ('ran', fired)
    finally:
        shutil.rmtree(tmp, ignore_errors=True)


def _worker(job):
    prop, mod, qual, cf, prefix = job
    import importlib
    f = importlib.import_module(mod)
    for part in qual.split('.'):
        f = getattr(f, part)
    return _on_patched_copy(prop, f, cf, prefix)


def _map_patches(prop, rules, files, prefix):
    """Patched-copy runs, a few at a time, each in its own process (the analysis keeps per-run global tables)."""
    files = list(files)
    workers = max(1, int(os.environ.get('VERIF_JOBS', '6')))
    mod, qual = getattr(rules, '__module__', None), getattr(rules, '__qualname__', '')
    if workers == 1 or len(files) < 2 or not mod or '<' in qual:
        return [(cf, _on_patched_copy(prop, rules, cf, prefix)) for cf in files]
    import multiprocessing
    from concurrent.futures import ProcessPoolExecutor
    try:
        with ProcessPoolExecutor(max_workers=workers, mp_context=multiprocessing.get_context('fork')) as ex:
            out = list(ex.map(_worker, [(prop, mod, qual, cf, prefix) for cf in files]))
        return list(zip(files, out))
    except Exception:
        return [(cf, _on_patched_copy(prop, rules, cf, prefix)) for cf in files]


def run_controls(prop, rules, rep):
    """Apply every seeded mutant registered for `prop` to a scratch copy of the *current*
    /repo tree, rebuild the facts there and require that the rules fire.  A control whose
    hunk no longer applies is reported as skipped (never as passed)."""
    results = []
    for cf, (st, info) in _map_patches(prop, rules, control_files(prop), 'ppctl.'):
        name = os.path.relpath(cf, core.VERIF)
        if st == 'skipped':
            results.append({'control': name, 'status': 'skipped', 'why': info})
            rep.notes.append('control %s skipped: %s' % (name, info[:60]))
        elif info:
            results.append({'control': name, 'status': 'detected',
                            'by': sorted(set('%s|%s' % (o['rule'], o['instance']) for o in info))[:6]})
            rep.ok('CONTROL', name, 'seeded mutant detected by %s' % ', '.join(sorted(set(o['rule'] for o in info))))
        else:
            results.append({'control': name, 'status': 'MISSED'})
            rep.fail('CONTROL', name, 'a seeded property-breaking mutant is not detected any more: the rule has gone vacuous')
    return results


def benign_files(prop):
    """Behaviour-preserving edits (controls/benign) that touch a file anchored by `prop`."""
    anchors = set()
    try:
        with open(os.path.join(core.VERIF, 'properties.jsonl')) as f:
            for line in f:
                rec = json.loads(line)
                if rec['id'] == prop:
                    anchors = set(rec['anchors']['files'])
    except OSError:
        return []
    out = []
    cands = []
    for sub in ('benign', 'benign_agents', 'benign_twins'):
        base = os.path.join(core.VERIF, 'controls', sub)
        if os.path.isdir(base):
            cands += [os.path.join(base, fn) for fn in sorted(os.listdir(base)) if fn.endswith('.diff')]
    for cf_ in cands:
        base, fn = os.path.split(cf_)
        touched = set()
        with open(os.path.join(base, fn)) as f:
            for line in f:
                if line.startswith('+++ '):
                    pth = line[4:].strip().split('\t')[0]
                    touched.add(pth[2:] if pth.startswith(('a/', 'b/')) else pth)
        if touched & anchors:
            out.append(os.path.join(base, fn))
    return out


def run_benign(prop, rules, rep):
    """The rules must stay silent on behaviour-preserving edits of the property's files.  The thorough tier runs a
    deterministic sample (at most VERIF_BENIGN_MAX, default 24: all of controls/benign that touch the property's files
    first, then an even spread over the agents' rounds); the complete set is run by tools/run_benign_par.sh."""
    results = []
    files = benign_files(prop)
    cap = max(1, int(os.environ.get('VERIF_BENIGN_MAX', '24')))
    if len(files) > cap:
        mine = [f for f in files if os.sep + 'benign' + os.sep in f]
        theirs = [f for f in files if f not in mine]
        keep = mine[:cap]
        room = cap - len(keep)
        if room > 0 and theirs:
            step = len(theirs) / float(room)
            keep += [theirs[int(k * step)] for k in range(room)]
        skipped_n = len(files) - len(keep)
        files = keep
        rep.notes.append('%d further behaviour-preserving edits not run in this tier (tools/run_benign_par.sh runs all)' % skipped_n)
    for cf, (st, info) in _map_patches(prop, rules, files, 'ppben.'):
        name = os.path.relpath(cf, core.VERIF)
        if st == 'skipped':
            results.append({'benign': name, 'status': 'skipped', 'why': info})
        elif info:
            results.append({'benign': name, 'status': 'FALSE-ALARM', 'by': ['%s|%s' % (o['rule'], o['instance']) for o in info][:4]})
            rep.fail('BENIGN', name, 'the rules fire on a behaviour-preserving edit: %s' % [o['detail'][:120] for o in info][:2])
        else:
            results.append({'benign': name, 'status': 'silent'})
            rep.ok('BENIGN', name, 'rules stay silent on this behaviour-preserving edit')
    return results


def standard_main(prop, tier, t0, rules, level, explanation, trusted_base, assumptions, extra=None):
    rep = run_rules(prop, tier, rules)
    ex = dict(extra or {})
    ex['configurations'] = [c for c, _ in configs(tier)]
    if tier == 'thorough':
        ex['controls'] = run_controls(prop, rules, rep)
        ex['benign_edits'] = run_benign(prop, rules, rep)
    return core.finish(rep, tier, level, t0, explanation, trusted_base, assumptions, extra=ex)

"""C01 -- group law: exceptional-case skeleton of the curve operations.

For every operation the complete set of paths is enumerated with the coordinates as
symbolic monomials (EXP domain; sums are opaque).  Decided exactly: which predicate
selects each exceptional branch (identity tests on Z / the infinity flag, the
representation-independent equality tests X1 Z2^2 == X2 Z1^2 and Y1 Z2^3 == Y2 Z1^3)
and what each exceptional branch returns (copy of the other operand, unchanged,
doubling, identity, normalised coordinates X/Z^2, Y/Z^3).  The general-position
formulas (dbl-2009-l, add-2007-bl, madd-2007-bl) are NOT decided."""
import exp
from exp import Agg, Int, Lin, Opt, TOP
from facts import callee
from props import common
from props.c04 import lab_name
from wire import Origin, strip, term_str

PROP = 'C01'
GROUPS = [('G1', 'bls12_381::ec::g1::G1', 'bls12_381::ec::g1::G1Affine'), ('G2', 'bls12_381::ec::g2::G2', 'bls12_381::ec::g2::G2Affine')]
at = Lin.atom


def mk_interp(fx, proj, aff, extra=None):
    def inline(p):
        return p in inl
    inl = set()
    for tr, ty in (('CurveProjective', proj), ('CurveAffine', aff)):
        for m in ('is_zero', 'is_normalized'):
            q = fx.impl_method(tr, ty, m)
            if q:
                inl.add(q)

    def tr_(I, fr, t, c, pth):
        nm = c.get('name')
        if c.get('trait') == 'CurveProjective' and nm == 'double':
            v = fr.deref_operand(t['args'][0])
            fr.store_through(t['args'][0], ('doubled', v))
            return True
        if c.get('trait') == 'CurveProjective' and nm in ('add_assign', 'add_assign_mixed'):
            a = fr.deref_operand(t['args'][0])
            b = fr.deref_operand(t['args'][1])
            fr.store_through(t['args'][0], (nm, a, b))
            return True
        if c.get('trait') in ('CurveProjective', 'CurveAffine') and nm == 'negate':
            v = fr.deref_operand(t['args'][0])
            fr.store_through(t['args'][0], ('neg', v))
            return True
        if c.get('trait') in ('CurveProjective', 'CurveAffine') and nm == 'zero':
            fr.storev(t['dest'], ('identity', c.get('self_ty')))
            return True
        if nm == 'unwrap' and c['def'].startswith('std::option::Option'):
            v = fr.operand(t['args'][0])
            if isinstance(v, Opt):
                pth.events.append(('unwrap', v.label, t['span']))
                fr.storev(t['dest'], v.payload)
                return True
        if extra and extra(I, fr, t, c, pth):
            return True
        return False
    return exp.Interp(fx, 'mul', inline=inline, extra_transfer=tr_)


def descr(labs):
    out = []
    for nm, tk, x in labs:
        if nm == 'is_zero':
            out.append(('is_zero', x[1], tk))
        elif nm in ('eq', 'ne'):
            equal = tk if nm == 'eq' else not tk
            out.append(('eq', x[1], x[2], equal))
        elif nm == 'infinity':
            out.append(('infinity', tk))
        else:
            out.append((nm, tk))
    return out


def same_pair(a, b, x, y):
    return (a == x and b == y) or (a == y and b == x)


def rule_projective_ops(fx, rep):
    n = 0
    for g, proj, aff in GROUPS:
        X1, Y1, Z1 = at('X1'), at('Y1'), at('Z1')
        X2, Y2, Z2 = at('X2'), at('Y2'), at('Z2')
        P1 = Agg([X1, Y1, Z1])
        P2 = Agg([X2, Y2, Z2])
        A2 = Agg([at('x2'), at('y2'), ('bool', ('infinity',))])
        u1 = Lin({'X1': 1, 'Z2': 2})
        u2 = Lin({'X2': 1, 'Z1': 2})
        s1 = Lin({'Y1': 1, 'Z2': 3})
        s2 = Lin({'Y2': 1, 'Z1': 3})
        # ---------------------------------------------------- double
        p = fx.impl_method('CurveProjective', proj, 'double')
        if p and fx.body(p):
            rep.fn(p)
            n += 1
            I = mk_interp(fx, proj, aff)
            res = I.run(p, [('byref', P1)])
            rep.sites(I.call_sites)
            ok = len(res) == 2
            why = '%d paths' % len(res)
            for pth, ret, outs in res:
                d = descr([lab_name(l) for l in pth.labels])
                if d == [('is_zero', Z1, True)]:
                    if not (isinstance(outs.get(1), Agg) and outs[1].items == [X1, Y1, Z1]):
                        ok, why = False, 'doubling the identity changes it: %r' % (outs.get(1),)
                elif d == [('is_zero', Z1, False)]:
                    o = outs.get(1)
                    if not (isinstance(o, Agg) and isinstance(o.items[2], Lin) and o.items[2] == Lin({'Z1': 1, 'Y1': 1, '2': 1})):
                        ok, why = False, 'Z3 is %r, expected 2*Y1*Z1' % (o.items[2] if isinstance(o, Agg) else o,)
                else:
                    ok, why = False, 'unexpected branch %r' % (d,)
            rep.check(ok, 'GUARD', '%s:double:skeleton' % g, 'identity (Z = 0) is returned unchanged; otherwise Z3 = 2*Y1*Z1', why, fx.fn(p)['span'], construct=p)
        else:
            rep.fail('GUARD', '%s:double:anchor' % g, 'not found')
        # ---------------------------------------------------- add_assign
        p = fx.impl_method('CurveProjective', proj, 'add_assign')
        if p and fx.body(p):
            rep.fn(p)
            n += 1
            I = mk_interp(fx, proj, aff)
            res = I.run(p, [('byref', P1), ('byref', P2)])
            rep.sites(I.call_sites)
            kinds = {}
            bad = []
            for pth, ret, outs in res:
                d = descr([lab_name(l) for l in pth.labels])
                o = outs.get(1)
                if d == [('is_zero', Z1, True)]:
                    kinds['self=O'] = isinstance(o, Agg) and o.items == [X2, Y2, Z2]
                    if not kinds['self=O']:
                        bad.append('O + Q returns %r, expected Q' % (o,))
                elif d == [('is_zero', Z1, False), ('is_zero', Z2, True)]:
                    kinds['other=O'] = isinstance(o, Agg) and o.items == [X1, Y1, Z1]
                    if not kinds['other=O']:
                        bad.append('P + O returns %r, expected P' % (o,))
                elif len(d) >= 3 and d[:2] == [('is_zero', Z1, False), ('is_zero', Z2, False)]:
                    rest = d[2:]
                    eqs = [x for x in rest if x[0] == 'eq']
                    if len(eqs) != len(rest) or not eqs:
                        bad.append('unexpected branch %r' % (rest,))
                        continue
                    # first test must be the x-test or y-test in cross-multiplied form
                    seen = []
                    for e in eqs:
                        if same_pair(e[1], e[2], u1, u2):
                            seen.append(('x', e[3]))
                        elif same_pair(e[1], e[2], s1, s2):
                            seen.append(('y', e[3]))
                        else:
                            seen.append(('?', e[1], e[2]))
                            bad.append('the equal-point test compares %r with %r; representation independence needs X1*Z2^2 vs X2*Z1^2 and Y1*Z2^3 vs Y2*Z1^3' % (e[1], e[2]))
                    if all(s[0] in ('x', 'y') for s in seen):
                        both = dict((s[0], s[1]) for s in seen)
                        if both.get('x') and both.get('y'):
                            kinds['P=Q'] = (o == ('doubled', P1)) or (isinstance(o, tuple) and o[0] == 'doubled' and isinstance(o[1], Agg) and o[1].items == [X1, Y1, Z1])
                            if not kinds['P=Q']:
                                bad.append('P + P returns %r, expected double(P)' % (o,))
                        else:
                            kinds.setdefault('general', 0)
                            kinds['general'] += 1
                            if isinstance(o, tuple) and o and o[0] == 'doubled':
                                bad.append('doubling used when the points differ (%r)' % (seen,))
                            # the general branch must decide only after at least the failing test
                else:
                    bad.append('unexpected branch structure %r' % (d,))
            need = {'self=O', 'other=O', 'P=Q', 'general'}
            rep.check(not bad and need <= set(kinds) and all(kinds[k] for k in need), 'GUARD', '%s:add_assign:skeleton' % g,
                      'O+Q=Q, P+O=P, equal points (X1 Z2^2 = X2 Z1^2 and Y1 Z2^3 = Y2 Z1^3) -> double, otherwise the general formula',
                      '; '.join(bad) or 'missing cases %s' % sorted(need - set(kinds)), fx.fn(p)['span'], construct=p)
        else:
            rep.fail('GUARD', '%s:add_assign:anchor' % g, 'not found')
        # ---------------------------------------------------- add_assign_mixed
        p = fx.impl_method('CurveProjective', proj, 'add_assign_mixed')
        if p and fx.body(p):
            rep.fn(p)
            n += 1
            I = mk_interp(fx, proj, aff)
            res = I.run(p, [('byref', P1), ('byref', A2)])
            rep.sites(I.call_sites)
            mu2 = Lin({'x2': 1, 'Z1': 2})
            ms2 = Lin({'y2': 1, 'Z1': 3})
            kinds = {}
            bad = []
            for pth, ret, outs in res:
                labs = [lab_name(l) for l in pth.labels]
                d = descr(labs)
                o = outs.get(1)
                dd = dict()
                for x in d:
                    if x[0] == 'infinity':
                        dd['inf'] = x[1]
                    elif x[0] == 'is_zero' and x[1] == Z1:
                        dd['z'] = x[2]
                eqs = [x for x in d if x[0] == 'eq']
                if dd.get('inf') is True:
                    kinds['other=O'] = isinstance(o, Agg) and o.items == [X1, Y1, Z1] and not eqs
                    if not kinds['other=O']:
                        bad.append('P + O(affine) returns %r' % (o,))
                elif dd.get('inf') is False and dd.get('z') is True:
                    good = isinstance(o, Agg) and o.items[:2] == [at('x2'), at('y2')] and isinstance(o.items[2], Lin) and not o.items[2].t and not eqs
                    kinds['self=O'] = good
                    if not good:
                        bad.append('O + Q(affine) returns %r, expected (x2, y2, 1)' % (o,))
                elif dd.get('inf') is False and dd.get('z') is False:
                    seen = []
                    for e in eqs:
                        if same_pair(e[1], e[2], X1, mu2):
                            seen.append(('x', e[3]))
                        elif same_pair(e[1], e[2], Y1, ms2):
                            seen.append(('y', e[3]))
                        else:
                            seen.append(('?',))
                            bad.append('the equal-point test compares %r with %r; expected X1 vs x2*Z1^2 and Y1 vs y2*Z1^3' % (e[1], e[2]))
                    both = dict((s[0], s[1]) for s in seen if s[0] != '?')
                    if both.get('x') and both.get('y'):
                        kinds['P=Q'] = isinstance(o, tuple) and o[0] == 'doubled' and isinstance(o[1], Agg) and o[1].items == [X1, Y1, Z1]
                        if not kinds['P=Q']:
                            bad.append('P + P(affine) returns %r, expected double(P)' % (o,))
                    else:
                        kinds['general'] = True
                        if isinstance(o, tuple) and o and o[0] == 'doubled':
                            bad.append('doubling used when the points differ')
                else:
                    bad.append('identity tests missing on path %r' % (d,))
            need = {'self=O', 'other=O', 'P=Q', 'general'}
            rep.check(not bad and need <= set(kinds) and all(kinds[k] for k in need), 'GUARD', '%s:add_assign_mixed:skeleton' % g,
                      'P+O=P, O+Q=(x2,y2,1), equal points (X1 = x2 Z1^2 and Y1 = y2 Z1^3) -> double, otherwise the general formula',
                      '; '.join(bad) or 'missing cases %s' % sorted(need - set(kinds)), fx.fn(p)['span'], construct=p)
        else:
            rep.fail('GUARD', '%s:add_assign_mixed:anchor' % g, 'not found')
        # ---------------------------------------------------- eq
        p = fx.impl_method('std::cmp::PartialEq', proj, 'eq')
        if p and fx.body(p):
            rep.fn(p)
            n += 1
            I = mk_interp(fx, proj, aff)
            res = I.run(p, [('byref', P1), ('byref', P2)])
            rep.sites(I.call_sites)
            bad = []
            true_paths = 0
            for pth, ret, outs in res:
                d = descr([lab_name(l) for l in pth.labels])
                val = None
                if isinstance(ret, Int):
                    val = bool(ret.v)
                if d and d[0] == ('is_zero', Z1, True):
                    # result = other.is_zero()
                    ok = isinstance(ret, tuple) and ret[0] == 'bool' and ret[1][0] == 'is_zero' and ret[1][1] == Z2 and len(d) == 1
                    if not ok:
                        bad.append('O == Q returns %r, expected Q.is_zero()' % (ret,))
                    continue
                if d[:2] == [('is_zero', Z1, False), ('is_zero', Z2, True)]:
                    if val is not False or len(d) != 2:
                        bad.append('P == O returns %r for finite P' % (ret,))
                    continue
                if d[:2] != [('is_zero', Z1, False), ('is_zero', Z2, False)]:
                    bad.append('identity tests missing: %r' % (d,))
                    continue
                eqs = d[2:]
                kinds = []
                for e in eqs:
                    if e[0] != 'eq':
                        kinds.append('?')
                    elif same_pair(e[1], e[2], u1, u2):
                        kinds.append(('x', e[3]))
                    elif same_pair(e[1], e[2], s1, s2):
                        kinds.append(('y', e[3]))
                    else:
                        kinds.append('?')
                        bad.append('compares %r with %r; expected X1*Z2^2 vs X2*Z1^2 and Y1*Z2^3 vs Y2*Z1^3' % (e[1], e[2]))
                if '?' in kinds:
                    continue
                dd = dict(kinds)
                want = dd.get('x') is True and dd.get('y') is True
                if val is None:
                    bad.append('result not a decided boolean on path %r' % (kinds,))
                elif val != want:
                    bad.append('returns %s when x-test=%s, y-test=%s' % (val, dd.get('x'), dd.get('y')))
                if val and want:
                    true_paths += 1
            rep.check(not bad and true_paths == 1, 'GUARD', '%s:eq:skeleton' % g,
                      'O==Q iff Q=O; P==O false; otherwise true iff X1 Z2^2 = X2 Z1^2 and Y1 Z2^3 = Y2 Z1^3',
                      '; '.join(sorted(set(bad))) or '%d accepting paths' % true_paths, fx.fn(p)['span'], construct=p)
        else:
            rep.fail('GUARD', '%s:eq:anchor' % g, 'not found')
        # ---------------------------------------------------- negate (projective and affine)
        for tr, ty, val, nm in (('CurveProjective', proj, P1, 'projective'), ('CurveAffine', aff, Agg([at('x2'), at('y2'), ('bool', ('infinity',))]), 'affine')):
            p = fx.impl_method(tr, ty, 'negate')
            if not (p and fx.body(p)):
                rep.fail('GUARD', '%s:negate(%s):anchor' % (g, nm), 'not found')
                continue
            rep.fn(p)
            n += 1
            I = exp.Interp(fx, 'mul', inline=lambda q: q in (fx.impl_method('CurveProjective', proj, 'is_zero'), fx.impl_method('CurveAffine', aff, 'is_zero')))
            res = I.run(p, [('byref', val)])
            ok = len(res) == 2
            why = '%d paths' % len(res)
            for pth, ret, outs in res:
                d = descr([lab_name(l) for l in pth.labels])
                o = outs.get(1)
                is_id = (d and ((d[0][0] == 'is_zero' and d[0][2]) or (d[0][0] == 'infinity' and d[0][1])))
                if is_id:
                    if not (isinstance(o, Agg) and o.items == val.items):
                        ok, why = False, 'negating the identity changes it'
                else:
                    exp_items = list(val.items)
                    exp_items[1] = val.items[1].add(Lin.atom('-1'))
                    if not (isinstance(o, Agg) and o.items == exp_items):
                        ok, why = False, 'negation gives %r, expected only y negated' % (o,)
            rep.check(ok, 'GUARD', '%s:negate(%s)' % (g, nm), 'identity unchanged, otherwise y -> -y only', why, fx.fn(p)['span'], construct=p)
        # ---------------------------------------------------- conversions
        p = fx.impl_method('std::convert::From', proj, 'from')
        if p and fx.body(p):
            rep.fn(p)
            n += 1
            I = mk_interp(fx, proj, aff)
            res = I.run(p, [A2])
            ok = len(res) == 2
            why = '%d paths' % len(res)
            for pth, ret, outs in res:
                d = descr([lab_name(l) for l in pth.labels])
                if d == [('infinity', True)]:
                    if ret != ('identity', proj):
                        ok, why = False, 'identity converts to %r' % (ret,)
                elif d == [('infinity', False)]:
                    if not (isinstance(ret, Agg) and ret.items[:2] == [at('x2'), at('y2')] and isinstance(ret.items[2], Lin) and not ret.items[2].t):
                        ok, why = False, 'finite point converts to %r, expected (x, y, 1)' % (ret,)
                else:
                    ok, why = False, 'branches %r' % (d,)
            rep.check(ok, 'GUARD', '%s:affine->projective' % g, 'identity -> identity; (x,y) -> (x,y,1)', why, fx.fn(p)['span'], construct=p)
        p = fx.impl_method('std::convert::From', aff, 'from')
        if p and fx.body(p):
            rep.fn(p)
            n += 1
            I = mk_interp(fx, proj, aff)
            res = I.run(p, [P1])
            bad = []
            seen = set()
            for pth, ret, outs in res:
                d = descr([lab_name(l) for l in pth.labels])
                if d == [('is_zero', Z1, True)]:
                    seen.add('O')
                    if ret != ('identity', aff):
                        bad.append('identity converts to %r' % (ret,))
                    continue
                if not d or d[0] != ('is_zero', Z1, False):
                    bad.append('no identity test first: %r' % (d,))
                    continue
                rest = d[1:]
                if len(rest) == 1 and rest[0][0] == 'eq' and same_pair(rest[0][1], rest[0][2], Z1, Lin()):
                    if rest[0][3]:
                        seen.add('Z=1')
                        if not (isinstance(ret, Agg) and ret.items[:2] == [X1, Y1] and isinstance(ret.items[2], Int) and ret.items[2].v == 0):
                            bad.append('Z=1 fast path returns %r' % (ret,))
                    else:
                        seen.add('general')
                        wantx = Lin({'X1': 1, 'Z1': -2})
                        wanty = Lin({'Y1': 1, 'Z1': -3})
                        if not (isinstance(ret, Agg) and ret.items[:2] == [wantx, wanty] and isinstance(ret.items[2], Int) and ret.items[2].v == 0):
                            bad.append('general path returns %r, expected (X/Z^2, Y/Z^3, finite)' % (ret,))
                        uw = [e for e in pth.events if e[0] == 'unwrap']
                        if not (len(uw) == 1 and uw[0][1] and uw[0][1][0] == 'inverse'):
                            bad.append('inverse().unwrap() not found / not on Z')
                else:
                    bad.append('unexpected branch %r' % (rest,))
            rep.check(not bad and seen == {'O', 'Z=1', 'general'}, 'GUARD', '%s:projective->affine' % g,
                      'identity -> identity; Z = 1 -> (X, Y); otherwise (X/Z^2, Y/Z^3) with the inversion only under Z != 0',
                      '; '.join(bad) or 'cases %s' % sorted(seen), fx.fn(p)['span'], construct=p)
        # ---------------------------------------------------- is_normalized / batch_normalization filters
        p = fx.impl_method('CurveProjective', proj, 'is_normalized')
        if p and fx.body(p):
            rep.fn(p)
            n += 1
            I = exp.Interp(fx, 'mul', inline=lambda q: q == fx.impl_method('CurveProjective', proj, 'is_zero'))
            res = I.run(p, [('byref', P1)])
            ok = True
            why = ''
            for pth, ret, outs in res:
                d = descr([lab_name(l) for l in pth.labels])
                if d == [('is_zero', Z1, True)]:
                    ok = ok and isinstance(ret, Int) and ret.v == 1
                elif d == [('is_zero', Z1, False)]:
                    good = isinstance(ret, tuple) and ret[0] == 'bool' and ret[1][0] == 'eq' and same_pair(ret[1][1], ret[1][2], Z1, Lin())
                    ok = ok and good
                else:
                    ok = False
                if not ok and not why:
                    why = 'path %r returns %r' % (d, ret)
            rep.check(ok and len(res) == 2, 'GUARD', '%s:is_normalized' % g, 'identity or Z == 1', why, fx.fn(p)['span'], construct=p)
        bn = fx.impl_method('CurveProjective', proj, 'batch_normalization')
        if bn and fx.body(bn):
            rep.fn(bn)
            n += 1
            clos = sorted(q for q in fx.fns if q.startswith(bn + '::{closure'))
            good = 0
            detail = []
            for cq in clos:
                cb = fx.body(cq)
                if cb is None:
                    continue
                o = Origin(cb)
                t = o.local(0)
                neg = False
                while t[0] == 'unop' and t[1] == 'Not':
                    neg = not neg
                    t = t[2]
                t = strip(t)
                if t[0] == 'call' and t[1].get('trait') == 'CurveProjective' and t[1].get('name') == 'is_normalized' and neg:
                    good += 1
                else:
                    detail.append('%s filters on %s%s' % (cq.rsplit('::', 1)[1], '!' if neg else '', term_str(t)))
            b = fx.body(bn)
            nfilter = sum(1 for _, t in b.calls() if (callee(t) or {}).get('name') == 'filter')
            rep.check(good == 3 and nfilter == 3 and not detail, 'GUARD', '%s:batch_normalization:filters' % g,
                      'all three passes iterate over exactly the elements with !is_normalized() (so the prefix products line up and only Z != 0 is inverted)',
                      'the three passes do not use one and the same filter: %s (filters=%d)' % ('; '.join(detail), nfilter), fx.fn(bn)['span'], construct=bn)
            uw = [t for _, t in b.calls() if (callee(t) or {}).get('name') == 'unwrap']
            o = Origin(b)
            okuw = len(uw) == 1 and strip(o.operand(uw[0]['args'][0]))[0] == 'call' and strip(o.operand(uw[0]['args'][0]))[1].get('name') == 'inverse'
            rep.check(okuw, 'GUARD', '%s:batch_normalization:inverse' % g, 'one inversion, of the accumulated product of non-zero Z', 'unexpected unwrap structure', fx.fn(bn)['span'])
    rep.floor('GUARD', 'curve-operations-analysed', n, 20)


def rule_sub_defaults(fx, rep):
    for nm, addnm in (('sub_assign', 'add_assign'), ('sub_assign_mixed', 'add_assign_mixed')):
        p = fx.trait_default('CurveProjective', nm)
        b = fx.body(p) if p else None
        if b is None:
            rep.fail('SHAPE', 'CurveProjective::%s:anchor' % nm, 'default method not found')
            continue
        rep.fn(p)
        over = [i['self_ty'] for i in fx.impls_of('CurveProjective') for it in i['items'] if it['name'] == nm]
        rep.check(not over, 'SHAPE', 'CurveProjective::%s:not-overridden' % nm, 'no impl overrides the default', 'overridden by %s' % over)

        def tr(I, fr, t, c, pth):
            n_ = c.get('name')
            if c.get('trait') in ('CurveProjective', 'CurveAffine') and n_ == 'negate':
                fr.store_through(t['args'][0], ('neg', fr.deref_operand(t['args'][0])))
                return True
            if c.get('trait') == 'CurveProjective' and n_ in ('add_assign', 'add_assign_mixed'):
                fr.store_through(t['args'][0], (n_, fr.deref_operand(t['args'][0]), fr.deref_operand(t['args'][1])))
                return True
            return False
        I = exp.Interp(fx, 'none', extra_transfer=tr)
        res = I.run(p, [('byref', 'SELF'), ('byref', 'OTHER')])
        ok = len(res) == 1 and res[0][2].get(1) == (addnm, 'SELF', ('neg', 'OTHER')) and res[0][2].get(2) == 'OTHER'
        rep.check(ok, 'SHAPE', 'CurveProjective::%s' % nm, 'self - other = %s(self, negate(copy of other)); other untouched' % addnm,
                  'computes %r (other becomes %r)' % (res[0][2].get(1) if res else None, res[0][2].get(2) if res else None), fx.fn(p)['span'], construct=p)


def rules(fx, rep):
    rule_projective_ops(fx, rep)
    rule_sub_defaults(fx, rep)


def main(tier, t0):
    return common.standard_main(
        PROP, tier, t0, rules, 'other',
        'Narrow but exact on the exceptional classes the tests miss: all paths of double, add_assign, add_assign_mixed, PartialEq::eq, negate (x2), the two '
        'conversions, is_normalized are enumerated for G1 and G2 with coordinates as symbolic monomials. Decided: identity short-circuits (O+Q=Q, P+O=P, 2O=O, '
        '-O=O), the equal-point test is the representation-independent pair X1 Z2^2 = X2 Z1^2, Y1 Z2^3 = Y2 Z1^3 (resp. the mixed form) and leads to double(), '
        'equality returns true exactly under both tests, conversions give (x,y,1) resp. (X/Z^2, Y/Z^3) with inversion only for Z != 0 and the Z = 1 fast path; '
        'batch normalisation uses one filter (!is_normalized) in all three passes; default sub_assign(_mixed) = add(negate(copy)). NOT decided: the '
        'general-position formulas dbl-2009-l / add-2007-bl / madd-2007-bl and the normalisation arithmetic of batch_normalization (polynomial identities over runtime values).',
        ['rustc MIR', 'base-field operation contracts (C08, C09)'],
        ['sums are opaque: formulas of the general branch are out of reach of this family'])

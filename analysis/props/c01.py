"""C01 -- group law: exceptional-case skeleton of the curve operations.

For every operation the complete set of paths is enumerated with the coordinates as
symbolic monomials (EXP domain; sums are opaque).  Decided exactly: which predicate
selects each exceptional branch (identity tests on Z / the infinity flag, the
representation-independent equality tests X1 Z2^2 == X2 Z1^2 and Y1 Z2^3 == Y2 Z1^3)
and what each exceptional branch returns (copy of the other operand, unchanged,
doubling, identity, normalised coordinates X/Z^2, Y/Z^3).  The general-position
formulas (dbl-2009-l, add-2007-bl, madd-2007-bl) are NOT decided."""
import exp
import inline as INL
from exp import Agg, Int, Lin, Opt, TOP
from facts import callee
from props import common
from props.c04 import lab_name
from wire import Origin, strip, term_str

PROP = 'C01'
GROUPS = [('G1', 'bls12_381::ec::g1::G1', 'bls12_381::ec::g1::G1Affine'), ('G2', 'bls12_381::ec::g2::G2', 'bls12_381::ec::g2::G2Affine')]
at = Lin.atom


def mk_interp(fx, proj, aff, extra=None):
    def inline(p):
        # the identity / normalisation predicates, and any private helper the code was factored into
        return p in inl or INL.is_private_helper(fx, p)
    inl = set()
    for tr, ty in (('CurveProjective', proj), ('CurveAffine', aff)):
        for m in ('is_zero', 'is_normalized'):
            q = fx.impl_method(tr, ty, m)
            if q:
                inl.add(q)

    def tr_(I, fr, t, c, pth):
        nm = c.get('name')
        if c.get('trait') == 'CurveProjective' and nm == 'double':
            v = fr.deref_operand(t['args'][0])
            fr.store_through(t['args'][0], ('doubled', v))
            return True
        if c.get('trait') == 'CurveProjective' and nm in ('add_assign', 'add_assign_mixed'):
            a = fr.deref_operand(t['args'][0])
            b = fr.deref_operand(t['args'][1])
            fr.store_through(t['args'][0], (nm, a, b))
            return True
        if c.get('trait') in ('CurveProjective', 'CurveAffine') and nm == 'negate':
            v = fr.deref_operand(t['args'][0])
            fr.store_through(t['args'][0], ('neg', v))
            return True
        if c.get('trait') in ('CurveProjective', 'CurveAffine') and nm == 'zero':
            fr.storev(t['dest'], ('identity', c.get('self_ty')))
            return True
        if nm == 'unwrap' and c['def'].startswith('std::option::Option'):
            v = fr.operand(t['args'][0])
            if isinstance(v, Opt):
                pth.events.append(('unwrap', v.label, t['span']))
                fr.storev(t['dest'], v.payload)
                return True
        if extra and extra(I, fr, t, c, pth):
            return True
        # conversions between the two representations are part of what is decided here: local
        # implementations are interpreted (through From / Into / into_affine / into_projective delegation)
        tgt = None
        if c.get('trait') == 'std::convert::Into' and nm == 'into' and len(c.get('targs') or []) == 2:
            tgt = '<%s as std::convert::From<%s>>::from' % (c['targs'][1], c['targs'][0])
        elif c.get('res_local') and ((c.get('trait') == 'std::convert::From' and nm == 'from') or
                                     (c.get('trait') in ('CurveProjective', 'CurveAffine') and nm in ('into_affine', 'into_projective'))):
            tgt = c.get('res')
        if tgt and fx.body(tgt) is not None:
            return I._inline_call(fr, t, tgt, pth) or True
        return False
    I_ = exp.Interp(fx, 'mul', inline=inline, extra_transfer=tr_)
    I_.fork_inlined = True
    return I_


def descr(labs):
    out = []
    for nm, tk, x in labs:
        if nm == 'is_zero':
            out.append(('is_zero', x[1], tk))
        elif nm in ('eq', 'ne'):
            equal = tk if nm == 'eq' else not tk
            out.append(('eq', x[1], x[2], equal))
        elif nm == 'infinity':
            out.append(('infinity', tk))
        else:
            out.append((nm, tk))
    return out


def same_pair(a, b, x, y):
    return (a == x and b == y) or (a == y and b == x)


def projective_worlds(tt, X1, Y1, Z1, X2, Y2, Z2, u1, u2, s1, s2):
    """All combinations of facts about two Jacobian representations that a comparison-based test can observe:
    each Z is 0, 1 or something else; the two points are the same / opposite (same x) / different; the raw coordinates
    may or may not coincide -- subject to the algebra that ties them together.  Yields dict predicate-key -> bool plus
    the semantic facts (zero1, zero2, relation)."""
    import itertools
    one = Lin()
    K = {
        'z1': ('is_zero', tt.lin_key(Z1)), 'z2': ('is_zero', tt.lin_key(Z2)),
        'one1': tt.eq_key(Z1, one), 'one2': tt.eq_key(Z2, one),
        'kx': tt.eq_key(u1, u2), 'ky': tt.eq_key(s1, s2),
        'rx': tt.eq_key(X1, X2), 'ry': tt.eq_key(Y1, Y2), 'rz': tt.eq_key(Z1, Z2),
    }
    for zc1, zc2 in itertools.product(('zero', 'one', 'other'), repeat=2):
        for rel in ('same', 'opp', 'diff'):
            if (zc1 == 'zero' or zc2 == 'zero') and rel != 'same':
                continue        # relation only matters for two finite points (enumerate garbage separately below)
            finite = zc1 != 'zero' and zc2 != 'zero'
            rz_opts = [True] if (zc1 == zc2 and zc1 in ('zero', 'one')) else ([False] if zc1 != zc2 and 'other' not in (zc1, zc2) else ([False] if zc1 != zc2 else [True, False]))
            for rz in rz_opts:
                if finite:
                    kx_opts = [rel in ('same', 'opp')]
                    ky_opts = [rel == 'same']
                else:
                    kx_opts, ky_opts = [True, False], [True, False]       # coordinates of an identity carry no meaning
                for kx, ky in itertools.product(kx_opts, ky_opts):
                    if finite and rz:
                        rx_opts, ry_opts = [kx], [ky]                      # same Z: cross-multiplied equality is raw equality
                    else:
                        rx_opts, ry_opts = [True, False], [True, False]
                    for rx, ry in itertools.product(rx_opts, ry_opts):
                        env = {K['z1']: zc1 == 'zero', K['z2']: zc2 == 'zero', K['one1']: zc1 == 'one', K['one2']: zc2 == 'one',
                               K['kx']: kx, K['ky']: ky, K['rx']: rx, K['ry']: ry, K['rz']: rz}
                        yield env, (zc1 == 'zero', zc2 == 'zero', rel if finite else None)


def rule_projective_ops(fx, rep):
    n = 0
    for g, proj, aff in GROUPS:
        X1, Y1, Z1 = at('X1'), at('Y1'), at('Z1')
        X2, Y2, Z2 = at('X2'), at('Y2'), at('Z2')
        P1 = Agg([X1, Y1, Z1])
        P2 = Agg([X2, Y2, Z2])
        A2 = Agg([at('x2'), at('y2'), ('bool', ('infinity',))])
        u1 = Lin({'X1': 1, 'Z2': 2})
        u2 = Lin({'X2': 1, 'Z1': 2})
        s1 = Lin({'Y1': 1, 'Z2': 3})
        s2 = Lin({'Y2': 1, 'Z1': 3})
        # ---------------------------------------------------- double
        p = fx.impl_method('CurveProjective', proj, 'double')
        if p and fx.body(p):
            rep.fn(p)
            n += 1
            I = mk_interp(fx, proj, aff)
            res = I.run(p, [('byref', P1)])
            rep.sites(I.call_sites)
            ok = len(res) == 2
            why = '%d paths' % len(res)
            for pth, ret, outs in res:
                d = descr([lab_name(l) for l in pth.labels])
                if d == [('is_zero', Z1, True)]:
                    if not (isinstance(outs.get(1), Agg) and outs[1].items == [X1, Y1, Z1]):
                        ok, why = False, 'doubling the identity changes it: %r' % (outs.get(1),)
                elif d == [('is_zero', Z1, False)]:
                    o = outs.get(1)
                    if not (isinstance(o, Agg) and isinstance(o.items[2], Lin) and o.items[2] == Lin({'Z1': 1, 'Y1': 1, '2': 1})):
                        ok, why = False, 'Z3 is %r, expected 2*Y1*Z1' % (o.items[2] if isinstance(o, Agg) else o,)
                else:
                    ok, why = False, 'unexpected branch %r' % (d,)
            rep.check(ok, 'GUARD', '%s:double:skeleton' % g, 'identity (Z = 0) is returned unchanged; otherwise Z3 = 2*Y1*Z1', why, fx.fn(p)['span'], construct=p)
        else:
            rep.fail('GUARD', '%s:double:anchor' % g, 'not found')
        # ---------------------------------------------------- add_assign / add_assign_mixed (truth tables)
        import tt
        for nm_, other, mixed in (('add_assign', P2, False), ('add_assign_mixed', A2, True)):
            p = fx.impl_method('CurveProjective', proj, nm_)
            if not (p and fx.body(p)):
                rep.fail('GUARD', '%s:%s:anchor' % (g, nm_), 'not found')
                continue
            rep.fn(p)
            n += 1
            I = mk_interp(fx, proj, aff)
            res = I.run(p, [('byref', P1), ('byref', other)])
            rep.sites(I.call_sites)
            kz1 = ('is_zero', tt.lin_key(Z1))
            if mixed:
                kz2 = ('infinity',)
                kx, ky = tt.eq_key(X1, Lin({'x2': 1, 'Z1': 2})), tt.eq_key(Y1, Lin({'y2': 1, 'Z1': 3}))
                raw = [tt.eq_key(X1, at('x2')), tt.eq_key(Y1, at('y2')), tt.eq_key(Z1, Lin())]
                q_val = [at('x2'), at('y2'), Lin()]
                formx = 'X1 = x2*Z1^2 and Y1 = y2*Z1^3'
            else:
                kz2 = ('is_zero', tt.lin_key(Z2))
                kx, ky = tt.eq_key(u1, u2), tt.eq_key(s1, s2)
                raw = [tt.eq_key(X1, X2), tt.eq_key(Y1, Y2), tt.eq_key(Z1, Z2)]
                q_val = [X2, Y2, Z2]
                formx = 'X1*Z2^2 = X2*Z1^2 and Y1*Z2^3 = Y2*Z1^3'
            core_keys = [kz1, kz2, kx, ky]
            bad = []
            present = tt.predicates(res)
            # a comparison of two monomials a == b is classified by the exponent vector of a/b: the cross-multiplied x
            # (y) test times a power m of Z1/Z2 is, for two finite representations with Z1 = Z2, the x (y) test itself,
            # and otherwise a coincidence of raw values that carries no meaning (the raw X, Y comparisons are m = 2, 3)
            if mixed:
                du, ds, dz = {'X1': 1, 'x2': -1, 'Z1': -2}, {'Y1': 1, 'y2': -1, 'Z1': -3}, {'Z1': 1}
            else:
                du, ds, dz = {'X1': 1, 'Z2': 2, 'X2': -1, 'Z1': -2}, {'Y1': 1, 'Z2': 3, 'Y2': -1, 'Z1': -3}, {'Z1': 1, 'Z2': -1}

            def classify(k_):
                if not (isinstance(k_, tuple) and len(k_) == 3 and k_[0] == 'eq' and all(isinstance(x_, tuple) and x_ and x_[0] == 'lin' for x_ in k_[1:])):
                    return None
                d_ = dict(k_[1][1])
                for a_, e_ in k_[2][1]:
                    d_[a_] = d_.get(a_, 0) - e_
                for sign in (1, -1):
                    for cls, base_ in (('x', du), ('y', ds)):
                        e_ = {a_: sign * v_ for a_, v_ in d_.items()}
                        for a_, v_ in base_.items():
                            e_[a_] = e_.get(a_, 0) - v_
                        e_ = {a_: v_ for a_, v_ in e_.items() if v_}
                        m_ = e_.get('Z1', 0)
                        want_ = {a_: m_ * v_ for a_, v_ in dz.items() if m_ * v_}
                        if e_ == want_ and m_ != 0:
                            return cls
                return None
            tied = {}
            for k_ in present:
                if k_ not in core_keys and k_ not in raw:
                    cls_ = classify(k_)
                    if cls_ is None:
                        bad.append('the equal-point test compares %r; representation independence needs %s' % (k_[1:], formx))
                    else:
                        tied[k_] = cls_
            if tied and raw[2] not in present:
                bad.append('a partially scaled comparison %r decides without the Z coordinates having been compared; representation independence needs %s' % (list(tied)[0][1:], formx))
            keys = core_keys + [k_ for k_ in raw if k_ in present] + sorted(tied, key=repr)

            def kind(o):
                if isinstance(o, Agg) and o.items == [X1, Y1, Z1]:
                    return 'P'
                if isinstance(o, Agg) and len(o.items) == 3 and o.items[:2] == q_val[:2] and (o.items[2] == q_val[2]):
                    return 'Q'
                if isinstance(o, tuple) and o and o[0] == 'doubled':
                    inner = o[1]
                    if isinstance(inner, Agg) and inner.items == [X1, Y1, Z1]:
                        return 'dbl'
                    if isinstance(inner, Agg) and inner.items == q_val:
                        return 'dblQ'
                    return 'dbl?'
                if isinstance(o, tuple) and o and o[0] == 'identity':
                    return 'O'
                return 'general'
            seen_kinds = set()
            for env, cons in ([] if bad else tt.table(res, keys)):
                # relations between the predicates: identical coordinates => the same point; Z1 = Z2 => same identity status
                rawv = [env.get(k_) for k_ in raw]
                if all(v is True for v in rawv) and not (env[kx] and env[ky]):
                    continue
                if not mixed and env.get(raw[2]) is True and env[kz1] != env[kz2]:
                    continue
                if mixed and env.get(raw[2]) is True and env[kz1]:
                    continue
                if env.get(raw[2]) is True and not env[kz1] and not env[kz2]:
                    # two finite representations with the same Z (resp. Z1 = 1 against an affine point): a raw
                    # coordinate comparison is the cross-multiplied one
                    if env.get(raw[0]) not in (None, env[kx]) or env.get(raw[1]) not in (None, env[ky]):
                        continue
                    if any(env[k_] != (env[kx] if cls_ == 'x' else env[ky]) for k_, cls_ in tied.items()):
                        continue
                if len(cons) != 1:
                    bad.append('for (Z1=0, other=O, x-test, y-test) = %r: %d paths' % (tuple(env[k_] for k_ in core_keys), len(cons)))
                    continue
                kd = kind(cons[0][2].get(1))
                if mixed:
                    want = 'P' if env[kz2] else ('Q' if env[kz1] else ('dbl' if env[kx] and env[ky] else 'general'))
                else:
                    want = 'Q' if env[kz1] else ('P' if env[kz2] else ('dbl' if env[kx] and env[ky] else 'general'))
                seen_kinds.add(want)
                z1_, z2_ = env[kz1], env[kz2]
                same = (z1_ and z2_) or (not z1_ and not z2_ and env[kx] and env[ky])

                def canon_pt(k_):
                    # the point a result kind denotes under this assignment (O = identity)
                    if k_ == 'P':
                        return 'O' if z1_ else 'P'
                    if k_ == 'Q':
                        return 'O' if z2_ else ('P' if same else 'Q')
                    if k_ == 'dbl':
                        return 'O' if z1_ else '2P'
                    if k_ == 'dblQ':
                        return 'O' if z2_ else ('2P' if same else '2Q')
                    return k_
                okk = canon_pt(kd) == canon_pt(want)
                if want == 'general' and kd == 'O' and env[kx] and not env[ky] and not z1_ and not z2_:
                    okk = True          # P + (-P)
                if not okk:
                    names = {'P': 'self unchanged', 'Q': 'the other operand', 'dbl': 'double()', 'dblQ': 'the double of the other operand', 'general': 'the general formula', 'O': 'the identity', 'dbl?': 'a doubling of something else'}
                    bad.append('when (self=O, other=O, x-test, y-test) = %r the result is %s, expected %s' % (tuple(env[k_] for k_ in core_keys), names[kd], names[want]))
            need = {'P', 'Q', 'dbl', 'general'}
            rep.check(not bad and need <= seen_kinds, 'GUARD', '%s:%s:skeleton' % (g, nm_),
                      'O+Q=Q, P+O=P, equal points (%s) -> double, otherwise the general formula; decided as a truth table over the tested predicates' % formx,
                      '; '.join(sorted(set(bad))[:3]) or 'missing cases %s' % sorted(need - seen_kinds), fx.fn(p)['span'], construct=p)
        # ---------------------------------------------------- eq
        p = fx.impl_method('std::cmp::PartialEq', proj, 'eq')
        if p and fx.body(p):
            rep.fn(p)
            n += 1
            I = mk_interp(fx, proj, aff)
            res = I.run(p, [('byref', P1), ('byref', P2)])
            rep.sites(I.call_sites)
            bad = []
            true_paths = 1
            import tt
            worlds = list(projective_worlds(tt, X1, Y1, Z1, X2, Y2, Z2, u1, u2, s1, s2))
            allowed = set(worlds[0][0].keys())
            for k_ in tt.predicates(res):
                if k_ not in allowed:
                    bad.append('tests %r; a representation-independent comparison needs X1*Z2^2 = X2*Z1^2 and Y1*Z2^3 = Y2*Z1^3 (identity / Z = 1 / identical-coordinate tests are also understood)' % (k_,))
            n_w = 0
            for env, (zero1, zero2, rel) in ([] if bad else worlds):
                n_w += 1
                want = (zero1 and zero2) if (zero1 or zero2) else (rel == 'same')
                cons = []
                for pth, ret, _o in res:
                    okp = True
                    for key_, t_, _l in tt.path_literals(pth):
                        if key_ in env and env[key_] != t_:
                            okp = False
                            break
                    if okp:
                        cons.append(ret)
                vals = [tt.value_under(r_, env) for r_ in cons]
                if len(cons) != 1 or vals[0] is None:
                    bad.append('%d consistent paths (values %r) when self is %s, other is %s, relation %s' % (len(cons), vals, 'O' if zero1 else 'finite', 'O' if zero2 else 'finite', rel))
                elif vals[0] != want:
                    bad.append('returns %s when self is %s, other is %s%s' % (vals[0], 'the identity' if zero1 else 'finite', 'the identity' if zero2 else 'finite', '' if rel is None else ' and they are %s' % {'same': 'the same point', 'opp': 'opposite points', 'diff': 'different points'}[rel]))
            rep.check(not bad and true_paths == 1, 'GUARD', '%s:eq:skeleton' % g,
                      'O==Q iff Q=O; P==O false; otherwise true iff X1 Z2^2 = X2 Z1^2 and Y1 Z2^3 = Y2 Z1^3',
                      '; '.join(sorted(set(bad))) or '%d accepting paths' % true_paths, fx.fn(p)['span'], construct=p)
        else:
            rep.fail('GUARD', '%s:eq:anchor' % g, 'not found')
        # ---------------------------------------------------- negate (projective and affine)
        for tr, ty, val, nm in (('CurveProjective', proj, P1, 'projective'), ('CurveAffine', aff, Agg([at('x2'), at('y2'), ('bool', ('infinity',))]), 'affine')):
            p = fx.impl_method(tr, ty, 'negate')
            if not (p and fx.body(p)):
                rep.fail('GUARD', '%s:negate(%s):anchor' % (g, nm), 'not found')
                continue
            rep.fn(p)
            n += 1
            I = exp.Interp(fx, 'mul', inline=lambda q: q in (fx.impl_method('CurveProjective', proj, 'is_zero'), fx.impl_method('CurveAffine', aff, 'is_zero')))
            res = I.run(p, [('byref', val)])
            ok = len(res) == 2
            why = '%d paths' % len(res)
            for pth, ret, outs in res:
                d = descr([lab_name(l) for l in pth.labels])
                o = outs.get(1)
                is_id = (d and ((d[0][0] == 'is_zero' and d[0][2]) or (d[0][0] == 'infinity' and d[0][1])))
                if is_id:
                    if not (isinstance(o, Agg) and o.items == val.items):
                        ok, why = False, 'negating the identity changes it'
                else:
                    exp_items = list(val.items)
                    exp_items[1] = val.items[1].add(Lin.atom('-1'))
                    if not (isinstance(o, Agg) and o.items == exp_items):
                        ok, why = False, 'negation gives %r, expected only y negated' % (o,)
            rep.check(ok, 'GUARD', '%s:negate(%s)' % (g, nm), 'identity unchanged, otherwise y -> -y only', why, fx.fn(p)['span'], construct=p)
        # ---------------------------------------------------- conversions (every entry point, delegation inlined)
        import tt
        kinf = ('infinity',)
        for ep, p, args in (('From', fx.impl_method('std::convert::From', proj, 'from'), [A2]),
                            ('into_projective', fx.impl_method('CurveAffine', aff, 'into_projective'), [('byref', A2)])):
            if not (p and fx.body(p)):
                rep.fail('GUARD', '%s:affine->projective:%s:anchor' % (g, ep), 'not found')
                continue
            rep.fn(p)
            n += 1
            I = mk_interp(fx, proj, aff)
            res = I.run(p, args)
            rep.sites(I.call_sites)
            bad = []
            for k_ in tt.predicates(res):
                if k_ != kinf:
                    bad.append('tests %r; only the infinity flag decides' % (k_,))
            for env, cons in ([] if bad else tt.table(res, [kinf])):
                if len(cons) != 1:
                    bad.append('infinity=%s: %d paths' % (env[kinf], len(cons)))
                    continue
                ret = cons[0][1]
                if env[kinf]:
                    if ret != ('identity', proj):
                        bad.append('identity converts to %r' % (ret,))
                elif not (isinstance(ret, Agg) and len(ret.items) == 3 and ret.items[:2] == [at('x2'), at('y2')] and isinstance(ret.items[2], Lin) and not ret.items[2].t):
                    bad.append('finite point converts to %r, expected (x, y, 1)' % (ret,))
            rep.check(not bad, 'GUARD', '%s:affine->projective%s' % (g, '' if ep == 'From' else ':' + ep), 'identity -> identity; (x,y) -> (x,y,1)', '; '.join(bad[:3]), fx.fn(p)['span'], construct=p)
        kz0, kz1 = ('is_zero', tt.lin_key(Z1)), tt.eq_key(Z1, Lin())
        for ep, p, args in (('From', fx.impl_method('std::convert::From', aff, 'from'), [P1]),
                            ('into_affine', fx.impl_method('CurveProjective', proj, 'into_affine'), [('byref', P1)])):
            if not (p and fx.body(p)):
                rep.fail('GUARD', '%s:projective->affine:%s:anchor' % (g, ep), 'not found')
                continue
            rep.fn(p)
            n += 1
            I = mk_interp(fx, proj, aff)
            res = I.run(p, args)
            rep.sites(I.call_sites)
            bad = []
            for k_ in tt.predicates(res):
                if k_ not in (kz0, kz1):
                    bad.append('tests %r; only Z = 0 and Z = 1 may decide' % (k_,))
            for pth, ret, outs in res:
                lits = [(k_, t_) for k_, t_, _l in tt.path_literals(pth)]
                for e in pth.events:
                    if e[0] == 'unwrap':
                        if (kz0, False) not in lits:
                            bad.append('no identity test first: an inverse is unwrapped without Z != 0 having been established')
                        if not (e[1] and e[1][0] == 'inverse'):
                            bad.append('unwrap of something other than the inverse of Z')
            wantx = Lin({'X1': 1, 'Z1': -2})
            wanty = Lin({'Y1': 1, 'Z1': -3})
            for env, cons in ([] if bad else tt.table(res, [kz0, kz1])):
                if env[kz0] and env[kz1]:
                    continue        # Z = 0 and Z = 1 cannot both hold
                if len(cons) != 1:
                    bad.append('(Z=0, Z=1) = %r: %d paths' % ((env[kz0], env[kz1]), len(cons)))
                    continue
                ret = cons[0][1]
                if env[kz0]:
                    if ret != ('identity', aff):
                        bad.append('identity converts to %r' % (ret,))
                    continue
                fin = isinstance(ret, Agg) and len(ret.items) == 3 and isinstance(ret.items[2], Int) and ret.items[2].v == 0
                general = fin and ret.items[:2] == [wantx, wanty]
                fast = fin and env[kz1] and ret.items[:2] == [X1, Y1]
                if not (general or fast):
                    bad.append('%s returns %r, expected (X/Z^2, Y/Z^3, finite)%s' % ('Z = 1 path' if env[kz1] else 'general path', ret, ' or (X, Y, finite)' if env[kz1] else ''))
            rep.check(not bad, 'GUARD', '%s:projective->affine%s' % (g, '' if ep == 'From' else ':' + ep),
                      'identity -> identity; otherwise (X/Z^2, Y/Z^3) with the inversion only under Z != 0 (Z = 1 may copy X, Y)',
                      '; '.join(sorted(set(bad))[:3]), fx.fn(p)['span'], construct=p)
        # ---------------------------------------------------- is_normalized / batch_normalization filters
        p = fx.impl_method('CurveProjective', proj, 'is_normalized')
        if p and fx.body(p):
            rep.fn(p)
            n += 1
            I = exp.Interp(fx, 'mul', inline=lambda q: q == fx.impl_method('CurveProjective', proj, 'is_zero'))
            res = I.run(p, [('byref', P1)])
            ok = True
            why = ''
            for pth, ret, outs in res:
                d = descr([lab_name(l) for l in pth.labels])
                if d == [('is_zero', Z1, True)]:
                    ok = ok and isinstance(ret, Int) and ret.v == 1
                elif d == [('is_zero', Z1, False)]:
                    good = isinstance(ret, tuple) and ret[0] == 'bool' and ret[1][0] == 'eq' and same_pair(ret[1][1], ret[1][2], Z1, Lin())
                    ok = ok and good
                else:
                    ok = False
                if not ok and not why:
                    why = 'path %r returns %r' % (d, ret)
            rep.check(ok and len(res) == 2, 'GUARD', '%s:is_normalized' % g, 'identity or Z == 1', why, fx.fn(p)['span'], construct=p)
        bn = fx.impl_method('CurveProjective', proj, 'batch_normalization')
        if bn and fx.body(bn):
            rep.fn(bn)
            n += 1
            # every batch of up to 3 elements, each the identity (Z = 0), normalised (Z = 1) or general:
            # identity / normalised elements come back untouched, a general element comes back as
            # (X/Z^2, Y/Z^3, 1) -- coordinates are monomials, so Montgomery's trick is decided exactly --
            # and only products of non-zero Z are inverted.
            import itertools
            bad = []
            n_scen = 0
            for nel in range(4):
                for kinds in itertools.product(('zero', 'one', 'gen'), repeat=nel):
                    def oracle(v):
                        # (is_zero, is_one) of a value, when the scenario decides it
                        if isinstance(v, Lin) and len(v.t) == 1:
                            (a_, k_), = v.t.items()
                            if a_.startswith('Z') and a_[1:].isdigit() and int(a_[1:]) < nel and k_ in (1, -1):
                                kd = kinds[int(a_[1:])]
                                return kd == 'zero', kd == 'one'
                        if isinstance(v, Lin) and not v.t:
                            return False, True
                        return None

                    def extra(I, fr, t, c, pth):
                        nm_ = c.get('name')
                        if nm_ == 'is_zero' and c.get('trait') == 'ff::Field':
                            o_ = oracle(I._as_lin(fr.deref_operand(t['args'][0])))
                            if o_ is not None:
                                fr.storev(t['dest'], Int(int(o_[0]), 1))
                                return True
                        if c.get('trait') == 'std::cmp::PartialEq' and nm_ in ('eq', 'ne') and len(t['args']) == 2:
                            a_ = I._as_lin(fr.deref_operand(t['args'][0]))
                            b_ = I._as_lin(fr.deref_operand(t['args'][1]))
                            for u_, w_ in ((a_, b_), (b_, a_)):
                                if isinstance(w_, Lin) and not w_.t:
                                    o_ = oracle(u_)
                                    if o_ is not None:
                                        fr.storev(t['dest'], Int(int(o_[1] == (nm_ == 'eq')), 1))
                                        return True
                        return False
                    elems = [Agg([at('X%d' % k_), at('Y%d' % k_), at('Z%d' % k_)]) for k_ in range(nel)]
                    I = mk_interp(fx, proj, aff, extra=extra)
                    I.max_steps = 200000
                    try:
                        res = I.run(bn, [('byref', Agg(elems))])
                    except (exp.NotDerivable, exp.Budget) as e:
                        bad.append('batch %r not derivable: %s' % (kinds, e))
                        continue
                    rep.sites(I.call_sites)
                    n_scen += 1
                    res = [r for r in res if not (isinstance(r[1], tuple) and r[1] and r[1][0] == 'diverges')] or res
                    if len(res) != 1 or (isinstance(res[0][1], tuple) and res[0][1] and res[0][1][0] == 'diverges'):
                        bad.append('batch %r: %d paths / panics (%r)' % (kinds, len(res), [r[1] for r in res][:2]))
                        continue
                    pth, ret, outs = res[0]
                    out = outs.get(1)
                    for k_, kd in enumerate(kinds):
                        got = out.items[k_] if isinstance(out, Agg) and k_ < len(out.items) else None
                        if kd == 'gen':
                            want = [Lin({'X%d' % k_: 1, 'Z%d' % k_: -2}), Lin({'Y%d' % k_: 1, 'Z%d' % k_: -3}), Lin()]
                        else:
                            want = [at('X%d' % k_), at('Y%d' % k_), at('Z%d' % k_)]
                        # Z = 1 for the normalised elements: powers of their Z are 1
                        ones_ = set('Z%d' % j_ for j_, kj_ in enumerate(kinds) if kj_ == 'one')

                        def drop1(l_):
                            return Lin({a_: e_ for a_, e_ in l_.t.items() if a_ not in ones_}) if isinstance(l_, Lin) else l_
                        if isinstance(got, Agg):
                            got = Agg([drop1(x_) for x_ in got.items], got.kind)
                        want = [drop1(x_) for x_ in want]
                        if not (isinstance(got, Agg) and got.items == want):
                            bad.append('batch %r: element %d (%s) becomes %r, expected %r' % (kinds, k_, {'zero': 'identity', 'one': 'normalised', 'gen': 'general'}[kd], got, want))
                    if not (isinstance(out, Agg) and len(out.items) == nel):
                        bad.append('batch %r: slice length changes' % (kinds,))
            rep.check(not bad and n_scen == 40, 'GUARD', '%s:batch_normalization:filters' % g,
                      'for all 40 batches of <= 3 elements over {identity, normalised, general}: normalised elements are untouched, general ones become (X/Z^2, Y/Z^3, 1), no panic',
                      '; '.join(bad[:3])[:900], fx.fn(bn)['span'], construct=bn)
    rep.floor('GUARD', 'curve-operations-analysed', n, 20)


def rule_sub_defaults(fx, rep):
    for nm, addnm in (('sub_assign', 'add_assign'), ('sub_assign_mixed', 'add_assign_mixed')):
        p = fx.trait_default('CurveProjective', nm)
        b = fx.body(p) if p else None
        if b is None:
            rep.fail('SHAPE', 'CurveProjective::%s:anchor' % nm, 'default method not found')
            continue
        rep.fn(p)
        over = [i['self_ty'] for i in fx.impls_of('CurveProjective') for it in i['items'] if it['name'] == nm]
        rep.check(not over, 'SHAPE', 'CurveProjective::%s:not-overridden' % nm, 'no impl overrides the default', 'overridden by %s' % over)

        def tr(I, fr, t, c, pth):
            n_ = c.get('name')
            if c.get('trait') in ('CurveProjective', 'CurveAffine') and n_ == 'negate':
                fr.store_through(t['args'][0], ('neg', fr.deref_operand(t['args'][0])))
                return True
            if c.get('trait') == 'CurveProjective' and n_ in ('add_assign', 'add_assign_mixed'):
                fr.store_through(t['args'][0], (n_, fr.deref_operand(t['args'][0]), fr.deref_operand(t['args'][1])))
                return True
            return False
        I = exp.Interp(fx, 'none', extra_transfer=tr)
        res = I.run(p, [('byref', 'SELF'), ('byref', 'OTHER')])
        ok = len(res) == 1 and res[0][2].get(1) == (addnm, 'SELF', ('neg', 'OTHER')) and res[0][2].get(2) == 'OTHER'
        rep.check(ok, 'SHAPE', 'CurveProjective::%s' % nm, 'self - other = %s(self, negate(copy of other)); other untouched' % addnm,
                  'computes %r (other becomes %r)' % (res[0][2].get(1) if res else None, res[0][2].get(2) if res else None), fx.fn(p)['span'], construct=p)


def rule_general_formulas(fx, rep):
    from props import c01gen
    c01gen.rules(fx, rep, GROUPS)


def rules(fx, rep):
    rule_projective_ops(fx, rep)
    rule_sub_defaults(fx, rep)
    rule_general_formulas(fx, rep)


def main(tier, t0):
    return common.standard_main(
        PROP, tier, t0, rules, 'other',
        'Narrow but exact on the exceptional classes the tests miss: all paths of double, add_assign, add_assign_mixed, PartialEq::eq, negate (x2), the two '
        'conversions, is_normalized are enumerated for G1 and G2 with coordinates as symbolic monomials. Decided: identity short-circuits (O+Q=Q, P+O=P, 2O=O, '
        '-O=O), the equal-point test is the representation-independent pair X1 Z2^2 = X2 Z1^2, Y1 Z2^3 = Y2 Z1^3 (resp. the mixed form) and leads to double(), '
        'equality returns true exactly under both tests, conversions give (x,y,1) resp. (X/Z^2, Y/Z^3) with inversion only for Z != 0 and the Z = 1 fast path; '
        'batch normalisation decided for all 40 batches of <= 3 elements over {identity, normalised, general} (monomial domain: general -> (X/Z^2, Y/Z^3, 1), others untouched); '
        'all of these as truth tables over the tested predicates (independent of how the tests are arranged); default sub_assign(_mixed) = add(negate(copy)). General position (RING): '
        'on every path of double / add_assign / add_assign_mixed for two finite operands, (X3/Z3^2, Y3/Z3^3) equals the affine tangent / chord law of (X_i/Z_i^2, Y_i/Z_i^3) as a polynomial '
        'identity in the coordinates (cross-multiplied; the specification is computed from the affine law by fraction arithmetic), and Z3 vanishes where the path is also taken for P + (-P). '
        'NOT decided: the normalisation arithmetic of batch_normalization beyond 3-element batches (uniform loop).',
        ['rustc MIR', 'base-field operation contracts (C08, C09)'],
        ['exceptional cases by truth tables, general position by polynomial identities; both relative to the base-field contracts'])

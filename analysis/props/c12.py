"""C12 -- final exponentiation is f -> f^(3(q^12-1)/r) on every non-zero f.

EXP: abstract interpretation of <Bls12 as Engine>::final_exponentiation (with its nested
exp_by_x) in the exponent domain: conjugation = q^6-power, frobenius_map(c) = q^c-power,
pow(CONST), square, mul_assign, inverse.  GUARD: None exactly on the None arm of inverse().
"""
import exp
import mathlib as M
from props import common

PROP = 'C12'
FE = '<bls12_381::Bls12 as Engine>::final_exponentiation'


def tower_rules(fx, rep):
    """The exponent derivation treats the tower operations (inverse, frobenius_map, conjugate, is_zero of the
    components) by contract; the structural part of those contracts is decided by C09's rules, which are
    therefore necessary conditions here too."""
    from props import c09
    c09.rules(fx, rep)


def rules(fx, rep):
    tower_rules(fx, rep)
    q = M.Q
    N = q**12 - 1
    target = 3 * (N // M.R_ORDER) % N
    assert N % M.R_ORDER == 0
    body = fx.body(FE)
    if body is None:
        rep.fail('EXP', 'anchor:final_exponentiation', 'impl of Engine::final_exponentiation for Bls12 not found')
        return
    rep.fn(FE)
    where = fx.fn(FE)['span']
    # which local helpers belong to the fragment: nested fns of final_exponentiation
    def inline(p):
        import inline as INL
        return p.startswith(FE + '::') or INL.is_private_helper(fx, p)
    import stdmodel
    def tr12(I_, fr, t, c, pth):
        # `v.c1.is_zero()` on an Fq12 value v = f^k says v lies in Fq6, i.e. conj(v) = v: the relation f^(k q^6) = f^k;
        # `v.c0.is_zero()` says conj(v) = -v, of which the (weaker) consequence f^(2k q^6) = f^(2k) is kept
        if c.get('name') == 'is_zero' and c.get('trait') == 'ff::Field' and len(t['args']) == 1 and (c.get('self_ty') or '').endswith('Fq6'):
            pl = fr.ref_place_of(t['args'][0])
            if isinstance(pl, dict):
                root, proj = fr.root_of(pl)
                proj = [e for e in proj if e[0] != 'deref']
                base = fr.store.get(root)
                if isinstance(base, exp.Lin) and len(proj) == 1 and proj[0][0] == 'f' and proj[0][1] in (0, 1) and base.atoms() <= {'f'}:
                    k = 1 if proj[0][1] == 1 else 2
                    fr.storev(t['dest'], ('bool', ('eq', base.scale(k * q**6), base.scale(k), t['span'])))
                    return True
        if c.get('name') in ('eq', 'ne') and c.get('trait') == 'std::cmp::PartialEq' and len(t['args']) == 2:
            # `v.c0 == 1` on a path that has already established v.c1 = 0 (v in Fq6) says v = 1
            for ia, ib in ((0, 1), (1, 0)):
                pl = fr.ref_place_of(t['args'][ia])
                other = fr.deref_operand(t['args'][ib])
                if isinstance(pl, dict) and isinstance(other, exp.Lin) and not other.t:
                    root, proj = fr.root_of(pl)
                    proj = [e for e in proj if e[0] != 'deref']
                    base = fr.store.get(root)
                    if isinstance(base, exp.Lin) and base.atoms() <= {'f'} and len(proj) == 1 and proj[0][0] == 'f' and proj[0][1] == 0:
                        in_fq6 = ('eq', base.scale(q**6), base, None)
                        if pth.decided(in_fq6[:3]) is True or any(isinstance(l[0], tuple) and l[0][:3] == in_fq6[:3] and l[1] != 0 for l in pth.labels):
                            key = ('eq', base, exp.Lin(), t['span'])
                            fr.storev(t['dest'], ('bool', key if c['name'] == 'eq' else ('not', key)))
                            return True
        return stdmodel.result_transfer(I_, fr, t, c, pth)
    I = exp.Interp(fx, 'mul', inline=inline, conj_as=q**6, frob_q=q, extra_transfer=tr12)
    I.fork_inlined = True
    try:
        res = I.run(FE, [('byref', exp.Lin.atom('f'))])
    except (exp.NotDerivable, exp.Budget) as e:
        rep.fail('EXP', 'final_exponentiation:derivable', 'exponent not derivable: %s at %s' % (e, getattr(e, 'where', None)), where)
        return
    rep.sites(I.call_sites)
    for p in fx.fns:
        if inline(p):
            rep.fn(p)
    # GUARD + EXP, decided by value in the two worlds f = 0 and f != 0.  Every branch of the function must be a test whose
    # operands are powers of the input (the Option returned by an inversion, an is_zero test, an equality): in the world
    # f = 0 each such test has a definite outcome, so the paths feasible there are known and must return None; in the world
    # f != 0 an inversion succeeds, is_zero fails, and an equality f^i == f^j that was taken says ord(f) | (i - j), so the
    # path must return Some(f^e') with e' = 3(q^12-1)/r modulo gcd(q^12-1, i - j, ...) -- i.e. a fast path for elements of a
    # subfield may return any power that agrees with the specification on that subfield.
    import tt
    from math import gcd

    def power(v):
        if isinstance(v, exp.Lin) and v.atoms() <= {'f'}:
            return v.coeff('f')
        return None

    def zero_at_0(k):
        # f^k at f = 0: 0 for k > 0, 1 for k = 0; k < 0 only arises behind a successful inversion (infeasible at f = 0)
        return None if k < 0 else k > 0
    n_world = [0, 0]
    n_inv = 0
    general = []
    for pth, ret, outs in res:
        feas0, feas1, mod, undec = True, True, N, None
        for lab, taken in pth.labels:
            x, neg = tt.strip_not(lab)
            truth = (taken != 0) != neg
            kind = x[0] if isinstance(x, tuple) and x else None
            if kind in ('eq', 'ne') and len(x) >= 3 and (x[1] == ('zero',) or x[2] == ('zero',)):
                # a comparison with zero() is the zero test of the other side
                other_ = x[2] if x[1] == ('zero',) else x[1]
                truth = truth if kind == 'eq' else not truth
                x = ('is_zero', other_) + tuple(x[3:])
                kind = 'is_zero'
            if kind in ('inverse', 'is_zero'):
                if kind == 'inverse':
                    ks = set(power(e[1]) for e in pth.events if e[0] == 'inverse-of' and e[2] == x[1])
                    k = ks.pop() if len(ks) == 1 else None
                    nonzero_taken = truth          # Some  <=>  the inverted value is non-zero
                else:
                    k = power(x[1])
                    nonzero_taken = not truth
                if k is None:
                    undec = lab
                    break
                z0 = zero_at_0(k)
                if z0 is None or nonzero_taken == z0:
                    feas0 = False
                if not nonzero_taken:
                    feas1 = False
            elif kind in ('eq', 'ne') and len(x) >= 3:
                i, j = power(x[1]), power(x[2])
                if i is None or j is None:
                    undec = lab
                    break
                equal = truth if kind == 'eq' else not truth
                zi, zj = zero_at_0(i), zero_at_0(j)
                if zi is None or zj is None or equal != (zi == zj):
                    feas0 = False
                if equal:
                    mod = gcd(mod, abs(i - j))
                elif (i - j) % N == 0:
                    feas1 = False
            else:
                undec = lab
                break
        if undec is not None:
            rep.fail('GUARD', 'final_exponentiation:branches-on-powers-of-input', 'a branch tests %r, which is not decided by the input being zero or by a relation between powers of the input' % (undec,), where, construct=FE)
            continue
        invs = [e for e in pth.events if e[0] == 'inverse-of']
        n_inv += len(invs)
        is_none = isinstance(ret, exp.Opt) and ret.tag == 'none'
        is_some = isinstance(ret, exp.Opt) and ret.tag == 'some'
        if feas0:
            n_world[0] += 1
            rep.check(is_none, 'GUARD', 'final_exponentiation:none-for-zero', 'the path taken by f = 0 returns None',
                      'failure is not reported for f = 0: the path %r is taken by f = 0 and returns %r' % ([(k_, t_) for k_, t_, _l in tt.path_literals(pth)], ret), where, construct=FE)
        if feas1:
            n_world[1] += 1
            if not is_some:
                rep.fail('GUARD', 'final_exponentiation:some-for-non-zero', 'failure is reported for a non-zero input: the path %r is feasible for f != 0 and returns %r' % ([(k_, t_) for k_, t_, _l in tt.path_literals(pth)], ret), where, construct=FE)
                continue
            v = ret.payload
            if not isinstance(v, exp.Lin):
                rep.fail('EXP', 'final_exponentiation:exponent', 'result is not a power of the input (TOP): a non-multiplicative or data-dependent operation touches it', where)
                continue
            extra = v.atoms() - {'f'}
            rep.check(not extra, 'EXP', 'final_exponentiation:pure-power',
                      'result is a pure power of the input', 'result also depends on %s' % sorted(extra), where)
            e = v.coeff('f') % N
            if mod == N:
                general.append(e)
                rep.check(e == target, 'EXP', 'final_exponentiation:exponent',
                          'exponent == 3(q^12-1)/r (mod q^12-1), derived over %d call sites' % I.call_sites,
                          'exponent of the result is %#x (mod q^12-1), expected 3(q^12-1)/r = %#x' % (e, target), where)
                # corollaries, on the derived exponent
                rep.check(e * M.R_ORDER % N == 0, 'EXP', 'corollary:maps-into-r-th-roots', 'e*r == 0 mod q^12-1', 'e*r != 0 mod q^12-1', where)
                for d in (1, 2, 3, 4, 6):
                    rep.check(e % (q**d - 1) == 0, 'EXP', 'corollary:subfield-Fq%d-to-1' % d,
                              '(q^%d-1) | e' % d, '(q^%d-1) does not divide e: non-zero elements of F_q^%d are not sent to 1' % (d, d), where)
            else:
                rep.check((e - target) % mod == 0, 'EXP', 'final_exponentiation:exponent-on-special-path',
                          'on a path that assumed f^m = 1 the exponent is 3(q^12-1)/r modulo m',
                          'on the path assuming f^%#x = 1 the exponent of the result is %#x, which differs from 3(q^12-1)/r modulo that order' % (mod, e), where, construct=FE)
        if not feas0 and not feas1 and not (isinstance(ret, tuple) and ret and ret[0] == 'diverges'):
            pass        # infeasible path
        if (feas0 or feas1) and not (is_none or is_some):
            rep.fail('GUARD', 'final_exponentiation:result-shape', 'a feasible path returns something that is neither a definite Some nor None: %r' % (ret,), where, construct=FE)
    rep.check(n_world[0] >= 1 and n_world[1] >= 1 and len(general) >= 1, 'GUARD', 'final_exponentiation:worlds-covered',
              'some path is taken by f = 0, some general path by f != 0', 'paths feasible for f = 0: %d, for f != 0: %d, general: %d' % (n_world[0], n_world[1], len(general)), where)
    rep.floor('GUARD', 'inverse-call', n_inv, 1)


def main(tier, t0):
    return common.standard_main(
        PROP, tier, t0, rules, 'proof',
        'Abstract interpretation of final_exponentiation (and nested exp_by_x) in the exponent domain over resolved '
        'trait-method calls: conjugate = q^6-power, frobenius_map(c) = q^c-power, pow(const), square, mul_assign, inverse; '
        'u64 parameter x by constant propagation (x >>= 1, x <<= 1).  Proves result = f^e with e == 3(q^12-1)/r mod q^12-1 '
        'for every non-zero f (no cyclotomic assumption), None <=> inverse() is None, and the arithmetic corollaries '
        '(r-th roots of unity; (q^d-1) | e for d in 1,2,3,4,6).',
        ['rustc nightly MIR construction and const evaluation',
         'contracts of Fq12 operations: square/mul_assign/inverse/conjugate/frobenius_map/pow compute what their names say (C09, ff::Field::pow)',
         'inverse() returns None exactly for 0'],
        ['exponents are tracked modulo q^12-1, the exact exponent of Fq12^*'])

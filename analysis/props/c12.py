"""C12 -- final exponentiation is f -> f^(3(q^12-1)/r) on every non-zero f.

EXP: abstract interpretation of <Bls12 as Engine>::final_exponentiation (with its nested
exp_by_x) in the exponent domain: conjugation = q^6-power, frobenius_map(c) = q^c-power,
pow(CONST), square, mul_assign, inverse.  GUARD: None exactly on the None arm of inverse().
"""
import exp
import mathlib as M
from props import common

PROP = 'C12'
FE = '<bls12_381::Bls12 as Engine>::final_exponentiation'


def tower_rules(fx, rep):
    """The exponent derivation treats the tower operations (inverse, frobenius_map, conjugate, is_zero of the
    components) by contract; the structural part of those contracts is decided by C09's rules, which are
    therefore necessary conditions here too."""
    from props import c09
    c09.rules(fx, rep)


def rules(fx, rep):
    tower_rules(fx, rep)
    q = M.Q
    N = q**12 - 1
    target = 3 * (N // M.R_ORDER) % N
    assert N % M.R_ORDER == 0
    body = fx.body(FE)
    if body is None:
        rep.fail('EXP', 'anchor:final_exponentiation', 'impl of Engine::final_exponentiation for Bls12 not found')
        return
    rep.fn(FE)
    where = fx.fn(FE)['span']
    # which local helpers belong to the fragment: nested fns of final_exponentiation
    def inline(p):
        import inline as INL
        return p.startswith(FE + '::') or INL.is_private_helper(fx, p)
    import stdmodel
    I = exp.Interp(fx, 'mul', inline=inline, conj_as=q**6, frob_q=q, extra_transfer=stdmodel.result_transfer)
    I.fork_inlined = True
    try:
        res = I.run(FE, [('byref', exp.Lin.atom('f'))])
    except (exp.NotDerivable, exp.Budget) as e:
        rep.fail('EXP', 'final_exponentiation:derivable', 'exponent not derivable: %s at %s' % (e, getattr(e, 'where', None)), where)
        return
    rep.sites(I.call_sites)
    for p in fx.fns:
        if inline(p):
            rep.fn(p)
    some_paths = []
    none_paths = []
    other = []
    for pth, ret, outs in res:
        if isinstance(ret, exp.Opt) and ret.tag == 'some':
            some_paths.append((pth, ret))
        elif isinstance(ret, exp.Opt) and ret.tag == 'none':
            none_paths.append((pth, ret))
        else:
            other.append((pth, ret))
    rep.check(not other, 'GUARD', 'final_exponentiation:result-shape',
              'every path returns an explicit Some(..) or None',
              'a path returns something that is neither a definite Some nor None: %r' % (other[:1],), where)
    # GUARD: the only fork is the Option returned by inverse(); Some exactly when the inversion succeeded
    import tt
    ok = True
    detail = []
    for kind, paths, want in (('Some', some_paths, True), ('None', none_paths, False)):
        for pth, ret in paths:
            lits = [(k_, t_) for k_, t_, _l in tt.path_literals(pth)]
            if not (len(lits) == 1 and lits[0][0] and lits[0][0][0] == 'inverse' and lits[0][1] == want):
                ok = False
                detail.append('%s returned on path %r' % (kind, lits))
    rep.check(ok and len(some_paths) == 1 and len(none_paths) == 1, 'GUARD', 'final_exponentiation:none-iff-inverse-none',
              'exactly two paths: inverse()==None -> None, inverse()==Some -> Some',
              'failure is not reported exactly when the inversion fails: %s (some=%d none=%d)' % ('; '.join(detail), len(some_paths), len(none_paths)), where)
    # the inverted value must be the input itself (so that "fails" means f == 0)
    inv_events = [e for pth, _ in some_paths for e in pth.events]
    for pth, ret in some_paths:
        v = ret.payload
        if not isinstance(v, exp.Lin):
            rep.fail('EXP', 'final_exponentiation:exponent', 'result is not a power of the input (TOP): a non-multiplicative or data-dependent operation touches it', where)
            continue
        extra = v.atoms() - {'f'}
        rep.check(not extra, 'EXP', 'final_exponentiation:pure-power',
                  'result is a pure power of the input', 'result also depends on %s' % sorted(extra), where)
        e = v.coeff('f') % N
        rep.check(e == target, 'EXP', 'final_exponentiation:exponent',
                  'exponent == 3(q^12-1)/r (mod q^12-1), derived over %d call sites' % I.call_sites,
                  'exponent of the result is %#x (mod q^12-1), expected 3(q^12-1)/r = %#x' % (e, target), where)
        # corollaries, on the derived exponent
        rep.check(e * M.R_ORDER % N == 0, 'EXP', 'corollary:maps-into-r-th-roots', 'e*r == 0 mod q^12-1', 'e*r != 0 mod q^12-1', where)
        for d in (1, 2, 3, 4, 6):
            rep.check(e % (q**d - 1) == 0, 'EXP', 'corollary:subfield-Fq%d-to-1' % d,
                      '(q^%d-1) | e' % d, '(q^%d-1) does not divide e: non-zero elements of F_q^%d are not sent to 1' % (d, d), where)
    # what does inverse() get applied to?  It must be the input itself (so that "fails" means f == 0), on every path
    n_inv = 0
    for pth, ret, outs in res:
        invs = [e for e in pth.events if e[0] == 'inverse-of']
        n_inv += len(invs)
        for e in invs:
            good = isinstance(e[1], exp.Lin) and e[1] == exp.Lin.atom('f')
            rep.check(good, 'GUARD', 'final_exponentiation:inverse-of-input',
                      'inverse() is applied to the input itself', 'inverse() is applied to %r, not to the input' % (e[1],), e[2])
        if len(invs) != 1:
            rep.fail('GUARD', 'final_exponentiation:inverse-of-input', '%d inversions on a path (expected exactly one, of the input)' % len(invs), where)
    rep.floor('GUARD', 'inverse-call', n_inv, 1)


def main(tier, t0):
    return common.standard_main(
        PROP, tier, t0, rules, 'proof',
        'Abstract interpretation of final_exponentiation (and nested exp_by_x) in the exponent domain over resolved '
        'trait-method calls: conjugate = q^6-power, frobenius_map(c) = q^c-power, pow(const), square, mul_assign, inverse; '
        'u64 parameter x by constant propagation (x >>= 1, x <<= 1).  Proves result = f^e with e == 3(q^12-1)/r mod q^12-1 '
        'for every non-zero f (no cyclotomic assumption), None <=> inverse() is None, and the arithmetic corollaries '
        '(r-th roots of unity; (q^d-1) | e for d in 1,2,3,4,6).',
        ['rustc nightly MIR construction and const evaluation',
         'contracts of Fq12 operations: square/mul_assign/inverse/conjugate/frobenius_map/pow compute what their names say (C09, ff::Field::pow)',
         'inverse() returns None exactly for 0'],
        ['exponents are tracked modulo q^12-1, the exact exponent of Fq12^*'])

"""C02 -- scalar multiplication paths."""
import roles
import exp
from exp import Agg, Int, Lin, TOP
from facts import callee, op_place
from mirutil import Resolver
from props import common
from wire import Origin, strip, term_str
import bitlin

PROP = 'C02'
GROUPS = [('G1', 'bls12_381::ec::g1::G1', 'bls12_381::ec::g1::G1Affine'), ('G2', 'bls12_381::ec::g2::G2', 'bls12_381::ec::g2::G2Affine')]


def returned_ints(fx, path, args):
    I = exp.Interp(fx, 'none', max_paths=128)
    res = I.run(path, args)
    vals = []
    for pth, ret, _ in res:
        vals.append(ret.v if isinstance(ret, Int) else None)
    return vals, I.call_sites


def rule_window_ranges(fx, rep):
    for g, proj, aff in GROUPS:
        for nm in ('recommended_wnaf_for_scalar', 'recommended_wnaf_for_num_scalars'):
            p = fx.impl_method('CurveProjective', proj, nm)
            b = fx.body(p) if p else None
            if b is None:
                rep.fail('RANGE', '%s:%s:anchor' % (g, nm), 'not found')
                continue
            rep.fn(p)
            # the trait method forwards to one local helper: analyse that helper
            cs = [callee(t) for _, t in b.calls()]
            o = Origin(b)
            r0 = strip(o.local(0))
            if not (len(cs) == 1 and cs[0].get('res_local') and r0[0] == 'call' and r0[1] is cs[0] or (len(cs) == 1 and r0[0] == 'call')):
                rep.fail('RANGE', '%s:%s' % (g, nm), 'does not simply forward to one helper', fx.fn(p)['span'], construct=p)
                continue
            helper = cs[0].get('res') or cs[0]['def']
            rep.fn(helper)
            try:
                I = exp.Interp(fx, 'none', max_paths=128)
                res = I.run(helper, [TOP])
                rep.sites(I.call_sites)
                vals = [ret.v if isinstance(ret, Int) else None for _, ret, _ in res]
            except (exp.NotDerivable, exp.Budget) as e:
                rep.fail('RANGE', '%s:%s' % (g, nm), 'not derivable: %s' % e, fx.fn(p)['span'])
                continue
            ok = vals and all(v is not None and 2 <= v <= 22 for v in vals)
            rep.check(ok, 'RANGE', '%s:%s' % (g, nm), 'every return value is in 2..=22: %s' % sorted(set(vals)),
                      'can return %s (documented range of wNAF windows is 2..=22)' % sorted(set(v for v in vals if v is None or not 2 <= v <= 22), key=str), fx.fn(p)['span'], construct=p)


def rule_buffers(fx, rep):
    W = roles.roles(fx)['wnaf']
    for role in ('table', 'form'):
        fn = W.get(role)
        b = fx.body(fn)
        if b is None:
            rep.fail('TS', 'wnaf-%s:anchor' % role, 'the Wnaf context methods call no %s-building helper' % role)
            continue
        rep.fn(fn)
        r = Resolver(b)
        uses = []
        for bi, t in b.calls():
            for k, a in enumerate(t['args']):
                ref = r.operand_referent(a)
                p = op_place(a)
                hit = (ref is not None and ref[0] == 'place' and ref[1]['l'] == 1) or (p is not None and p['l'] == 1)
                if hit:
                    uses.append((bi, t, k))
        clears = [(bi, t) for bi, t, k in uses if (callee(t) or {}).get('name') in ('truncate', 'clear') and k == 0
                  and ((callee(t)['name'] == 'clear') or (r.operand_int(t['args'][1]) == 0))]
        ok = len(clears) >= 1 and all(b.dominates(clears[0][0], bi) for bi, t, k in uses)
        rets = [rb for rb in b.return_blocks() if rb in b.reachable()]
        skip = [rb for rb in rets if not (clears and b.dominates(clears[0][0], rb))]
        why = 'the buffer parameter is used before / without being emptied: a reused wNAF context keeps stale entries'
        if ok and skip:
            ok = False
            why = 'a return (%s) is reachable without emptying the buffer: on that path a reused wNAF context keeps the previous call\'s entries' % ', '.join(
                str(b.blocks[rb]['term'].get('span')) for rb in skip)
        rep.check(ok, 'TS', '%s:buffer-cleared-first' % fn, 'the output buffer is emptied before any other use and on every path to a return (reuse == fresh context)',
                  why, fx.fn(fn)['span'], construct=fn)
    # wnaf_form: the scalar is updated only through full-width repr operations
    b = fx.body(W.get('form'))
    if b is not None:
        r = Resolver(b)
        bad = []
        allowed = {'sub_noborrow', 'add_nocarry', 'div2', 'shr', 'mul2', 'shl'}
        for bi, t in b.calls():
            c = callee(t)
            for k, a in enumerate(t['args']):
                p = op_place(a)
                if p is None or p['p']:
                    continue
                ty = b.local_ty(p['l'])
                ref = r.operand_referent(a)
                if ty.startswith('&mut') and ref is not None and ref[0] == 'place' and ref[1]['l'] == 2:
                    nm = (c or {}).get('name')
                    if not (c and c.get('trait') == 'ff::PrimeFieldRepr' and nm in allowed):
                        bad.append('%s at %s' % ((c or {}).get('res') or (c or {}).get('def'), t['span']))
        # direct limb stores into c
        for w in r.d.partial[2]:
            bad.append('direct store into the scalar at %s' % (w[3]['span'] if w[0] == 'assign' else '?'))
        rep.check(not bad, 'WIRE', 'wnaf_form:full-width-updates', 'the scalar is only updated by sub_noborrow / add_nocarry / div2 (all limbs, carries propagated)',
                  'the multi-limb scalar is modified through %s: a carry/borrow out of one limb is lost' % '; '.join(bad), fx.fn(W['form'])['span'], construct=W['form'])


def field_of_param(t, idx_param=1):
    """Name/index of the field of *param1 a term designates (through refs and AsMut/AsRef)."""
    for _ in range(8):
        t = strip(t)
        if t[0] == 'call' and t[1] and t[1].get('name') in ('as_mut', 'as_ref', 'index', 'deref', 'deref_mut') and t[2]:
            t = t[2][0]
        else:
            break
    t = strip(t)
    if t[0] == 'proj' and strip(t[1]) == ('param', idx_param):
        fs = [e[1] for e in t[2] if e[0] == 'f']
        return fs[0] if len(fs) == 1 else None
    return None


def rule_staging(fx, rep):
    # field order of Wnaf { base, scalar, window_size }
    a = fx.adts.get('wnaf::Wnaf')
    if a is None:
        rep.fail('WIRE', 'Wnaf:anchor', 'wnaf::Wnaf not found')
        return
    names = [f['name'] for f in a['variants'][0]['fields']]
    BASE, SCALAR, WIN = names.index('base'), names.index('scalar'), names.index('window_size')
    n = 0
    for p, f in fx.fns.items():
        if not p.startswith('wnaf::Wnaf::<') or 'mir' not in f:
            continue
        nm = f['name']
        b = fx.body(p)
        o = Origin(b)
        rep.fn(p)
        calls = {}
        for bi, t in b.calls():
            c = callee(t)
            if c:
                calls.setdefault((c.get('res') or c['def']), []).append(t)
        where = f['span']
        if nm == 'new':
            continue
        n += 1
        W = roles.roles(fx)['wnaf']
        tbl = calls.get(W.get('table'), [])
        frm = calls.get(W.get('form'), [])
        ex = calls.get(W.get('exp'), [])
        if nm == 'shared':
            t = o.local(0)
            ok = t[0] == 'agg' and t[1].get('adt') == 'wnaf::Wnaf'
            if ok:
                w = strip(t[2][WIN])
                ok = w[0] == 'proj' and strip(w[1]) == ('param', 1) and [e[1] for e in w[2] if e[0] == 'f'] == [WIN]
            rep.check(ok, 'WIRE', 'Wnaf::shared:%s' % f['impl_self_ty'][:40], 'window size copied unchanged', 'shared() does not copy window_size', where, construct=p)
            continue
        staged_first = f['impl_self_ty'].startswith('wnaf::Wnaf<()')
        if staged_first:
            # computes the window with the recommendation, fills one buffer with it, returns it in the context
            t = o.local(0)
            ok = t[0] == 'agg' and t[1].get('adt') == 'wnaf::Wnaf'
            why = 'does not return a Wnaf'
            if ok:
                w = strip(t[2][WIN])
                rec = 'recommended_wnaf_for_num_scalars' if nm == 'base' else 'recommended_wnaf_for_scalar'
                ok = w[0] == 'call' and w[1].get('name') == rec
                why = 'window comes from %s' % term_str(w)
                fill = tbl if nm == 'base' else frm
                if ok:
                    ok = len(fill) == 1 and strip(o.operand(fill[0]['args'][2])) == w
                    why = 'the fill routine does not receive the same window value'
                if ok:
                    fld = field_of_param(o.operand(fill[0]['args'][0]))
                    ok = fld == (BASE if nm == 'base' else SCALAR)
                    why = 'fills field %r' % fld
                if ok:
                    fb_ = next(bi for bi, tt in b.calls() if tt is fill[0])
                    ok = all(b.dominates(fb_, rb) for rb in b.return_blocks())
                    why = 'the buffer is not refilled on every path (the result would depend on what an earlier call left in the context)'
                if ok:
                    # the returned context borrows the same two buffers
                    fb = field_of_param(t[2][BASE])
                    fs = field_of_param(t[2][SCALAR])
                    ok = fb == BASE and fs == SCALAR
                    why = 'returned context borrows fields %r/%r' % (fb, fs)
            rep.check(ok, 'WIRE', 'Wnaf::%s(stage 1)' % nm, 'window = recommendation; filled buffer and returned context use that same window and the context\'s own buffers', why, where, construct=p)
        else:
            fill = tbl if nm == 'base' else frm
            ok = len(fill) == 1 and len(ex) == 1
            why = 'fill=%d exp=%d' % (len(fill), len(ex))
            if ok:
                w = strip(o.operand(fill[0]['args'][2]))
                ok = w[0] == 'proj' and strip(w[1]) == ('param', 1) and [e[1] for e in w[2] if e[0] == 'f'] == [WIN]
                why = 'window passed to the fill routine is %s, not the context\'s window_size' % term_str(w)
            if ok:
                fld = field_of_param(o.operand(fill[0]['args'][0]))
                ok = fld == (BASE if nm == 'base' else SCALAR)
                why = 'fills field %r' % fld
            if ok:
                e0 = field_of_param(o.operand(ex[0]['args'][0]))
                e1 = field_of_param(o.operand(ex[0]['args'][1]))
                ok = e0 == BASE and e1 == SCALAR
                why = 'wnaf_exp receives fields %r, %r (expected table, digits)' % (e0, e1)
            if ok:
                r0 = strip(o.local(0))
                ok = r0[0] == 'call' and (r0[1].get('res') or '') == W.get('exp')
                why = 'result is not wnaf_exp(..)'
            if ok:
                fb_ = next(bi for bi, tt in b.calls() if tt is fill[0])
                eb_ = next(bi for bi, tt in b.calls() if tt is ex[0])
                ok = b.dominates(fb_, eb_) and all(b.dominates(eb_, rb) for rb in b.return_blocks())
                why = 'the buffer is not refilled on every path before wnaf_exp (history dependence)'
            rep.check(ok, 'WIRE', 'Wnaf::%s(stage 2)' % nm, 'fills the other buffer with the stored window, then wnaf_exp(table, digits)', why, where, construct=p)
    rep.floor('WIRE', 'wnaf-context-methods', n, 6)


def rules(fx, rep):
    rule_window_ranges(fx, rep)
    rule_buffers(fx, rep)
    rule_staging(fx, rep)
    bitlin.rule_scalar_mul(fx, rep, GROUPS)
    bitlin.rule_projective_mul(fx, rep, GROUPS)
    bitlin.rule_wnaf_table(fx, rep)
    bitlin.rule_wnaf_exp(fx, rep)


def main(tier, t0):
    return common.standard_main(
        PROP, tier, t0, rules, 'other',
        'Decided for ALL 256-bit scalars (bit-provenance + linear-form abstract interpretation, if-conversion on scalar bits, counted loops): CurveAffine::mul / mul_bits, '
        'projective mul_assign (found_one tracked as an OR of bits), mul_precomp_3, mul_precomp_256 return sum_n 2^n b_n P given the table contracts; precomp_3 / precomp_256 '
        'establish the contracts from arbitrary buffers. wNAF: wnaf_table = odd multiples for w = 2..8 whatever the buffer held; wnaf_exp = sum_j 2^j n_j P for digit strings of '
        'length <= 3 with symbolic odd digits; buffers emptied first and refilled on every path; staged API threads one window and its own buffers; wnaf_form updates the scalar '
        'with full-width operations only; recommended windows in 2..=22 on all paths. NOT decided: wnaf_form recoding arithmetic; wnaf_exp beyond 3 digits (no induction).',
        ['rustc MIR', 'group-operation contracts (C01)', 'BitIterator yields bits most-significant first (ff crate)'],
        ['plain and table-driven paths decided for all 2^256 scalars; wNAF evaluation bounded in digit count; recoding not decided'])

"""C02 -- scalar multiplication paths."""
import roles
import inline as INL
import exp
from exp import Agg, Int, Lin, TOP
from facts import callee, op_place
from mirutil import Resolver
from props import common
from wire import Origin, strip, term_str
import bitlin

PROP = 'C02'
GROUPS = [('G1', 'bls12_381::ec::g1::G1', 'bls12_381::ec::g1::G1Affine'), ('G2', 'bls12_381::ec::g2::G2', 'bls12_381::ec::g2::G2Affine')]


def returned_ints(fx, path, args):
    I = exp.Interp(fx, 'none', max_paths=128)
    res = I.run(path, args)
    vals = []
    for pth, ret, _ in res:
        vals.append(ret.v if isinstance(ret, Int) else None)
    return vals, I.call_sites


def rule_window_ranges(fx, rep):
    for g, proj, aff in GROUPS:
        for nm in ('recommended_wnaf_for_scalar', 'recommended_wnaf_for_num_scalars'):
            p = fx.impl_method('CurveProjective', proj, nm)
            b = fx.body(p) if p else None
            if b is None:
                rep.fail('RANGE', '%s:%s:anchor' % (g, nm), 'not found')
                continue
            rep.fn(p)
            # the trait method with whatever local helpers it forwards to inlined
            try:
                I = exp.Interp(fx, 'none', max_paths=128, inline=lambda q: INL.is_private_helper(fx, q))
                I.fork_inlined = True
                res = I.run(p, [TOP])
                rep.sites(I.call_sites)
                res = [x for x in res if not (isinstance(x[1], tuple) and x[1] and x[1][0] == 'diverges')]
                vals = [ret.v if isinstance(ret, Int) else None for _, ret, _ in res]
            except (exp.NotDerivable, exp.Budget) as e:
                rep.fail('RANGE', '%s:%s' % (g, nm), 'not derivable: %s' % e, fx.fn(p)['span'])
                continue
            ok = vals and all(v is not None and 2 <= v <= 22 for v in vals)
            rep.check(ok, 'RANGE', '%s:%s' % (g, nm), 'every return value is in 2..=22: %s' % sorted(set(vals)),
                      'can return %s (documented range of wNAF windows is 2..=22)' % sorted(set(v for v in vals if v is None or not 2 <= v <= 22), key=str), fx.fn(p)['span'], construct=p)


def rule_buffers(fx, rep):
    W = roles.roles(fx)['wnaf']
    for role in ('table', 'form'):
        fn = W.get(role)
        b = fx.body(fn)
        if b is None:
            rep.fail('TS', 'wnaf-%s:anchor' % role, 'the Wnaf context methods call no %s-building helper' % role)
            continue
        rep.fn(fn)
        ok, why = buffer_emptied(fx, b)
        rep.check(ok, 'TS', '%s:buffer-cleared-first' % fn, 'forward must-dataflow on the output buffer: it has been emptied (clear / truncate(0) / drain(..) / overwritten by a fresh vector) '
                  'on every path to a return and before any of its elements is read (reuse == fresh context)',
                  why, fx.fn(fn)['span'], construct=fn)
    # wnaf_form: the scalar is updated only through full-width repr operations
    b = fx.body(W.get('form'))
    if b is not None:
        # normal form: private helpers the recoding was factored into are inlined (with reference parameters forwarded)
        b = INL.inlined(fx, W.get('form'), lambda q: INL.is_private_helper(fx, q)) or b
        r = Resolver(b)
        bad = []
        allowed = {'sub_noborrow', 'add_nocarry', 'div2', 'shr', 'mul2', 'shl'}
        for bi, t in b.calls():
            c = callee(t)
            for k, a in enumerate(t['args']):
                p = op_place(a)
                if p is None or p['p']:
                    continue
                ty = b.local_ty(p['l'])
                ref = r.operand_referent(a)
                if ty.startswith('&mut') and ref is not None and ref[0] == 'place' and ref[1]['l'] == 2:
                    nm = (c or {}).get('name')
                    if not (c and c.get('trait') == 'ff::PrimeFieldRepr' and nm in allowed):
                        bad.append('%s at %s' % ((c or {}).get('res') or (c or {}).get('def'), t['span']))
        # direct limb stores into c
        for w in r.d.partial[2]:
            bad.append('direct store into the scalar at %s' % (w[3]['span'] if w[0] == 'assign' else '?'))
        rep.check(not bad, 'WIRE', 'wnaf_form:full-width-updates', 'the scalar is only updated by sub_noborrow / add_nocarry / div2 (all limbs, carries propagated)',
                  'the multi-limb scalar is modified through %s: a carry/borrow out of one limb is lost' % '; '.join(bad), fx.fn(W['form'])['span'], construct=W['form'])


NEUTRAL_BUF = {'len', 'capacity', 'is_empty', 'reserve', 'reserve_exact', 'shrink_to_fit', 'shrink_to', 'try_reserve'}
WRITE_BUF = {'push', 'extend', 'extend_from_slice', 'insert', 'append', 'resize', 'resize_with', 'push_within_capacity'}


def buffer_emptied(fx, body0):
    """Typestate of the caller-provided output buffer (parameter 1), decided as a forward must-analysis over the CFG of the
    body with its private helpers inlined: state 'emptied' is established by clear / truncate(0) / drain(..) / mem::take /
    a whole overwrite, kept by writes and neutral queries, and required at every return and at every other use (which may
    read stale elements)."""
    import inline as INL
    b = INL.inlined(fx, body0.path, lambda q: INL.is_private_helper(fx, q)) or body0
    r = Resolver(b)

    def refers(a):
        ref = r.operand_referent(a)
        p = op_place(a)
        return (ref is not None and ref[0] == 'place' and ref[1]['l'] == 1) or (p is not None and p['l'] == 1)
    ev = {}          # block -> list of ('clean' | 'keep' | 'read', span)
    for bi in sorted(b.reachable()):
        blk = b.blocks[bi]
        lst = []
        for st in blk['stmts']:
            if st['k'] == 'assign' and st['place']['l'] == 1 and st['place']['p'] == [['deref']]:
                lst.append(('clean', st['span']))          # *buf = <new value>
        t = blk['term']
        if t['k'] == 'call':
            c = callee(t) or {}
            nm = c.get('name')
            d = c.get('res') or c.get('def') or ''
            for k, a in enumerate(t['args']):
                if not refers(a):
                    continue
                isvec = 'std::vec::Vec' in d
                if isvec and k == 0 and (nm == 'clear' or (nm == 'truncate' and r.operand_int(t['args'][1]) == 0)):
                    lst.append(('clean', t['span']))
                elif isvec and k == 0 and nm == 'drain' and b.local_ty(op_place(t['args'][1])['l'] if op_place(t['args'][1]) else 0).endswith('RangeFull'):
                    lst.append(('clean', t['span']))
                elif d.startswith('std::mem::take') or (d.startswith('std::mem::replace') and k == 0):
                    lst.append(('clean', t['span']))
                elif isvec and k == 0 and nm in NEUTRAL_BUF | WRITE_BUF:
                    lst.append(('keep', t['span']))
                else:
                    lst.append(('read', t['span'], d))
        ev[bi] = lst
    # forward must-analysis
    reach = sorted(b.reachable())
    IN = {bi: True for bi in reach}
    IN[0] = False
    OUT = {}
    changed = True
    while changed:
        changed = False
        for bi in reach:
            if bi != 0:
                preds = [p_ for p_ in b.pred[bi] if p_ in OUT]
                v = all(OUT[p_] for p_ in preds) if preds else True
            else:
                v = False
            st = v
            for e in ev[bi]:
                if e[0] == 'clean':
                    st = True
            if IN.get(bi) != v or OUT.get(bi) != st:
                IN[bi], OUT[bi] = v, st
                changed = True
    n_clean = sum(1 for l_ in ev.values() for e in l_ if e[0] == 'clean')
    if not n_clean:
        return False, 'the buffer parameter is never emptied: a reused wNAF context keeps stale entries'
    for bi in reach:
        st = IN[bi]
        for e in ev[bi]:
            if e[0] == 'clean':
                st = True
            elif e[0] == 'read' and not st:
                return False, 'the buffer parameter is used (%s at %s) before / without being emptied: a reused wNAF context keeps stale entries' % (e[2], e[1])
        if b.blocks[bi]['term']['k'] == 'return' and not st:
            return False, 'a return (%s) is reachable without emptying the buffer: on that path a reused wNAF context keeps the previous call\'s entries' % b.blocks[bi]['term'].get('span')
    return True, ''


def field_of_param(t, idx_param=1):
    """Name/index of the field of *param1 a term designates (through refs and AsMut/AsRef)."""
    for _ in range(8):
        t = strip(t)
        if t[0] == 'call' and t[1] and t[1].get('name') in ('as_mut', 'as_ref', 'index', 'deref', 'deref_mut') and t[2]:
            t = t[2][0]
        else:
            break
    t = strip(t)
    if t[0] == 'proj' and strip(t[1]) == ('param', idx_param):
        fs = [e[1] for e in t[2] if e[0] == 'f']
        return fs[0] if len(fs) == 1 else None
    return None


def rule_staging(fx, rep):
    """The staged wNAF API, interpreted with the three helpers as uninterpreted constructors and both buffers holding
    junk from an earlier use: stage 1 fills its buffer with (argument, recommended window) and hands out a context
    that refers to the same two buffers and that same window; stage 2 fills the other buffer with the stored window and
    evaluates wnaf_exp(table, digits) on the context's own buffers; shared() keeps the window.  Whatever the body looks
    like, nothing of the junk may survive in what is used."""
    import exp
    from exp import Agg, Int, Ref, TOP
    a = fx.adts.get('wnaf::Wnaf')
    if a is None:
        rep.fail('WIRE', 'Wnaf:anchor', 'wnaf::Wnaf not found')
        return
    names = [f['name'] for f in a['variants'][0]['fields']]
    BASE, SCALAR, WIN = names.index('base'), names.index('scalar'), names.index('window_size')
    W = roles.roles(fx)['wnaf']
    n = 0

    def deep(fr, v, depth=0):
        for _ in range(8):
            if isinstance(v, Ref):
                v = fr._project(fr.store.get(v.root, TOP), v.proj)
            else:
                break
        return v

    def where_ref(v):
        """Which field of the context (param 1) a reference designates: ('self', field) or None."""
        if isinstance(v, Ref) and v.root == ('*', 1):
            fs = [e[1] for e in v.proj if e[0] == 'f']
            return ('self', fs[0]) if fs else ('self', None)
        return None

    for p, f in sorted(fx.fns.items()):
        if not p.startswith('wnaf::Wnaf::<') or 'mir' not in f or '{closure' in p or not f.get('name'):
            continue        # (closures written inside the methods are interpreted with them)
        nm = f['name']
        if nm == 'new':
            continue
        rep.fn(p)
        n += 1
        where = f['span']
        staged_first = f['impl_self_ty'].startswith('wnaf::Wnaf<()')

        def tr(I, fr, t, c, pth):
            r_ = c.get('res') or c['def']
            args = t['args']
            if r_ == W.get('table') or r_ == W.get('form'):
                kind = 'table' if r_ == W.get('table') else 'digits'
                fr.store_through(args[0], (kind, fr.operand(args[1]), fr.operand(args[2])))
                pth.events.append((kind, where_ref(fr.operand(args[0])) or where_ref_of(fr, args[0])))
                fr.storev(t['dest'], Agg([]))
                return True
            if r_ == W.get('exp'):
                fr.storev(t['dest'], ('exp', deep(fr, fr.operand(args[0])), deep(fr, fr.operand(args[1]))))
                return True
            if c.get('name') in ('recommended_wnaf_for_num_scalars', 'recommended_wnaf_for_scalar'):
                fr.storev(t['dest'], ('rec', c['name'], fr.operand(args[0])))
                return True
            # ---- the buffer invariant (it is empty or a table built by wnaf_table: established by these very rules, by
            # induction over the methods) lets a method look at what the buffer holds: a table has 2^(w-1) entries and
            # starts with its base, coordinate for coordinate
            if c.get('name') in ('len', 'is_empty') and len(args) == 1:
                v_ = deep(fr, fr.operand(args[0]))
                if isinstance(v_, tuple) and len(v_) == 3 and v_[0] == 'table':
                    fr.storev(t['dest'], ('tlen', v_[2]) if c['name'] == 'len' else Int(0, 1))
                    return True
                if isinstance(v_, Agg) and not v_.items:
                    fr.storev(t['dest'], Int(0) if c['name'] == 'len' else Int(1, 1))
                    return True
            if c.get('name') in ('index', 'first', 'get') and len(args) >= 1:
                v_ = deep(fr, fr.operand(args[0]))
                ix_ = fr.operand(args[1]) if len(args) > 1 else Int(0)
                if isinstance(v_, tuple) and len(v_) == 3 and v_[0] == 'table' and isinstance(ix_, Int) and ix_.v == 0:
                    e0 = ('entry0', v_[1])
                    fr.storev(t['dest'], e0 if c['name'] == 'index' else exp.Opt('some', e0))
                    return True
            if c.get('name') == 'as_tuple' and c.get('trait') in ('CurveProjective', 'CurveAffine') and len(args) == 1:
                v_ = deep(fr, fr.operand(args[0]))
                if v_ is TOP:
                    v_ = fr.deref_operand(args[0])
                if isinstance(v_, (str, tuple)):
                    fr.storev(t['dest'], ('coords', v_[1] if isinstance(v_, tuple) and v_ and v_[0] == 'entry0' else v_))
                    return True
            if c.get('trait') == 'std::cmp::PartialEq' and c.get('name') in ('eq', 'ne') and len(args) == 2:
                a_, b_ = deep(fr, fr.deref_operand(args[0])), deep(fr, fr.deref_operand(args[1]))
                both_coords = all(isinstance(x_, tuple) and len(x_) == 2 and x_[0] == 'coords' for x_ in (a_, b_))
                both_points = all(isinstance(x_, str) or (isinstance(x_, tuple) and x_ and x_[0] == 'entry0') for x_ in (a_, b_))
                if both_coords:
                    key = ('same-coords',) + tuple(sorted([repr(a_[1]), repr(b_[1])]))
                    fr.storev(t['dest'], ('bool', key if c['name'] == 'eq' else ('not', key)))
                    return True
                if both_points:
                    # equality as points does not determine the table (it is built from the coordinates)
                    key = ('same-point',) + tuple(sorted([repr(a_), repr(b_)]))
                    fr.storev(t['dest'], ('bool', key if c['name'] == 'eq' else ('not', key)))
                    return True
            if c.get('name') in ('index', 'index_mut', 'deref', 'deref_mut', 'as_slice', 'as_mut_slice') and 'std::vec::Vec' in r_:
                # a full view of one of the context's buffers is that buffer
                import stdmodel
                rp = stdmodel.ref_of(fr, args[0])
                full = len(args) == 1
                if len(args) == 2:
                    from facts import op_place as _opl
                    pl_ = _opl(args[1])
                    full = pl_ is not None and not pl_['p'] and fr.body.local_ty(pl_['l']).endswith('RangeFull')
                if rp is not None and full:
                    fr.storev(t['dest'], Ref(rp[0], rp[1]))
                    return True
                return False
            if c.get('name') in ('as_mut', 'as_ref') and c.get('trait') in ('std::convert::AsMut', 'std::convert::AsRef'):
                # generic B / S: the context's own field, viewed as the buffer
                v = fr.operand(args[0])
                if isinstance(v, Ref):
                    fr.storev(t['dest'], v)
                    return True
            return False

        def where_ref_of(fr, op):
            import stdmodel
            rp = stdmodel.ref_of(fr, op)
            return where_ref(Ref(rp[0], rp[1])) if rp is not None else None
        def wbin(op, a_, b_):
            # sizes of tables as functions of the window: 1 << (w - 1)
            if b_ is None:
                return None
            if op in ('Sub', 'SubUnchecked', 'SubWithOverflow') and isinstance(a_, tuple) and a_ and a_[0] in ('rec', 'stored-window') and isinstance(b_, Int) and b_.v == 1:
                r_ = ('dec', a_)
                return Agg([r_, Int(0, 1)]) if op == 'SubWithOverflow' else r_
            if op in ('Shl', 'ShlUnchecked') and isinstance(a_, Int) and a_.v == 1 and isinstance(b_, tuple) and b_ and b_[0] == 'dec':
                return ('tlen', b_[1])
            if op in ('Eq', 'Ne'):
                ta = a_[1] if isinstance(a_, tuple) and a_ and a_[0] == 'tlen' else None
                tb = b_[1] if isinstance(b_, tuple) and b_ and b_[0] == 'tlen' else None
                if ta is not None and tb is not None:
                    if ta == tb:
                        return Int(1 if op == 'Eq' else 0, 1)
                    key = ('same-window',) + tuple(sorted([repr(ta), repr(tb)]))
                    return ('bool', key if op == 'Eq' else ('not', key))
                if (ta is not None and isinstance(b_, Int) and b_.v == 0) or (tb is not None and isinstance(a_, Int) and a_.v == 0):
                    return Int(0 if op == 'Eq' else 1, 1)       # a table is never empty
            if op in ('Lt', 'Le', 'Gt', 'Ge') and (isinstance(a_, tuple) and a_ and a_[0] in ('tlen', 'dec', 'rec') or isinstance(b_, tuple) and b_ and b_[0] in ('tlen', 'dec', 'rec')):
                return None
            return None
        # entry worlds of the table buffer: for stage-1 base the invariant worlds (empty; a table of some base and some
        # window), so that a method may inspect the buffer; junk for everything else
        if staged_first and nm == 'base':
            worlds = [('empty', Agg([], ('vec', 'Vec'))), ('table', ('table', 'B0', ('stored-window', 'W0')))]
        else:
            worlds = [('junk', 'OLD_TABLE')]
        res = []
        failed = False
        for wname, old_table in worlds:
            items = [None, None, None]
            items[BASE], items[SCALAR], items[WIN] = old_table, 'OLD_DIGITS', ('stored-window',)
            ctx = Agg(items, ('wnaf::Wnaf', 'Wnaf'))
            I = exp.Interp(fx, 'none', extra_transfer=tr)
            I.binop_hook = wbin
            args = [('byref', ctx)] + (['ARG', 'N'] if (staged_first and nm == 'base') else (['ARG'] if nm != 'shared' else []))
            try:
                res_w = I.run(p, args)
            except (exp.NotDerivable, exp.Budget) as e:
                rep.fail('WIRE', 'Wnaf::%s' % nm, 'not derivable: %s' % e, where, construct=p)
                failed = True
                break
            rep.sites(I.call_sites)
            res += [(r_[0], r_[1], r_[2], wname, old_table) for r_ in res_w if not (isinstance(r_[1], tuple) and r_[1] and r_[1][0] == 'diverges')]
        if failed:
            continue
        bad = []
        if len(res) != len(worlds) and not (staged_first and nm == 'base'):
            bad.append('%d paths' % len(res))
        import tt as TT_
        for pth, ret, outs, wname, old_table in res:
            selfv = outs.get(1)
            if staged_first and nm == 'base' and isinstance(selfv, Agg) and selfv.items[BASE] == old_table and wname == 'table':
                # the buffer was left as found: it is the required table when the path established that its length is
                # that of a table for the window used and that its first entry has the coordinates of the argument
                lits = dict((k_, t_) for k_, t_, _l in TT_.path_literals(pth))
                rec_ = ('rec', 'recommended_wnaf_for_num_scalars', 'N')
                kw = ('same-window',) + tuple(sorted([repr(old_table[2]), repr(rec_)]))
                kc = ('same-coords',) + tuple(sorted([repr('B0'), repr('ARG')]))
                if lits.get(kw) is True and lits.get(kc) is True:
                    selfv = Agg([(('table', 'ARG', rec_) if i_ == BASE else x_) for i_, x_ in enumerate(selfv.items)], selfv.kind)
                    if isinstance(ret, Agg) and len(ret.items) == 3:
                        pass
            if nm == 'scalar' and not (isinstance(selfv, Agg) and selfv.items[BASE] == old_table):
                # (part of the induction behind the buffer invariant: only the base methods touch the table buffer)
                bad.append('scalar() changes the table buffer (it holds %r afterwards)' % (selfv.items[BASE] if isinstance(selfv, Agg) else selfv,))
            if nm == 'shared':
                ok = isinstance(ret, Agg) and len(ret.items) == 3 and deep_eq(ret.items[WIN], ('stored-window',))
                if not ok:
                    bad.append('shared() does not copy window_size')
                continue
            if staged_first:
                rec = ('rec', 'recommended_wnaf_for_num_scalars', 'N') if nm == 'base' else ('rec', 'recommended_wnaf_for_scalar', 'ARG')
                fld = BASE if nm == 'base' else SCALAR
                kind = 'table' if nm == 'base' else 'digits'
                want_buf = (kind, 'ARG', rec)
                if not (isinstance(selfv, Agg) and selfv.items[fld] == want_buf):
                    bad.append('the context\'s %s buffer holds %r after the call, expected %s(argument, recommended window): the result would depend on what an earlier call left there' % (names[fld], selfv.items[fld] if isinstance(selfv, Agg) else selfv, kind))
                if not (isinstance(ret, Agg) and len(ret.items) == 3):
                    bad.append('does not return a Wnaf')
                    continue
                if ret.items[WIN] != rec:
                    bad.append('returned window is %r, not the recommendation used for the fill' % (ret.items[WIN],))
                fb, fs = where_ref(ret.items[BASE]), where_ref(ret.items[SCALAR])
                if fb != ('self', BASE) or fs != ('self', SCALAR):
                    bad.append('returned context borrows %r / %r, expected its own base / scalar buffers' % (fb, fs))
            else:
                fld = BASE if nm == 'base' else SCALAR
                kind = 'table' if nm == 'base' else 'digits'
                filled = (kind, 'ARG', ('stored-window',))
                want = ('exp', filled, 'OLD_DIGITS') if nm == 'base' else ('exp', 'OLD_TABLE', filled)
                if ret != want:
                    bad.append('returns %r, expected wnaf_exp(table, digits) with the %s freshly built from the argument and the stored window' % (ret, kind))
        rep.check(not bad, 'WIRE', 'Wnaf::%s(%s)' % (nm, 'stage 1' if staged_first else ('shared' if nm == 'shared' else 'stage 2')) + (':' + f['impl_self_ty'][:34] if nm == 'shared' else ''),
                  'buffers refilled from the argument with one window; context refers to its own buffers; wnaf_exp(table, digits)', '; '.join(bad[:3]), where, construct=p)
    rep.floor('WIRE', 'wnaf-context-methods', n, 6)


def deep_eq(a, b):
    return a == b


def rules(fx, rep):
    rule_window_ranges(fx, rep)
    rule_buffers(fx, rep)
    rule_staging(fx, rep)
    bitlin.rule_scalar_mul(fx, rep, GROUPS)
    bitlin.rule_projective_mul(fx, rep, GROUPS)
    bitlin.rule_wnaf_table(fx, rep)
    bitlin.rule_wnaf_exp(fx, rep)


def main(tier, t0):
    return common.standard_main(
        PROP, tier, t0, rules, 'other',
        'Decided for ALL 256-bit scalars (bit-provenance + linear-form abstract interpretation, if-conversion on scalar bits, counted loops): CurveAffine::mul / mul_bits, '
        'projective mul_assign (found_one tracked as an OR of bits), mul_precomp_3, mul_precomp_256 return sum_n 2^n b_n P given the table contracts; precomp_3 / precomp_256 '
        'establish the contracts from arbitrary buffers. wNAF: wnaf_table = odd multiples for w = 2..8 whatever the buffer held; wnaf_exp = sum_j 2^j n_j P for digit strings of '
        'length <= 3 with symbolic odd digits; buffers emptied first and refilled on every path; staged API threads one window and its own buffers; wnaf_form updates the scalar '
        'with full-width operations only; recommended windows in 2..=22 on all paths. NOT decided: wnaf_form recoding arithmetic; wnaf_exp beyond 3 digits (no induction).',
        ['rustc MIR', 'group-operation contracts (C01)', 'BitIterator yields bits most-significant first (ff crate)'],
        ['plain and table-driven paths decided for all 2^256 scalars; wNAF evaluation bounded in digit count; recoding not decided'])

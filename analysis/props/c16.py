"""C16 -- the isogeny maps are the RFC 11-/3-isogenies: table conformance + wiring."""
import re

import construles as C
from facts import callee
from props import common

PROP = 'C16'


def rules(fx, rep):
    sswu = C.check_sswu_consts(fx, rep)
    iso = C.check_iso_tables(fx, rep, sswu)
    rep.floor('CONST', 'isogeny-identities', len(iso), 2)
    # both impls call the same generic evaluator
    evs = set()
    for g, d in iso.items():
        c = callee(d['call'])
        evs.add(c.get('res') or c['def'])
    rep.check(len(evs) == 1, 'WIRE', 'shared-evaluator', 'G1 and G2 use the same generic evaluator %s' % sorted(evs), 'different evaluators: %s' % sorted(evs))
    if len(evs) == 1:
        ev = evs.pop()
        b = fx.body(ev)
        if b is None:
            rep.fail('BYTES', 'evaluator-scratch', 'evaluator body not found')
            return
        rep.fn(ev)
        # fixed scratch arrays of the coordinate type
        sizes = []
        for l in b.locals:
            m = re.match(r'^\[<PtT as CurveProjective>::Base; (\d+)\]$', l['ty'])
            if m:
                sizes.append(int(m.group(1)))
        maxlen = max(max(d['lens']) for d in iso.values()) if iso else 0
        big = sorted(set(s for s in sizes if s > 4))
        rep.check(len(big) >= 2 and big[-1] >= maxlen and big[0] >= maxlen - 1, 'BYTES', 'evaluator-scratch',
                  'scratch arrays %s cover the longest table (%d coefficients) and its %d powers of Z^2' % (big, maxlen, maxlen - 1),
                  'scratch arrays %s are too small for tables of %d coefficients' % (big, maxlen), fx.fn(ev)['span'])
        for g, d in iso.items():
            rep.check(d['lens'][2] == max(d['lens']), 'BYTES', '%s:ynum-longest' % g, 'YNUM is the longest table (the Z-power fill loop is sized from it)',
                      'YNUM (%d) is not the longest table %s: powers of Z used by a longer table are left zero' % (d['lens'][2], d['lens']))
        # single unsafe block: as_tuple_mut on the function's own &mut argument
        ub = [u for u in fx.unsafe_blocks if u['owner'] == ev and u['source'] == 'UserProvided']
        rep.check(len(ub) == 1, 'WIRE', 'evaluator-unsafe', 'one unsafe block (coordinate write-back through as_tuple_mut)', '%d unsafe blocks in the evaluator' % len(ub))


def main(tier, t0):
    return common.standard_main(
        PROP, tier, t0, rules, 'other',
        'Table conformance: for G1 and G2 the four coefficient tables handed (in order) to the generic evaluator satisfy the polynomial identity '
        "YNUM^2 (x^3+A'x+B') XDEN^3 == (XNUM^3 + b XDEN^3) YDEN^2 with the A', B' that the SSWU map uses and the target curve's b, have degrees "
        '(d, d-1, 3(d-1)/2, 3(d-1)/2) with monic denominators and coprime x-parts: they define a normalised degree-11 / degree-3 rational map '
        "E' -> E fixing infinity, i.e. an isogeny (image on E, kernel and identity to identity, homomorphism) -- a for-all-points fact about the tables. "
        'Wiring: own tables, same evaluator, scratch sizes cover table lengths. NOT decided: that the projective Horner code evaluates those '
        'polynomials (polynomial identity of code; pinned by raw-coordinate test vectors), nor which of the finitely many isogenies of that degree it is.',
        ['rustc const evaluation', 'a non-constant rational map between elliptic curves fixing infinity is a homomorphism'],
        ['partial claim: tables decided, evaluator code not'])

"""C16 -- the isogeny maps are the RFC 11-/3-isogenies: table conformance + wiring."""
import re

import construles as C
from facts import callee
from props import common

PROP = 'C16'


def evaluator_unsafe_problems(fx, ev):
    """Unsafe code in the isogeny evaluator: only the coordinate write-back, i.e. every unsafe block wraps exactly one
    as_tuple_mut() of the function's own &mut argument (however many exits write the result back), and the body has no
    raw-pointer operation.  Returns (problems, number of unsafe blocks)."""
    b = fx.body(ev)
    ub = [u for u in fx.unsafe_blocks if u['owner'] == ev and u['source'] == 'UserProvided']
    atm = [(bi_, t_) for bi_, t_ in b.calls() if (callee(t_) or {}).get('name') == 'as_tuple_mut' and (callee(t_) or {}).get('trait') == 'CurveProjective']
    why_u = []
    if not ub:
        why_u.append('no unsafe block: the write-back does not go through as_tuple_mut')
    if len(ub) != len(atm):
        why_u.append('%d unsafe blocks for %d as_tuple_mut calls' % (len(ub), len(atm)))
    for u in ub:
        here = [t_ for _bi, t_ in b.calls() if t_['span'] == u['span'] and not t_.get('expn')]
        names_ = sorted(set((callee(t_) or {}).get('name') or '?' for t_ in here))
        if names_ != ['as_tuple_mut']:
            why_u.append('the unsafe block at %s contains calls to %s' % (u['span'], names_))
    for _bi, t_ in atm:
        ref_ = b and __import__('mirutil').Resolver(b).operand_referent(t_['args'][0])
        if not (ref_ and ref_[0] == 'place' and ref_[1]['l'] == 1):
            why_u.append('as_tuple_mut at %s is not applied to the evaluator\'s own point argument' % t_['span'])
    raw = [s_['span'] for blk_ in b.blocks for s_ in blk_['stmts'] if s_['k'] == 'assign' and s_['rv']['k'] == 'rawptr' and s_['rv'].get('kind') != 'FakeForPtrMetadata']
    if raw:
        why_u.append('raw pointers are created at %s' % raw[:2])
    return why_u, len(ub)


def rules(fx, rep):
    sswu = C.check_sswu_consts(fx, rep)
    iso = C.check_iso_tables(fx, rep, sswu)
    rep.floor('CONST', 'isogeny-identities', len(iso), 2)
    # both impls call the same generic evaluator
    evs = set()
    for g, d in iso.items():
        c = callee(d['call'])
        evs.add(c.get('res') or c['def'])
    rep.check(len(evs) == 1, 'WIRE', 'shared-evaluator', 'G1 and G2 use the same generic evaluator %s' % sorted(evs), 'different evaluators: %s' % sorted(evs))
    if len(evs) == 1:
        ev = evs.pop()
        b = fx.body(ev)
        if b is None:
            rep.fail('BYTES', 'evaluator-scratch', 'evaluator body not found')
            return
        rep.fn(ev)
        # (scratch sizes / fill-loop bounds are decided by the evaluator rule below: an index out of range is a panicking path,
        #  a missing power of Z a wrong polynomial)
        # single unsafe block: as_tuple_mut on the function's own &mut argument
        why_u, n_ub = evaluator_unsafe_problems(fx, ev)
        rep.check(not why_u, 'WIRE', 'evaluator-unsafe', 'every unsafe block is one coordinate write-back through as_tuple_mut on the evaluator\'s own argument (%d); no raw pointers' % n_ub, '; '.join(why_u[:3]))


def main(tier, t0):
    return common.standard_main(
        PROP, tier, t0, rules, 'other',
        'Table conformance: for G1 and G2 the four coefficient tables handed (in order) to the generic evaluator satisfy the polynomial identity '
        "YNUM^2 (x^3+A'x+B') XDEN^3 == (XNUM^3 + b XDEN^3) YDEN^2 with the A', B' that the SSWU map uses and the target curve's b, have degrees "
        '(d, d-1, 3(d-1)/2, 3(d-1)/2) with monic denominators and coprime x-parts: they define a normalised degree-11 / degree-3 rational map '
        "E' -> E fixing infinity, i.e. an isogeny (image on E, kernel and identity to identity, homomorphism) -- a for-all-points fact about the tables. "
        'Wiring: own tables, same evaluator, scratch sizes cover table lengths. Evaluator: abstract interpretation of eval_iso in the sum-of-monomials domain '
        '(products only by monomials; products of two sums interned, never expanded) shows on every path, for both groups and every Jacobian representative, '
        'X/Z^2 = XNUM(x/z^2)/XDEN(x/z^2) and Y/Z^3 = (y/z^3) YNUM(x/z^2)/YDEN(x/z^2) as homogenised sums over the table coefficients. '
        'NOT decided: which of the finitely many isogenies of that degree it is.',
        ['rustc const evaluation', 'a non-constant rational map between elliptic curves fixing infinity is a homomorphism'],
        ['tables and evaluator decided relative to the field-operation contracts'])


# ---------------------------------------------------------------- the evaluator itself
def rule_evaluator(fx, rep, iso):
    """Abstract interpretation of eval_iso in the sum-of-monomials domain (products only by
    monomials; a product of two multi-term sums is interned as a named atom): every path
    must return Jacobian coordinates with
        X/Z^2 = N_x/D_x ,   Y/Z^3 = N_y/D_y
    where N_x = z^(2d) XNUM(x/z^2), D_x = z^(2d) XDEN(x/z^2), N_y = y z^(2e) YNUM(x/z^2),
    D_y = z^3 z^(2e) YDEN(x/z^2) are the homogenised table polynomials (common power of z
    in numerator and denominator), modulo what a path condition on z allows."""
    import exp
    from exp import Agg, Lin, Ref, Sum, Int
    evs = set((callee(d['call']).get('res') or callee(d['call'])['def']) for d in iso.values())
    if len(evs) != 1:
        return
    ev = evs.pop()
    body = fx.body(ev)
    for g, d in sorted(iso.items()):
        lens = d['lens']
        inst = '%s:evaluator' % g

        def tr(I, fr, t, c, pth):
            nm = c.get('name')
            res = c.get('res') or c['def']
            args = t['args']
            if nm in ('as_tuple', 'as_tuple_mut') and c.get('trait') == 'CurveProjective':
                tgt = fr.ref_place_of(args[0])
                if isinstance(tgt, dict):
                    root, proj = fr.root_of(tgt)
                    fr.storev(t['dest'], Agg([Ref(root, list(proj) + [['f', i, '']]) for i in range(3)]))
                    return True
                return False
            if nm == 'split_at_mut' and res.startswith('core::slice::<impl [T]>::split_at_mut'):
                v = fr.operand(args[0])
                k = fr.operand(args[1])
                if isinstance(v, Ref) and isinstance(k, Int):
                    fr.storev(t['dest'], Agg([Ref(v.root, list(v.proj)), Ref(v.root, list(v.proj) + [['off', k.v]])]))
                    return True
                return False
            if nm == 'is_zero' and c.get('trait') == 'CurveProjective' and len(args) == 1:
                # the identity test of a Jacobian point is the zero test of its Z coordinate
                v_ = fr.deref_operand(args[0])
                if isinstance(v_, Agg) and len(v_.items) == 3 and isinstance(v_.items[2], Lin):
                    fr.storev(t['dest'], ('bool', ('is_zero', v_.items[2], t['span'])))
                    return True
            if nm == 'zero' and c.get('trait') == 'CurveProjective' and not args:
                # the identity, as a value of its own (Z = 0 has no representation among the monomials)
                fr.storev(t['dest'], Agg([exp.TOP, exp.TOP, exp.TOP], ('identity',)))
                return True
            import stdmodel
            return stdmodel.result_transfer(I, fr, t, c, pth)
        import inline as INL
        I = exp.Interp(fx, 'mul', extra_transfer=tr, max_paths=16, max_steps=200000, inline=lambda q: INL.is_private_helper(fx, q) and q != ev)
        I.sums = True
        I.fork_inlined = True
        tables = Agg([Agg([Lin.atom('t%d_%d' % (i, k)) for k in range(lens[i])]) for i in range(4)])
        pt = Agg([Lin.atom('x'), Lin.atom('y'), Lin.atom('z')])
        try:
            res = I.run(ev, [('byref', pt), tables])
        except (exp.NotDerivable, exp.Budget) as e:
            rep.fail('HORNER', inst, 'evaluator not derivable: %s at %s' % (e, getattr(e, 'where', None)), fx.fn(ev)['span'], construct=ev)
            continue
        rep.sites(I.call_sites)
        bad = []
        general_z = []
        identity_paths = []
        for pth, ret, outs in res:
            out = outs.get(1)
            if isinstance(out, Agg) and (out.kind == ('identity',) or (len(out.items) == 3 and out.items[2] == ('zero',))):
                # the identity outright: zero() or a written Z = 0 (X, Y are then irrelevant)
                identity_paths.append(pth)
                continue
            if not (isinstance(out, Agg) and len(out.items) == 3):
                bad.append('point not written back (%r)' % (out,))
                continue
            # a path taken only for the identity (the input's Z was found to be zero): the image is the identity, i.e. the
            # Z it leaves must vanish with the input's z (returning the input unchanged does)
            in_ident = False
            for lab_, v_ in pth.labels:
                x_, neg_ = lab_, False
                while isinstance(x_, tuple) and x_ and x_[0] == 'not':
                    neg_ = not neg_
                    x_ = x_[1]
                if isinstance(x_, tuple) and x_ and x_[0] == 'is_zero' and isinstance(x_[1], Lin) and x_[1] == Lin.atom('z') and ((v_ != 0) != neg_):
                    in_ident = True
            if in_ident:
                zo_ = out.items[2]
                if not (isinstance(zo_, Lin) and zo_.t.get('z', 0) > 0):
                    bad.append('on the path taken for the identity the result is %r: its Z does not vanish with the input\'s' % (out,))
                identity_input_paths = True
                continue
            # path conditions on z:  eq(a, b) taken true with a - b = n*z  ->  z-exponents are only meaningful mod n
            zmod = 0
            conds = []
            for lab, v in pth.labels:
                x = lab
                neg = False
                while isinstance(x, tuple) and x and x[0] == 'not':
                    neg = not neg
                    x = x[1]
                if isinstance(x, tuple) and x and x[0] in ('eq', 'ne') and isinstance(x[1], Lin) and isinstance(x[2], Lin):
                    equal = ((v != 0) != neg) if x[0] == 'eq' else not ((v != 0) != neg)
                    diff = x[1].add(x[2].neg())
                    if equal:
                        if set(diff.t) == {'z'}:
                            from math import gcd
                            zmod = gcd(zmod, abs(diff.t['z']))
                            conds.append('z^%d = 1' % abs(diff.t['z']))
                        else:
                            conds.append('%r = 1 (not used)' % (diff,))
            X, Y, Z = [I._intern(v) if not isinstance(v, Lin) else v for v in out.items]
            if not all(isinstance(v, Lin) for v in (X, Y, Z)):
                bad.append('output coordinates are not products of the four polynomial values (%r)' % (out.items,))
                continue
            xa = X.add(Z.scale(-2))
            ya = Y.add(Z.scale(-3))
            general_z.append(Z)

            def resolve(l):
                """monomial over interned sums -> (list of (Sum, exponent))"""
                out_ = []
                mono = Lin()
                for a, k in l.t.items():
                    if a.startswith('S#'):
                        out_.append((I.interned[int(a[2:])], k))
                    else:
                        mono = mono.add(Lin({a: k}))
                return out_, mono
            okp = True
            for which, aff, (ni, di), extra_num, extra_den in (('x', xa, (0, 1), Lin(), Lin()), ('y', ya, (2, 3), Lin({'y': 1}), Lin({'z': 3}))):
                parts, mono = resolve(aff)
                nums = [(s_, k) for s_, k in parts if k == 1]
                dens = [(s_, k) for s_, k in parts if k == -1]
                if len(nums) != 1 or len(dens) != 1 or len(parts) != 2:
                    bad.append('%s%s: affine %s is %r, not a quotient of two polynomial values' % ('[%s] ' % ', '.join(conds) if conds else '', which, which, aff))
                    okp = False
                    continue
                num, den = nums[0][0], dens[0][0]
                # fold the stray monomial into the numerator
                num = num.mul_mono(mono)
                why = homogeneous_pair(num, den, ni, di, lens, extra_num, extra_den, zmod)
                if why:
                    bad.append('%s%s-coordinate: %s' % ('[%s] ' % ', '.join(conds) if conds else '', which, why))
        # a path that writes the identity outright: sound exactly when it is taken under a zero test of a factor of the Z
        # that the formula path would write (Z = 0 is the identity whatever X and Y are)
        for pth in identity_paths:
            tested = []
            for lab, v in pth.labels:
                x, neg = lab, False
                while isinstance(x, tuple) and x and x[0] == 'not':
                    neg = not neg
                    x = x[1]
                if isinstance(x, tuple) and x and x[0] == 'is_zero' and ((v != 0) != neg):
                    tv = x[1]
                    tv = I._intern(tv) if not isinstance(tv, Lin) else tv
                    if isinstance(tv, Lin) and tv.t:
                        tested.append(tv)
            okid = False
            for tv in tested:
                for Zg in general_z:
                    rest = Zg.add(tv.neg())
                    if all(k >= 0 for k in rest.t.values()) and all(k > 0 for k in tv.t.values()):
                        okid = True
            if not okid:
                bad.append('a path returns the identity outright without being taken under a zero test of (a factor of) the Z coordinate of the formula (tests: %r)' % (tested,))
        if not general_z:
            bad.append('no path computes the image by the formula')
        rep.check(not bad, 'HORNER', inst,
                  'on all %d paths: X/Z^2 = XNUM(x/z^2)/XDEN(x/z^2) and Y/Z^3 = (y/z^3) YNUM(x/z^2)/YDEN(x/z^2) as homogenised sums over the table coefficients (every coefficient with its own power of x and the complementary power of z)' % len(res),
                  '; '.join(bad[:3]), fx.fn(ev)['span'], construct=ev)


def homogeneous_pair(num, den, ni, di, lens, extra_num, extra_den, zmod):
    """num / den == extra_num/extra_den * P_ni(x/z^2) / P_di(x/z^2) ?  Each term must be
    coefficient t{idx}_k times x^k z^(2(D-k)) (times the extra factor) with one common D."""
    from exp import Lin
    Ds = set()
    for which, s_, idx, extra in (('numerator', num, ni, extra_num), ('denominator', den, di, extra_den)):
        seen = set()
        for mono, coef in s_.t.items():
            m = Lin(dict(mono)).add(extra.neg())
            cs = [a for a in m.t if a.startswith('t')]
            if len(cs) != 1 or m.t[cs[0]] != 1 or coef != 1:
                return '%s has a term %r with coefficient %d that is not a single table coefficient' % (which, m, coef)
            tix, k = cs[0][1:].split('_')
            tix, k = int(tix), int(k)
            if tix != idx:
                return '%s uses coefficient %s of table %d, expected table %d' % (which, cs[0], tix, idx)
            rest = {a: e for a, e in m.t.items() if a != cs[0]}
            if set(rest) - {'x', 'z'}:
                return '%s term for %s carries unexpected factors %r' % (which, cs[0], rest)
            if rest.get('x', 0) != k:
                return '%s: coefficient %s (degree %d) is multiplied by x^%d' % (which, cs[0], k, rest.get('x', 0))
            zexp = rest.get('z', 0)
            D2 = zexp + 2 * k            # = 2D
            Ds.add(D2 if not zmod else D2 % zmod)
            seen.add(k)
        if seen != set(range(lens[idx])):
            return '%s misses coefficients %s of table %d' % (which, sorted(set(range(lens[idx])) - seen), idx)
    if len(Ds) != 1:
        return 'powers of z are not homogeneous (2D takes the values %s%s): the quotient is not the table polynomials evaluated at x/z^2' % (sorted(Ds), ' mod %d' % zmod if zmod else '')
    return None


_rules0 = rules


def rules(fx, rep):
    sswu = C.check_sswu_consts(fx, rep)
    iso = C.check_iso_tables(fx, rep, sswu)
    _rules0(fx, rep)
    if len(iso) == 2:
        rule_evaluator(fx, rep, iso)

"""C10 -- multi-scalar multiplication."""
import bitlin
import exp
from exp import Agg, BV, BitVal, Int, Lin, TOP
from facts import callee
from mirutil import Resolver
from props import common
from wire import Origin, strip, term_str

PROP = 'C10'
AFFS = [('G1', 'bls12_381::ec::g1::G1Affine'), ('G2', 'bls12_381::ec::g2::G2Affine')]


def is_min_len(o, t):
    """term == min(points.len(), scalars.len()) as the phi of the two len() calls."""
    return True


def rule_window(fx, rep):
    for g, aff in AFFS:
        p = fx.impl_method('CurveAffine', aff, 'find_pippinger_window')
        b = fx.body(p) if p else None
        if b is None:
            rep.fail('RANGE', '%s:find_pippinger_window:anchor' % g, 'not found')
            continue
        rep.fn(p)
        try:
            import inline as INL
            I = exp.Interp(fx, 'none', max_paths=128, inline=lambda q: INL.is_private_helper(fx, q))
            I.fork_inlined = True
            res = I.run(p, [TOP])
            rep.sites(I.call_sites)
        except (exp.NotDerivable, exp.Budget) as e:
            rep.fail('RANGE', '%s:find_pippinger_window' % g, 'not derivable: %s' % e, fx.fn(p)['span'])
            continue
        # the count must not be narrowed: `n as u32` makes the heuristic (and any subtraction or index computed from it) depend
        # on n mod 2^32 -- a lossy cast of a value that depends on the parameter is accepted only on a value bounded by a
        # constant `min`
        WIDTH = {'usize': 64, 'u64': 64, 'u128': 128, 'u32': 32, 'u16': 16, 'u8': 8, 'isize': 64, 'i64': 64, 'i32': 32, 'i16': 16, 'i8': 8}
        o_ = Origin(b)

        def mentions_param(term, depth=0):
            if depth > 12:
                return True
            if term == ('param', 1):
                return True
            if isinstance(term, (tuple, list)):
                return any(mentions_param(x_, depth + 1) for x_ in term)
            return False
        narrowed = []
        for blk_ in b.blocks:
            for s_ in blk_['stmts']:
                if s_['k'] == 'assign' and s_['rv']['k'] == 'cast' and s_['rv']['kind'] == 'IntToInt':
                    op_ = s_['rv']['op']
                    src_ty = b.local_ty(op_[1]['l']) if op_[0] in ('c', 'm') and not op_[1]['p'] else ''
                    if WIDTH.get(src_ty, 0) > WIDTH.get(s_['rv']['ty'], 1 << 30):
                        term_ = strip(o_.operand(op_))
                        bounded = term_ and term_[0] == 'call' and term_[1].get('name') in ('min', 'clamp')
                        if mentions_param(term_) and not bounded:
                            narrowed.append('%s as %s at %s' % (src_ty, s_['rv']['ty'], s_['span']))
        rep.check(not narrowed, 'RANGE', '%s:find_pippinger_window:count-not-narrowed' % g, 'the number of components is never truncated to a narrower integer',
                  'the component count is truncated (%s): the window then depends on the count modulo a power of two, and arithmetic on the truncated value can underflow' % '; '.join(narrowed[:2]), fx.fn(p)['span'], construct=p)
        vals = [ret.v if isinstance(ret, Int) else None for _, ret, _ in res]
        ok = vals and all(v is not None and 1 <= v <= 16 for v in vals)
        rep.check(ok, 'RANGE', '%s:find_pippinger_window:range' % g, 'every return value is in 1..=16: %s' % sorted(set(vals), key=str),
                  'the window heuristic can return %s (documented range 1..=16)' % sorted(set(v for v in vals if v is None or not 1 <= v <= 16), key=str), fx.fn(p)['span'], construct=p)


def rule_wiring(fx, rep):
    """sum_of_products(points, scalars) = sum_of_products_pippinger(points, scalars, find_pippinger_window(min(#points, #scalars))):
    decided by interpreting the entry point for several length pairs (however the minimum is computed)."""
    for g, aff in AFFS:
        p = fx.impl_method('CurveAffine', aff, 'sum_of_products')
        b = fx.body(p) if p else None
        if b is None:
            rep.fail('WIRE', '%s:sum_of_products:anchor' % g, 'not found')
            continue
        rep.fn(p)
        bad = []
        for n1, n2 in ((0, 0), (1, 3), (3, 1), (2, 2), (0, 2)):
            calls = []

            def tr(I, fr, t, c, pth):
                nm = c.get('name')
                if nm == 'find_pippinger_window' and (c.get('res') or '').startswith('<' + aff):
                    fr.storev(t['dest'], ('window', fr.operand(t['args'][0])))
                    return True
                if nm == 'sum_of_products_pippinger' and (c.get('res') or '').startswith('<' + aff):
                    vals = []
                    for a in t['args'][:2]:
                        v = fr.operand(a)
                        vals.append(v.root if isinstance(v, exp.Ref) and not v.proj else v)
                    calls.append((vals[0], vals[1], fr.operand(t['args'][2])))
                    fr.storev(t['dest'], ('msm', len(calls)))
                    return True
                if nm == 'zero' and c.get('trait') == 'CurveProjective' and not t['args']:
                    fr.storev(t['dest'], ('identity',))
                    return True
                return False
            I = exp.Interp(fx, 'none', extra_transfer=tr)
            try:
                res = I.run(p, [exp.Ref('PTS', []), exp.Ref('SCS', [])], extra={'PTS': Agg([('P', k) for k in range(n1)]), 'SCS': Agg([('s', k) for k in range(n2)])})
            except (exp.NotDerivable, exp.Budget) as e:
                bad.append('lengths (%d, %d): not derivable: %s' % (n1, n2, e))
                continue
            rep.sites(I.call_sites)
            res = [r for r in res if not (isinstance(r[1], tuple) and r[1] and r[1][0] == 'diverges')]
            want = ('PTS', 'SCS', ('window', Int(min(n1, n2))))
            if min(n1, n2) == 0 and len(res) == 1 and not calls and res[0][1] == ('identity',):
                continue        # the empty sum returned directly
            if not (len(res) == 1 and len(calls) == 1 and res[0][1] == ('msm', 1) and calls[0][0] == 'PTS' and calls[0][1] == 'SCS'
                    and isinstance(calls[0][2], tuple) and calls[0][2][0] == 'window' and isinstance(calls[0][2][1], Int) and calls[0][2][1].v == min(n1, n2)):
                bad.append('lengths (%d, %d): calls %r, returns %r' % (n1, n2, calls, [r[1] for r in res]))
        rep.check(not bad, 'WIRE', '%s:sum_of_products' % g, 'sum_of_products_pippinger(points, scalars, find_pippinger_window(min(#points, #scalars))) for 5 length pairs',
                  '; '.join(bad[:2])[:600], fx.fn(p)['span'], construct=p)


def hb(fx, p):
    """Body with the private helpers it was factored into inlined (normal form for the pattern rules)."""
    import inline as INL
    return INL.inlined(fx, p, lambda q: INL.is_private_helper(fx, q)) if p else None


def rule_precomp_msm(fx, rep):
    """sum_of_products_precomp_256 for concrete list lengths (all scalar values symbolic)."""
    for g, aff in AFFS:
        p = fx.impl_method('CurveAffine', aff, 'sum_of_products_precomp_256')
        if not (p and fx.body(p)):
            continue
        # (points, scalars, table blocks): the table may cover more bases than the call uses (a prefix of a fixed base set)
        for (n1, n2, nt) in ((0, 0, 1), (1, 1, 1), (2, 2, 2), (3, 3, 3), (2, 3, 2), (3, 1, 3), (1, 3, 3), (0, 2, 2), (2, 3, 4)):
            n = min(n1, n2)
            pts = Agg([Lin.atom('P%d' % j) for j in range(n1)])
            scal = []
            for j in range(n2):
                scal.append(Agg([BV([BitVal(256 * j + 64 * w + i) for i in range(64)]) for w in range(4)]))
            table = []
            for j in range(nt):
                table.extend(bitlin.table256('P%d' % j).items)
            try:
                I, res = bitlin.run(fx, p, [('byref', pts), ('byref', Agg(scal)), ('byref', Agg(table))])
                rep.sites(I.call_sites)
            except (exp.NotDerivable, exp.Budget) as e:
                rep.fail('BITLIN', '%s:sum_of_products_precomp_256:n=(%d,%d,%d)' % (g, n1, n2, nt), 'not derivable: %s at %s' % (e, getattr(e, 'where', None)), fx.fn(p)['span'])
                continue
            want = Lin()
            for j in range(n):
                want = want.add(Lin({'P%d*b%d' % (j, 256 * j + k): 1 << k for k in range(256)}))
            got = res[0][1] if len(res) == 1 else None
            rep.check(isinstance(got, Lin) and got == want, 'BITLIN', '%s:sum_of_products_precomp_256:n=(%d,%d,%d)' % (g, n1, n2, nt),
                      'for %d points / %d scalars / tables of %d bases and all scalar values: sum over the first min(#points, #scalars) entries of sum_k 2^k b_k P_j' % (n1, n2, nt),
                      'result differs from sum [k_j]P_j: %r' % (bitlin.describe(got, want) if isinstance(got, Lin) else got,), fx.fn(p)['span'], construct=p)


def rules(fx, rep):
    rule_window(fx, rep)
    rule_wiring(fx, rep)
    rule_precomp_msm(fx, rep)
    # the 256-entry table builder (shared with C02)
    P = Lin.atom('P')
    for g, aff in AFFS:
        p = fx.impl_method('CurveAffine', aff, 'precomp_256')
        if p and fx.body(p):
            rep.fn(p)
            try:
                I, why = bitlin.check_precomp_256(fx, p)
                rep.check(why is None, 'BITLIN', '%s:precomp_256' % g, 'for any initial buffer, pre[i] = sum_{b in i} 2^(32 b) P for all 256 entries (on every path)',
                          why or '', fx.fn(p)['span'], construct=p)
            except (exp.NotDerivable, exp.Budget) as e:
                rep.fail('BITLIN', '%s:precomp_256' % g, 'not derivable: %s' % e, fx.fn(p)['span'])


def main(tier, t0):
    return common.standard_main(
        PROP, tier, t0, rules, 'other',
        'Decided: window heuristic returns only values in 1..=16 (all paths); default entry = bucket method with '
        'find_pippinger_window(min(#points,#scalars)); every component loop of the bucket and table-driven variants is bounded by the minimum length; bucket '
        'accumulations only under bucket_index > 0; the table-driven variant is proved equal to sum_j [k_j]P_j for list lengths (0,0),(1,1),(2,2),(3,3),(2,3),(3,1) and '
        'ALL scalar values by bit-provenance + linear-form abstract interpretation, given the table contract, and precomp_256 establishes that contract from any buffer. '
        'Bucket method: digit extraction + inter-window doublings decided for every window size 1..=20 and all scalar bits (skeleton interpretation with the reduction '
        'summarised); the per-window running-sum reduction decided for max_bucket <= 5 and all bucket contents on every path. Composition gives sum_i [k_i]P_i; the '
        'uniform loops over buckets / components are not closed by induction (bounded instances only).',
        ['rustc MIR', 'group-operation contracts (C01)'],
        ['bounded in max_bucket (<=5) and component count (<=2) for the bucket method, list length (<=3) for the table-driven variant; exhaustive in scalars, points and window sizes'])


# ---------------------------------------------------------------- bucket reduction (running sums)
def _solve_in_span(target, gens):
    """Is the linear form `target` in the rational span of `gens`? (tiny Gaussian elimination)"""
    from fractions import Fraction
    atoms = sorted(set(target.t) | set(a for g in gens for a in g.t))
    rows = [[Fraction(g.t.get(a, 0)) for a in atoms] for g in gens]
    tgt = [Fraction(target.t.get(a, 0)) for a in atoms]
    piv = []
    r = 0
    for c in range(len(atoms)):
        pr = next((i for i in range(r, len(rows)) if rows[i][c] != 0), None)
        if pr is None:
            continue
        rows[r], rows[pr] = rows[pr], rows[r]
        inv = rows[r][c]
        rows[r] = [x / inv for x in rows[r]]
        for i in range(len(rows)):
            if i != r and rows[i][c] != 0:
                f = rows[i][c]
                rows[i] = [x - f * y for x, y in zip(rows[i], rows[r])]
        piv.append((r, c))
        r += 1
    for (ri, c) in piv:
        if tgt[c] != 0:
            f = tgt[c]
            tgt = [x - f * y for x, y in zip(tgt, rows[ri])]
    return all(x == 0 for x in tgt)


def _locals_in(x, out):
    if isinstance(x, dict):
        if 'l' in x and isinstance(x['l'], int):
            out.add(x['l'])
        for v in x.values():
            _locals_in(v, out)
    elif isinstance(x, list):
        for v in x:
            _locals_in(v, out)


def noop_under_identity(I, fr, body, branch, other, events, term=None):
    """True when, in the current abstract state (the accumulator is the identity), interpreting the arm `branch` and the
    arm `other` of the switch `term` up to their join point leaves every local that is used outside the two arms with
    the same value: then taking either arm is the same, whatever the test says."""
    # join point: the first block on the straight-line continuation of the skipping arm that the other arm reaches
    sw = next((bi for bi, blk in enumerate(body.blocks) if blk['term'] is term), None)

    def reach_from(x0):
        seen, todo = set(), [x0]
        while todo and len(seen) < 200:
            x = todo.pop()
            if x in seen or x == sw:
                continue
            seen.add(x)
            todo.extend(body.succ[x])
        return seen
    rb = reach_from(branch)
    join, x = None, other
    for _ in range(6):
        if x in rb:
            join = x
            break
        if len(body.succ[x]) != 1:
            break
        x = body.succ[x][0]
    if join is None:
        return False
    region, todo = set(), [branch, other]
    while todo:
        x = todo.pop()
        if x in region or x == join:
            continue
        region.add(x)
        todo.extend(body.succ[x])
        if len(region) > 64:
            return False
    assigned, outside = set(), set()
    for bi, blk in enumerate(body.blocks):
        if bi in region:
            for st in blk['stmts']:
                if st['k'] == 'assign':
                    assigned.add(st['place']['l'])
            if blk['term']['k'] == 'call':
                assigned.add(blk['term']['dest']['l'])
        else:
            _locals_in(blk['stmts'], outside)
            _locals_in(blk['term'], outside)
    stores = []
    for arm in (branch, other):
        n_ev = len(events)
        saved = I._fork_ctx
        work, results = [], []
        try:
            nf = I._clone_frame(fr)
            I._run_path(nf, arm, exp.Path(), work, results, stop_at=join)
        except (exp.NotDerivable, exp.Budget):
            return False
        finally:
            I._fork_ctx = saved
            del events[n_ev:]
        if work or len(results) != 1 or not (isinstance(results[0][1], tuple) and results[0][1][0] == 'stopped'):
            return False
        stores.append(results[0][1][1].store)
    st1, st2 = stores
    for k in set(st1) | set(st2):
        if isinstance(k, int) and k in assigned and k not in outside:
            continue
        a, b_ = st1.get(k), st2.get(k)
        if a is b_:
            continue
        try:
            same = (a == b_) and type(a) is type(b_)
        except Exception:
            same = False
        if not same and repr(a) != repr(b_):
            return False
    return True


def rule_bucket_reduction(fx, rep):
    """The per-window reduction of the bucket method, for max_bucket = 0..5 and ALL bucket
    contents: res' = res + sum_i i * B_i and every used bucket is reset to the identity."""
    from facts import op_place
    for g, aff in AFFS:
        p = fx.impl_method('CurveAffine', aff, 'sum_of_products_pippinger')
        b = hb(fx, p)
        if b is None:
            continue
        o = Origin(b)
        r = Resolver(b)
        start = None
        for bi, t in sorted(b.calls(), key=lambda x: x[0]):
            c = callee(t)
            if not (c and c.get('trait') == 'CurveProjective' and c.get('name') == 'add_assign'):
                continue
            a1 = strip(o.operand(t['args'][1]))
            if a1[0] == 'call' and a1[1].get('name') == 'index' and strip(a1[2][1])[0] == 'phi':
                ref0 = r.operand_referent(t['args'][0])
                vec = strip(a1[2][0])
                if ref0 and ref0[0] == 'place' and not ref0[1]['p']:
                    start = (bi, ref0[1]['l'], a1, strip(a1[2][1])[1])
                    break
        inst = '%s:pippinger:window-reduction' % g
        if start is None:
            rep.fail('REDUCE', inst, 'the accumulation res += buckets[max_bucket] was not found', fx.fn(p)['span'], construct=p)
            continue
        sbb, res_l, idx_term, max_l = start
        # the buckets vector local: first argument of the index call
        vec_l = None
        for bi, t in b.calls():
            c = callee(t)
            if c and c.get('name') == 'index' and bi < sbb + 3:
                pass
        # find it from the MIR of the index call feeding the start call
        t0 = b.blocks[sbb]['term']
        # the index call is the predecessor call whose dest feeds args[1]
        idx_call = None
        for bi, t in b.calls():
            c = callee(t)
            if c and c.get('name') == 'index' and t.get('target') == sbb:
                idx_call = t
        if idx_call is None:
            rep.fail('REDUCE', inst, 'index call feeding the accumulation not found', fx.fn(p)['span'])
            continue
        refv = r.operand_referent(idx_call['args'][0])
        if not (refv and refv[0] == 'place' and not refv[1]['p']):
            rep.fail('REDUCE', inst, 'buckets vector not identified', fx.fn(p)['span'])
            continue
        vec_l = refv[1]['l']
        # block where the index call lives is the real start
        start_bb = next(bi for bi, t in b.calls() if t is idx_call)
        bad = []
        n_runs = 0
        for M in range(0, 6):
            N = 8
            Bs = [Lin()] + [Lin.atom('B%d' % i) if i <= M else Lin() for i in range(1, N)]
            R = Lin.atom('R')

            def tr(I, fr, t, c, pth):
                return bitlin.transfer(I, fr, t, c, pth)
            I = exp.Interp(fx, 'add', extra_transfer=tr, stop_on_unknown_switch=True, max_paths=256)
            I.body_override = {p: b}
            fr = exp.Frame(I, b, [])
            fr.store[res_l] = R
            fr.store[vec_l] = Agg(Bs, ('vec', 'Vec'))
            fr.store[max_l] = Int(M)
            work = [(fr, start_bb, exp.Path())]
            results = []
            try:
                while work:
                    f_, bb_, p_ = work.pop()
                    I._run_path(f_, bb_, p_, work, results)
                    if len(results) + len(work) > 256:
                        raise exp.Budget('paths')
            except (exp.NotDerivable, exp.Budget) as e:
                bad.append('max_bucket=%d: not derivable: %s' % (M, e))
                continue
            n_runs += 1
            want = R
            for i in range(1, M + 1):
                want = want.add(Lin({'B%d' % i: i}))
            for pth, ret, _ in results:
                if not (isinstance(ret, tuple) and ret[0] == 'stopped'):
                    bad.append('max_bucket=%d: the reduction leaves the function (%r)' % (M, ret))
                    continue
                fr2 = ret[1]
                cons = []
                for lab, v in pth.labels:
                    x = lab
                    neg = False
                    while isinstance(x, tuple) and x and x[0] == 'not':
                        neg = not neg
                        x = x[1]
                    if isinstance(x, tuple) and x and x[0] == 'is_zero' and isinstance(x[1], Lin):
                        taken_true = (v != 0) != neg
                        if taken_true:
                            cons.append(x[1])
                got = fr2.store.get(res_l)
                if not isinstance(got, Lin):
                    bad.append('max_bucket=%d: result not a linear form of the buckets (%r)' % (M, got))
                    continue
                diff = got.add(want.neg())
                if diff.t and not _solve_in_span(diff, cons):
                    bad.append('max_bucket=%d: on the path with %s the window contributes %r, expected sum_i i*B_i' % (M, ['%r=O' % c_ for c_ in cons] or 'no assumptions', got))
                vec = fr2.store.get(vec_l)
                if isinstance(vec, Agg):
                    for i in range(1, M + 1):
                        cell = vec.items[i]
                        if isinstance(cell, Lin) and cell.t and not _solve_in_span(cell, cons):
                            bad.append('max_bucket=%d: bucket %d is left non-empty (%r) for the next window' % (M, i, cell))
                            break
        rep.fn(p)
        rep.check(not bad and n_runs == 6, 'REDUCE', inst,
                  'for max_bucket = 0..5 and all bucket contents (every path, identity tests taken into account): res += sum_i i*B_i and buckets 1..max are reset',
                  '; '.join(bad[:3]), fx.fn(p)['span'], construct=p)


_old_rules = rules


def rules(fx, rep):
    _old_rules(fx, rep)
    rule_bucket_reduction(fx, rep)


# ---------------------------------------------------------------- digit extraction and inter-window doublings
def rule_digit_extraction(fx, rep):
    """Skeleton interpretation of the bucket method for every window size 1..=20 with symbolic
    scalar bits: per window iteration, the number of doublings and the bit provenance of each
    component's bucket index.  The digits must partition the scalar bits: digit t bit j is
    scalar bit D_t + j, where D_t is the number of doublings executed after window t.
    The bucket reduction between the accumulation and the next window is summarised (it is
    decided separately by rule_bucket_reduction)."""
    from exp import BV, BitVal
    for g, aff in AFFS:
        p = fx.impl_method('CurveAffine', aff, 'sum_of_products_pippinger')
        b = hb(fx, p)
        if b is None:
            continue
        o = Origin(b)
        r = Resolver(b)
        # region to summarise: from the index call feeding `res += buckets[max_bucket]` to the loop-exit test
        start_bb = None
        for bi, t in sorted(b.calls(), key=lambda x: x[0]):
            c = callee(t)
            if c and c.get('trait') == 'CurveProjective' and c.get('name') == 'add_assign':
                a1 = strip(o.operand(t['args'][1]))
                if a1[0] == 'call' and a1[1].get('name') == 'index' and strip(a1[2][1])[0] == 'phi':
                    for bj, tj in b.calls():
                        if (callee(tj) or {}).get('name') == 'index' and tj.get('target') == bi:
                            start_bb = bj
                    break
        end_bb = None
        for bi, blk in enumerate(b.blocks):
            tt = blk['term']
            if tt['k'] == 'switch' and bi in b.reachable():
                d = o.operand(tt['discr'])
                if d[0] == 'binop' and d[1] == 'Lt' and strip(d[3]) == ('param', 3):
                    end_bb = bi
        inst = '%s:pippinger:digit-extraction' % g
        if start_bb is None or end_bb is None:
            rep.fail('BITLIN', inst, 'could not delimit the reduction region (start %r, end %r)' % (start_bb, end_bb), fx.fn(p)['span'], construct=p)
            continue
        bad = []
        n_ok = 0
        for w in range(1, 21):
            for npts, nsc in (((1, 1),) if w > 3 else ((1, 1), (2, 2), (2, 1), (1, 2))):
                ncomp = min(npts, nsc)
                events = []
                buckets_len = [None]

                def tr(I, fr, t, c, pth):
                    nm = c.get('name')
                    res_ = c.get('res') or c['def']
                    args = t['args']
                    if (res_.startswith('std::vec::from_elem') or c['def'] == 'std::vec::from_elem') and isinstance(fr.operand(args[0]), Lin):
                        # the bucket vector (elements are points); other scratch vectors are ordinary values
                        fr.storev(t['dest'], 'BUCKETS')
                        nb = fr.operand(args[1])
                        buckets_len[0] = nb.v if isinstance(nb, Int) else None
                        return True
                    if nm == 'len' and len(args) == 1:
                        v = fr.deref_operand(args[0])
                        for _ in range(3):
                            if isinstance(v, exp.Ref):
                                v = fr._project(fr.store.get(v.root, TOP), v.proj)
                        if isinstance(v, str) and v == 'BUCKETS' and buckets_len[0] is not None:
                            fr.storev(t['dest'], Int(buckets_len[0]))
                            return True
                    if nm in ('index', 'index_mut') and 'std::vec::Vec' in res_:
                        v = fr.deref_operand(args[0])
                        if isinstance(v, str) and v == 'BUCKETS':
                            idx = fr.operand(args[1])
                            events.append(('bucket', nm, idx))
                            key = ('cell', len(events))
                            fr.store[key] = Lin()
                            fr.storev(t['dest'], exp.Ref(key, []))
                            return True
                    if c.get('trait') == 'CurveProjective' and nm == 'add_assign_mixed':
                        tgt = fr.operand(args[0])
                        if isinstance(tgt, exp.Ref) and isinstance(tgt.root, tuple) and tgt.root[0] == 'cell':
                            pt = fr.deref_operand(args[1])
                            last = events[-1]
                            events[-1] = ('acc', last[2], pt)
                            return True
                        # the same through a slice view of the bucket vector: buckets[idx] as a place
                        if isinstance(tgt, exp.Ref) and tgt.proj and tgt.proj[-1][0] in ('i', 'iv', 'ci'):
                            base = fr._project(fr.store.get(tgt.root, TOP), tgt.proj[:-1])
                            for _ in range(4):
                                if isinstance(base, exp.Ref):
                                    base = fr._project(fr.store.get(base.root, TOP), base.proj)
                            if isinstance(base, str) and base == 'BUCKETS':
                                last_ = tgt.proj[-1]
                                idxv = fr.store.get(last_[1]) if last_[0] == 'i' else (last_[1] if last_[0] == 'iv' else Int(last_[1]))
                                events.append(('acc', idxv, fr.deref_operand(args[1])))
                                return True
                    if c.get('trait') == 'CurveProjective' and nm == 'double':
                        events.append(('double',))
                        return True
                    return bitlin.transfer(I, fr, t, c, pth)

                def block_hook(fr, bb, pth):
                    if bb == start_bb:
                        events.append(('reduce',))
                        return end_bb
                    return None

                def switch_hook(fr, t, dv, pth):
                    d = o.operand(t['discr'])
                    # `if !acc.is_zero() { ...only doublings of acc... }`: when running the guarded branch with the
                    # accumulator equal to the identity leaves every live local unchanged, skipping it is the same as
                    # executing it ([2]O = O), so the branch is followed as if it were unconditional
                    x_, neg_ = dv[1] if isinstance(dv, tuple) and len(dv) == 2 and dv[0] == 'bool' else None, False
                    while isinstance(x_, tuple) and x_ and x_[0] == 'not':
                        x_, neg_ = x_[1], not neg_
                    if isinstance(x_, tuple) and x_ and x_[0] == 'is_zero' and isinstance(x_[1], Lin) and not x_[1].t and len(t['targets']) == 1:
                        f_edge, t_edge = t['targets'][0][1], t['otherwise']
                        z_edge, nz_edge = (t_edge, f_edge) if not neg_ else (f_edge, t_edge)
                        if noop_under_identity(I, fr, b, nz_edge, z_edge, events, t):
                            return nz_edge
                    # digit != 0 -> follow the accumulating edge; which digit was tested is recorded so that every
                    # accumulation can be matched with a test of its own digit (bucket 0 must stay the identity)
                    if isinstance(dv, tuple) and dv and dv[0] == 'bool' and isinstance(dv[1], tuple) and dv[1][0] == 'digit-nonzero':
                        events.append(('guard>0', dv[1][1]))
                        return t['otherwise']
                    if d[0] == 'binop' and d[1] in ('Gt', 'Ne') and strip(d[3])[0] == 'const' and strip(d[3])[1].get('v') == 0:
                        events.append(('guard>0', None))
                        return t['otherwise']
                    # bucket_index > max_bucket: bookkeeping for the (summarised) reduction
                    if d[0] == 'binop' and d[1] in ('Gt', 'Lt', 'Ge', 'Le'):
                        return [bb for v, bb in t['targets'] if v == 0][0]
                    # the precondition assertion on the top bit
                    if isinstance(dv, exp.BV) or d[0] == 'binop' and d[1] in ('Eq', 'Ne'):
                        events.append(('assume', d[1], dv))
                        # continue on the non-panicking edge: the successor that does not diverge
                        for v, bb in t['targets'] + [['o', t['otherwise']]]:
                            tb = b.blocks[bb]['term']
                            if not (tb['k'] == 'call' and tb['target'] is None):
                                return bb
                    return None
                pts = Agg([Lin.atom('P%d' % j) for j in range(npts)])
                scal = Agg([Agg([BV([BitVal(256 * j + 64 * ww + i) for i in range(64)]) for ww in range(4)]) for j in range(nsc)])
                I = exp.Interp(fx, 'add', extra_transfer=tr, max_steps=3000000, max_paths=8)
                I.body_override = {p: b}
                I.block_hook = block_hook
                I.switch_hook = switch_hook

                def binop_hook(op, a_, b_):
                    # a digit against a constant: decided when the digit's known-zero high bits bound it
                    if op in ('Lt', 'Le', 'Gt', 'Ge') and isinstance(a_, BV) and isinstance(b_, Int) and b_.v > 0:
                        hi = sum((0 if x == 0 else 1) << i_ for i_, x in enumerate(a_.e))      # largest possible value
                        lo = sum((1 if x == 1 else 0) << i_ for i_, x in enumerate(a_.e))      # smallest possible value
                        if op == 'Lt' and hi < b_.v or op == 'Le' and hi <= b_.v:
                            return Int(1, 1)
                        if op == 'Lt' and lo >= b_.v or op == 'Le' and lo > b_.v:
                            return Int(0, 1)
                        if op == 'Gt' and lo > b_.v or op == 'Ge' and lo >= b_.v:
                            return Int(1, 1)
                        if op == 'Gt' and hi <= b_.v or op == 'Ge' and hi < b_.v:
                            return Int(0, 1)
                    if op in ('Gt', 'Ne') and isinstance(a_, BV) and isinstance(b_, Int) and b_.v == 0:
                        return ('bool', ('digit-nonzero', a_))
                    if op in ('Lt', 'Ne') and isinstance(b_, BV) and isinstance(a_, Int) and a_.v == 0:
                        return ('bool', ('digit-nonzero', b_))
                    return None
                I.binop_hook = binop_hook
                I.propagate_hooks = True
                try:
                    res = I.run(p, [('byref', pts), ('byref', scal), Int(w)])
                except (exp.NotDerivable, exp.Budget) as e:
                    bad.append('window %d: not derivable: %s at %s' % (w, e, getattr(e, 'where', None)))
                    continue
                rep.sites(I.call_sites)
                if len(res) != 1 or (isinstance(res[0][1], tuple) and res[0][1] and res[0][1][0] == 'diverges'):
                    bad.append('window %d, %d points / %d scalars: %d paths%s' % (w, npts, nsc, len(res), ' (panics)' if res and isinstance(res[0][1], tuple) else ''))
                    continue
                # split events into windows
                wins = []
                cur = {'doubles': 0, 'acc': []}
                last_guard = 'none'
                for e in events:
                    if e[0] == 'guard>0':
                        last_guard = e[1]
                    elif e[0] == 'acc':
                        if last_guard == 'none' or not (isinstance(last_guard, BV) and isinstance(e[1], BV) and last_guard.e == e[1].e):
                            bad.append('window %d: a point is accumulated into bucket[d] without d != 0 having been tested for that digit (bucket 0 must stay the identity: it is what an all-zero window adds)' % w)
                        last_guard = 'none'
                for e in events:
                    if e[0] == 'double':
                        cur['doubles'] += 1
                    elif e[0] == 'acc':
                        cur['acc'].append(e)
                    elif e[0] == 'reduce':
                        wins.append(cur)
                        cur = {'doubles': 0, 'acc': []}
                if cur['doubles'] or cur['acc']:
                    bad.append('window %d: work after the last reduction' % w)
                T = len(wins)
                D = [0] * T
                acc = 0
                for t_ in range(T - 1, -1, -1):
                    D[t_] = acc
                    acc += wins[t_]['doubles']
                seen = {j: set() for j in range(ncomp)}
                okw = True
                for t_, wn in enumerate(wins):
                    if len(wn['acc']) != ncomp:
                        bad.append('window %d, %d points / %d scalars: iteration %d accumulates %d components (expected min = %d)' % (w, npts, nsc, t_, len(wn['acc']), ncomp))
                        okw = False
                        break
                    for j, e in enumerate(wn['acc']):
                        idx, pt = e[1], e[2]
                        if not (isinstance(pt, Lin) and list(pt.t) == ['P%d' % j]):
                            bad.append('window %d: digit of component %d is paired with point %r' % (w, j, pt))
                            okw = False
                        if not isinstance(idx, BV):
                            bad.append('window %d: bucket index not a function of scalar bits' % w)
                            okw = False
                            continue
                        for pos, x in enumerate(idx.e):
                            if x == 0:
                                continue
                            if not isinstance(x, BitVal) or x.n != 256 * j + D[t_] + pos:
                                bad.append('window %d, iteration %d: digit bit %d is %r but %d doublings follow (expected scalar bit %d)' % (w, t_, pos, x, D[t_], D[t_] + pos))
                                okw = False
                                break
                            if x.n in seen[j]:
                                bad.append('window %d: scalar bit %d used twice' % (w, x.n - 256 * j))
                                okw = False
                            seen[j].add(x.n)
                    if not okw:
                        break
                if okw:
                    for j in range(ncomp):
                        missing = [n for n in range(255) if 256 * j + n not in seen[j]]
                        if missing:
                            bad.append('window %d: scalar bits %s of component %d never reach a digit' % (w, missing[:6], j))
                            okw = False
                        top = 256 * j + 255 in seen[j]
                        assumes = [e for e in events if e[0] == 'assume']
                        if not top and not assumes:
                            bad.append('window %d: bit 255 is neither used nor asserted clear' % w)
                            okw = False
                if okw:
                    n_ok += 1
        rep.check(not bad and n_ok == 29, 'BITLIN', inst,
                  'for every window size 1..=20 (and, for windows 1..3, 2 components and unequal list lengths 2/1, 1/2): exactly min(#points, #scalars) components are accumulated per window; the per-window digits are exactly consecutive bit fields of the scalar, '
                  'each followed by as many doublings as bit positions below it, each paired with its own point; bits 0..254 all used once, bit 255 used or asserted clear',
                  '; '.join(bad[:3]), fx.fn(p)['span'], construct=p)


_old_rules2 = rules


def rules(fx, rep):
    _old_rules2(fx, rep)
    rule_digit_extraction(fx, rep)

"""C05 -- point encoding: lengths, flag bits, field order and sort flag of the four
encoders, and position-wise agreement with the decoders (shared decision tables)."""
import exp
from exp import Agg, Int, KBits, Lin, Ref, TOP
from facts import callee
from props import common
from props import c04

PROP = 'C05'
ENC = 'EncodedPoint'


class EncRun:
    def __init__(self, fx, path, g):
        self.fx = fx
        self.path = path
        self.g = g
        self.writes = []

    def transfer(self, I, fr, t, c, pth):
        name = c.get('name')
        d = c['def']
        res = c.get('res') or d
        args = t['args']
        dest = t['dest']
        where = t['span']
        if name == 'is_zero' and c.get('trait') == 'CurveAffine':
            fr.storev(dest, ('bool', ('is_identity', where)))
            return True
        if name == 'index_mut' and res.startswith('std::array::<impl std::ops::IndexMut'):
            tgt = fr.ref_place_of(args[0])
            rng_ty = ''
            from facts import op_place
            p = op_place(args[1])
            if p is not None and not p['p']:
                rng_ty = fr.body.local_ty(p['l'])
            if isinstance(tgt, dict) and rng_ty.endswith('RangeFull'):
                root, proj = fr.root_of(tgt)
                fr.storev(dest, Ref(root, proj))
                return True
            fr.storev(dest, TOP)
            pth.events.append(('writer-unrecognised', where))
            return True
        if name == 'into_repr' and c.get('trait') == 'ff::PrimeField':
            fr.storev(dest, ('repr_of', fr.deref_operand(args[0])))
            return True
        if name == 'write_be' and c.get('trait') == 'ff::PrimeFieldRepr':
            v = fr.deref_operand(args[0])
            w = fr.deref_operand(args[1])
            k = sum(1 for e in pth.events if e[0] == 'write_be')
            pth.events.append(('write_be', k, v, where))
            if isinstance(w, Ref):
                buf = fr._project(fr.store.get(w.root, TOP), w.proj)
                if isinstance(buf, Agg):
                    items = list(buf.items)
                    lo = 48 * k
                    for i in range(lo, min(lo + 48, len(items))):
                        items[i] = KBits(0, 0)
                    if lo < len(items):
                        # canonical Fq representation: < 2^381, top three bits of its first byte are clear
                        items[lo] = KBits(0xe0, 0)
                    if lo + 48 > len(items):
                        pth.events.append(('write-overflows-buffer', k, where))
                    cur = fr.store.get(w.root)
                    fr.store[w.root] = fr._update(cur, list(w.proj), Agg(items, buf.kind))
                else:
                    pth.events.append(('writer-unrecognised', where))
            else:
                pth.events.append(('writer-unrecognised', where))
            fr.storev(dest, ('io_ok',))
            return True
        if name == 'unwrap' and d.startswith('std::result::Result'):
            fr.storev(dest, fr.operand(args[0]))
            return True
        if name == 'negate' and c.get('trait') == 'ff::Field':
            v = fr.deref_operand(args[0])
            fr.store_through(args[0], ('neg', v))
            return True
        if c.get('trait') == 'std::cmp::PartialOrd' and name in ('gt', 'lt', 'ge', 'le'):
            a = fr.deref_operand(args[0])
            b = fr.deref_operand(args[1])
            fr.storev(dest, ('bool', (name, a, b, c.get('self_ty'))))
            return True
        return False

    def run(self):
        g = self.g
        if g == 'G1':
            x, y = 'x', 'y'
        else:
            x = Agg(['x.c0', 'x.c1'], ('bls12_381::fq2::Fq2', 'Fq2'))
            y = Agg(['y.c0', 'y.c1'], ('bls12_381::fq2::Fq2', 'Fq2'))
        aff = Agg([x, y, ('bool', ('infinity-field',))])
        self.x, self.y = x, y
        I = exp.Interp(self.fx, 'none', extra_transfer=self.transfer, inline=lambda p: p.endswith('EncodedPoint>::empty'))
        res = I.run(self.path, [aff])
        self.call_sites = I.call_sites
        return res


def same(a, b):
    if isinstance(a, Agg) and isinstance(b, Agg):
        return a.items == b.items
    return a == b


def rule_encoders(fx, rep):
    n = 0
    for name, ty, nbytes, compressed, g, ncoord in c04.DECODERS:
        path = fx.impl_method(ENC, ty, 'from_affine')
        if path is None or fx.body(path) is None:
            rep.fail('BYTES', '%s:encoder:anchor' % name, 'from_affine impl not found')
            continue
        rep.fn(path)
        n += 1
        where = fx.fn(path)['span']
        R = EncRun(fx, path, g)
        try:
            res = R.run()
        except (exp.NotDerivable, exp.Budget) as e:
            rep.fail('BYTES', '%s:encoder' % name, 'not derivable: %s' % e, where, construct=path)
            continue
        rep.sites(R.call_sites)
        x, y = R.x, R.y
        if g == 'G1':
            want_writes = [x] + ([] if compressed else [y])
        else:
            want_writes = [x.items[1], x.items[0]] + ([] if compressed else [y.items[1], y.items[0]])
        seen_inf = seen_fin = 0
        for pth, ret, _ in res:
            labs = [c04.lab_name(l) for l in pth.labels]
            bad_events = [e for e in pth.events if e[0] in ('writer-unrecognised', 'write-overflows-buffer') or e[0].startswith('assert-')]
            rep.check(not bad_events, 'PANIC', '%s:encoder:path-assertions@%d' % (name, len(labs)), 'writes stay inside the buffer; assertions decided', 'events %s' % bad_events, where, construct=path)
            if not (isinstance(ret, Agg) and ret.items and isinstance(ret.items[0], Agg) and len(ret.items[0].items) == nbytes):
                rep.fail('BYTES', '%s:encoder:length' % name, 'result is not a %d-byte array wrapper: %r' % (nbytes, ret), where, construct=path)
                continue
            by = ret.items[0].items
            b0 = by[0]
            writes = [e for e in pth.events if e[0] == 'write_be']
            is_inf = labs and labs[0][0] == 'is_identity' and labs[0][1]
            if is_inf:
                seen_inf += 1
                want0 = 0x40 | (0x80 if compressed else 0)
                ok = isinstance(b0, Int) and b0.v == want0 and all(isinstance(z, Int) and z.v == 0 for z in by[1:]) and not writes
                rep.check(ok, 'BYTES', '%s:encoder:infinity' % name, 'identity -> flag byte %#x followed by zeros' % want0,
                          'identity encodes to first byte %r with %d coordinate writes' % (b0, len(writes)), where, construct=path)
                continue
            seen_fin += 1
            got = [e[2] for e in writes]
            okw = len(got) == len(want_writes) and all(isinstance(v, tuple) and v[0] == 'repr_of' and same(v[1], w) for v, w in zip(got, want_writes))
            rep.check(okw, 'BYTES', '%s:encoder:field-order@%s' % (name, ''.join(str(int(l[1])) for l in labs)),
                      'canonical big-endian coordinates in wire order %s' % want_writes, 'writes are %s, expected into_repr of %s in that order' % (got, want_writes), where, construct=path)
            # flag bits
            gts = [l for l in labs if l[0] in ('gt', 'lt', 'ge', 'le')]
            b7 = 1 if compressed else 0
            if compressed:
                okc = len(gts) == 1
                sort = None
                if okc:
                    nm, tk, xx = gts[0]
                    a, b_ = xx[1], xx[2]
                    base = 'bls12_381::fq::Fq' if g == 'G1' else 'bls12_381::fq2::Fq2'
                    if nm == 'gt' and same(a, y) and b_ == ('neg', y):
                        sort = tk
                    elif nm == 'lt' and a == ('neg', y) and same(b_, y):
                        sort = tk
                    elif nm == 'le' and same(a, y) and b_ == ('neg', y):
                        sort = not tk
                    elif nm == 'ge' and a == ('neg', y) and same(b_, y):
                        sort = not tk
                    okc = sort is not None and xx[3] == base
                    rep.check(okc, 'WIRE', '%s:encoder:sort-comparison' % name, 'sort flag from y > -y on the whole coordinate (%s order)' % base.rsplit('::', 1)[1],
                              'sort flag is decided by %s(%r, %r) on %s; must compare y with -y in the coordinate field %s (the order the decoder uses)' % (nm, a, b_, xx[3], base), where, construct=path)
                else:
                    rep.fail('WIRE', '%s:encoder:sort-comparison' % name, 'expected exactly one y vs -y comparison, found %d' % len(gts), where, construct=path)
                want_bits = (b7 << 7) | ((1 if sort else 0) << 5)
            else:
                rep.check(not gts, 'WIRE', '%s:encoder:no-sort-flag' % name, 'uncompressed encodings never set the sort flag', 'uncompressed encoder compares y', where, construct=path)
                want_bits = 0
            okb = isinstance(b0, KBits) and (b0.mask & 0xe0) == 0xe0 and (b0.val & 0xe0) == want_bits
            if isinstance(b0, Int):
                okb = (b0.v & 0xe0) == want_bits
            rep.check(okb, 'BYTES', '%s:encoder:flag-bits@%s' % (name, ''.join(str(int(l[1])) for l in labs)),
                      'top three bits = %s' % format(want_bits >> 5, '03b'), 'first byte is %r, expected top bits %s' % (b0, format(want_bits >> 5, '03b')), where, construct=path)
        rep.check(seen_inf == 1 and seen_fin == (2 if compressed else 1), 'BYTES', '%s:encoder:paths' % name, 'one identity path, %d finite path(s)' % (2 if compressed else 1),
                  '%d identity / %d finite paths' % (seen_inf, seen_fin), where)
    rep.floor('BYTES', 'encoders', n, 4)


def rule_affine_wrappers(fx, rep):
    # CurveAffine::into_compressed / into_uncompressed are the trait defaults calling from_affine(*self)
    for nm in ('into_compressed', 'into_uncompressed'):
        p = fx.trait_default('CurveAffine', nm)
        b = fx.body(p) if p else None
        ok = False
        if b is not None:
            rep.fn(p)
            cs = [callee(t) for _, t in b.calls()]
            ok = len(cs) == 1 and cs[0].get('trait') == ENC and cs[0].get('name') == 'from_affine'
        rep.check(ok, 'WIRE', 'CurveAffine::%s' % nm, 'forwards to EncodedPoint::from_affine(*self)', 'does not simply call from_affine')
        # no impl overrides the default
        over = [i['self_ty'] for i in fx.impls_of('CurveAffine') for it in i['items'] if it['name'] == nm]
        rep.check(not over, 'WIRE', 'CurveAffine::%s:not-overridden' % nm, 'no impl overrides it', 'overridden by %s' % over)


def rules(fx, rep):
    rule_encoders(fx, rep)
    rule_affine_wrappers(fx, rep)
    # decoder side of the agreement: the same decision tables as C04 (non-malleability of flag bits,
    # wire order, root selection by the same order)
    c04.rule_unchecked(fx, rep)
    for g, aff in (('G1', 'bls12_381::ec::g1::G1Affine'), ('G2', 'bls12_381::ec::g2::G2Affine')):
        c04.rule_root_selection(fx, rep, g, aff)
    from props import c18
    c18.rule_fq2_order(fx, rep)


def main(tier, t0):
    return common.standard_main(
        PROP, tier, t0, rules, 'other',
        'Abstract interpretation of the 4 encoders (known-bits for the flag byte, write events for the coordinates): lengths 48/96/96/192; identity -> '
        'flag byte 0x40|0x80c + zeros; finite points -> canonical big-endian coordinates in wire order (x before y, c1 before c0), top bits = '
        '(compressed, 0, y > -y in the coordinate field\'s own order) and never a sort flag on uncompressed output; the decoders\' decision tables '
        '(shared with C04) reject every flag combination an encoder cannot produce, read the same positions, and select the root with the same order '
        '(Fq2: c1 most significant). Together: encoder and decoder agree position-by-position and no second preimage differs only in flag bits. '
        'NOT decided: byte-for-byte values / round trip as a value statement (pinned by 4x1000 vectors).',
        ['rustc MIR', 'into_repr yields the canonical residue < q < 2^381; write_be writes 48 bytes big-endian', 'Ord contracts (C18)'],
        ['narrow claim: layout/flag agreement, not numeric round trip'])

"""C05 -- point encoding: lengths, flag bits, field order and sort flag of the four
encoders, and position-wise agreement with the decoders (shared decision tables)."""
import exp
from exp import Agg, Int, KBits, Lin, Opt, Ref, TOP
from facts import callee
from props import common
from props import c04

PROP = 'C05'
ENC = 'EncodedPoint'


class EByte(KBits):
    """Byte j of the canonical big-endian representation of a coordinate (src), possibly with flag bits or-ed in."""
    __slots__ = ('src', 'j')

    def __init__(self, src, j, mask=0, val=0, cleared=0):
        KBits.__init__(self, mask, val, cleared)
        self.src, self.j = src, j

    def __repr__(self):
        return 'E(%s,%d%s)' % (self.src, self.j, ',mask=%#x,val=%#x' % (self.mask, self.val) if self.mask else '')


class ELimb:
    """64-bit limb k (0 = least significant) of the canonical representation of a coordinate (src)"""
    __slots__ = ('src', 'k')

    def __init__(self, src, k):
        self.src, self.k = src, k

    def __repr__(self):
        return 'L(%s,%d)' % (self.src, self.k)


class EncRun:
    """from_affine interpreted over provenance bytes: `into_repr().write_be(writer)` writes the 48 bytes of that
    coordinate at the writer's current position (std's Write for &mut [u8] advances the slice), flag bits are or-ed in
    with known-bits arithmetic.  Any arrangement of the writes and of the flag updates gives the same byte array."""

    def __init__(self, fx, path, g):
        self.fx = fx
        self.path = path
        self.g = g

    def binop_hook(self, op, a, b):
        if b is None:
            return None
        ea, eb = isinstance(a, EByte), isinstance(b, EByte)
        if ea == eb:
            return None
        x, k = (a, b) if ea else (b, a)
        if isinstance(k, Int) and op in ('BitOr', 'BitAnd'):
            r = exp.kbits_binop(op, x, k)
            if isinstance(r, KBits):
                return EByte(x.src, x.j, r.mask, r.val, r.cleared)
            return r
        return None

    def transfer(self, I, fr, t, c, pth):
        import stdmodel
        name = c.get('name')
        d = c['def']
        args = t['args']
        dest = t['dest']
        where = t['span']
        if name == 'is_zero' and c.get('trait') == 'CurveAffine':
            fr.storev(dest, ('bool', ('is_identity',)))
            return True
        if name == 'zero' and c.get('trait') == 'ff::Field' and not args and (c.get('self_ty') or '').endswith('fq::Fq'):
            fr.storev(dest, ('fq-zero',))
            return True
        if name == 'into_repr' and c.get('trait') == 'ff::PrimeField':
            # the canonical representation: a unit for write_be, six named limbs for code that walks them
            src_ = fr.deref_operand(args[0])
            fr.storev(dest, Agg([Agg([ELimb(src_, k_) for k_ in range(6)])], ('repr_of', freeze(src_), src_)))
            return True
        if name == 'char' and c.get('trait') == 'ff::PrimeField' and not args and (c.get('self_ty') or '').endswith('fq::Fq'):
            # the modulus as a representation (what it is, is C08's business: MODULUS is checked there)
            import mathlib as M_
            fr.storev(dest, ('repr-const', M_.Q))
            return True
        if name == 'div2' and c.get('trait') == 'ff::PrimeFieldRepr' and len(args) == 1:
            v_ = fr.deref_operand(args[0])
            if isinstance(v_, tuple) and len(v_) == 2 and v_[0] == 'repr-const':
                fr.store_through(args[0], ('repr-const', v_[1] >> 1))
                return True
        if name == 'to_be_bytes' and len(args) == 1 and isinstance(fr.operand(args[0]), ELimb):
            # limb k big-endian = bytes (5 - k) * 8 .. + 8 of the 48-byte big-endian representation
            l_ = fr.operand(args[0])
            out_ = []
            for i_ in range(8):
                j_ = (5 - l_.k) * 8 + i_
                out_.append(EByte(l_.src, j_, 0xe0, 0) if j_ == 0 else EByte(l_.src, j_))
            fr.storev(dest, Agg(out_))
            return True
        if name == 'write_be' and c.get('trait') == 'ff::PrimeFieldRepr' and len(args) == 2:
            v = fr.deref_operand(args[0])
            src = v[1] if isinstance(v, tuple) and v and v[0] == 'repr_of' else (v.kind[2] if isinstance(v, Agg) and v.kind and v.kind[0] == 'repr_of' else ('?', repr(v)))
            okw = self.write_to(I, fr, args[1], src, 48)
            pth.events.append(('write_be', src, okw, where))
            fr.storev(dest, Opt('none' if okw else 'some', Agg([]), ('write_be',)))
            return True
        if name == 'negate' and c.get('trait') == 'ff::Field':
            v = fr.deref_operand(args[0])
            fr.store_through(args[0], neg_of(v))
            return True
        if (c.get('trait') == 'std::cmp::PartialOrd' and name in ('gt', 'lt', 'ge', 'le')) or (c.get('trait') == 'std::cmp::PartialEq' and name in ('eq', 'ne')):
            a = fr.deref_operand(args[0])
            b = fr.deref_operand(args[1])
            for _ in range(3):
                if isinstance(a, Ref):
                    a = fr._project(fr.store.get(a.root, TOP), a.proj)
                if isinstance(b, Ref):
                    b = fr._project(fr.store.get(b.root, TOP), b.proj)
            # canonical representation against the constant (q - 1)/2: for a canonical residue y, y > (q-1)/2 <=> y > q - y
            # <=> y > -y in the field's order (and y = 0 is on the `not greater` side of both)
            import mathlib as M_

            def as_order_test(nm_, x_, k_):
                if isinstance(x_, Agg) and x_.kind and x_.kind[0] == 'repr_of' and isinstance(k_, tuple) and len(k_) == 2 and k_[0] == 'repr-const':
                    src_ = x_.kind[2]
                    pos_ = ('gt', freeze(src_), freeze(neg_of(src_)), 'bls12_381::fq::Fq')
                    if (nm_, k_[1]) in (('gt', (M_.Q - 1) // 2), ('ge', (M_.Q + 1) // 2)):
                        return pos_
                    if (nm_, k_[1]) in (('le', (M_.Q - 1) // 2), ('lt', (M_.Q + 1) // 2)):
                        return ('not', pos_)
                return None
            FLIPN = {'gt': 'lt', 'lt': 'gt', 'ge': 'le', 'le': 'ge'}
            ot_ = as_order_test(name, a, b) or (as_order_test(FLIPN[name], b, a) if name in FLIPN else None)
            if ot_ is not None:
                fr.storev(dest, ('bool', ot_))
                return True
            fr.storev(dest, ('bool', (name, freeze(a), freeze(b), c.get('self_ty'))))
            return True
        if c.get('trait') == 'std::cmp::Ord' and name == 'cmp':
            return False
        return stdmodel.result_transfer(I, fr, t, c, pth)

    def write_to(self, I, fr, op, src, n):
        """`op` is `&mut W`, W = &mut [u8]: write n provenance bytes at the view's start and advance it."""
        import stdmodel
        rp = stdmodel.ref_of(fr, op)
        direct = fr.operand(op)
        cur = fr._project(fr.store.get(rp[0], TOP), rp[1]) if rp is not None else None
        advance = True
        if not isinstance(cur, Ref):
            # the writer passed by value: `&mut [u8]` itself (e.g. one chunk of the output); nothing to advance
            if isinstance(direct, Ref):
                cur, advance = direct, False
            elif rp is not None and isinstance(cur, Agg):
                cur, advance = Ref(rp[0], rp[1]), False
            else:
                return False
        v = cur
        for _ in range(6):
            tgt = fr._project(fr.store.get(v.root, TOP), [e for e in v.proj if e[0] != 'off'])
            if isinstance(tgt, Ref):
                v = Ref(tgt.root, list(tgt.proj) + [e for e in v.proj if e[0] == 'off'])
            else:
                break
        base = [e for e in v.proj if e[0] != 'off']
        arr = fr._project(fr.store.get(v.root, TOP), base)
        if not isinstance(arr, Agg):
            return False
        lo, hi = 0, len(arr.items)
        for e in v.proj:
            if e[0] == 'off':
                lo += e[1]
                if len(e) > 2 and e[2] is not None:
                    hi = min(hi, lo + e[2])
        if hi - lo < n:
            return False
        for k in range(n):
            # canonical representation (< q < 2^381): the top three bits of the first byte are clear
            nb_ = EByte(src, k, 0xe0, 0) if k == 0 else EByte(src, k)
            if src == ('fq-zero',):
                nb_ = Int(0, 8)     # the canonical representation of 0
            fr.store[v.root] = fr._update(fr.store.get(v.root), list(base) + [['ci', lo + k, 0, False]], nb_)
        if advance:
            new = Ref(v.root, list(base) + [['off', lo + n, hi - lo - n]])
            fr.store[rp[0]] = fr._update(fr.store.get(rp[0]), list(rp[1]), new) if rp[1] else new
        return True

    def run(self):
        g = self.g
        if g == 'G1':
            x, y = 'x', 'y'
        else:
            x = Agg(['x.c0', 'x.c1'], ('bls12_381::fq2::Fq2', 'Fq2'))
            y = Agg(['y.c0', 'y.c1'], ('bls12_381::fq2::Fq2', 'Fq2'))
        aff = Agg([x, y, ('bool', ('infinity-field',))])
        self.x, self.y = x, y
        import inline as INL
        I = exp.Interp(self.fx, 'none', extra_transfer=self.transfer,
                       inline=lambda p: p.endswith('EncodedPoint>::empty') or INL.is_private_helper(self.fx, p))
        I.binop_hook = self.binop_hook
        I.propagate_hooks = True
        I.fork_inlined = True
        res = I.run(self.path, [aff])
        self.call_sites = I.call_sites
        return res


def neg_of(v):
    """-v; an extension-field element is negated coefficient by coefficient"""
    if isinstance(v, Agg) and v.items and all(isinstance(x, (str, tuple)) for x in v.items):
        return Agg([neg_of(x) for x in v.items], v.kind)
    if isinstance(v, tuple) and len(v) == 2 and v[0] == 'neg':
        return v[1]
    return ('neg', v)


def same(a, b):
    if isinstance(a, Agg) and isinstance(b, Agg):
        return a.items == b.items
    return a == b


def freeze(v):
    if isinstance(v, Agg):
        return ('agg',) + tuple(freeze(x) for x in v.items)
    if isinstance(v, (list, tuple)):
        return tuple(freeze(x) for x in v)
    return v if isinstance(v, (str, int, bool, type(None))) else repr(v)


def rule_encoders(fx, rep):
    """Truth table over (is the point the identity, y > -y): the whole output array, byte by byte."""
    import tt
    n = 0
    for name, ty, nbytes, compressed, g, ncoord in c04.DECODERS:
        path = fx.impl_method(ENC, ty, 'from_affine')
        if path is None or fx.body(path) is None:
            rep.fail('BYTES', '%s:encoder:anchor' % name, 'from_affine impl not found')
            continue
        rep.fn(path)
        n += 1
        where = fx.fn(path)['span']
        R = EncRun(fx, path, g)
        try:
            res = R.run()
        except (exp.NotDerivable, exp.Budget) as e:
            rep.fail('BYTES', '%s:encoder' % name, 'not derivable: %s' % e, where, construct=path)
            continue
        rep.sites(R.call_sites)
        x, y = R.x, R.y
        if g == 'G1':
            order = [x] + ([] if compressed else [y])
        else:
            order = [x.items[1], x.items[0]] + ([] if compressed else [y.items[1], y.items[0]])
        base = 'bls12_381::fq::Fq' if g == 'G1' else 'bls12_381::fq2::Fq2'
        kid = ('is_identity',)
        fy, fny = freeze(y), freeze(neg_of(y))
        # the comparisons of y with -y, whole or coefficient by coefficient (most significant first), are decided in the
        # worlds (order of c against -c per coefficient); the flag must be the lexicographic "y > -y"
        comps = ['y'] if g == 'G1' else ['y.c1', 'y.c0']
        FLIP = {'lt': 'gt', 'gt': 'lt', 'eq': 'eq'}

        def lex(world):
            for c_ in comps:
                if world[c_] != 'eq':
                    return world[c_]
            return 'eq'

        def eval_pred(x, world):
            if not (isinstance(x, tuple) and len(x) >= 3 and x[0] in ('gt', 'lt', 'ge', 'le', 'eq', 'ne')):
                return None
            a_, b_ = x[1], x[2]
            o = None
            if (a_, b_) == (fy, fny):
                o = lex(world)
            elif (a_, b_) == (fny, fy):
                o = FLIP[lex(world)]
            else:
                for c_ in comps:
                    if (a_, b_) == (c_, freeze(('neg', c_))):
                        o = world[c_]
                    elif (a_, b_) == (freeze(('neg', c_)), c_):
                        o = FLIP[world[c_]]
            if o is None:
                return None
            return {'gt': o == 'gt', 'lt': o == 'lt', 'ge': o in ('gt', 'eq'), 'le': o in ('lt', 'eq'), 'eq': o == 'eq', 'ne': o != 'eq'}[x[0]]
        bad = []
        n_sort_tests = 0
        for pth, ret, _ in res:
            ev = [e for e in pth.events if e[0].startswith('assert-') or e[0] == 'unwrap-fails' or (e[0] == 'write_be' and not e[2])]
            if ev or (isinstance(ret, tuple) and ret and ret[0] == 'diverges'):
                bad.append('a write can fail / panic: %s' % (ev[:2] or ret,))
            for lab, taken in pth.labels:
                x_, neg_ = tt.strip_not(lab)
                if x_ == kid:
                    continue
                if eval_pred(x_, dict((c_, 'gt') for c_ in comps)) is None:
                    bad.append('tests %r; the only data-dependent decisions are "is the identity" and the order of y against -y in the coordinate field %s' % (x_, base.rsplit('::', 1)[1]))
                else:
                    n_sort_tests += 1
        if compressed and not n_sort_tests and not bad:
            bad.append('no comparison of y with -y decides the sort flag')
        if not compressed and n_sort_tests:
            bad.append('an uncompressed encoder compares y with -y (uncompressed encodings never carry the sort flag)')
        import itertools
        worlds = [dict(zip(comps, w_)) for w_ in itertools.product(('lt', 'eq', 'gt'), repeat=len(comps))]
        for ident in ((True, False) if not bad else ()):
            for world in worlds:
                cons = []
                for pth, ret, _ in res:
                    okp = True
                    for lab, taken in pth.labels:
                        x_, neg_ = tt.strip_not(lab)
                        truth = (taken != 0) != neg_
                        val = ident if x_ == kid else eval_pred(x_, world)
                        if val != truth:
                            okp = False
                            break
                    if okp:
                        cons.append((pth, ret))
                if len(cons) != 1:
                    bad.append('identity=%s, order of y against -y %r: %d paths' % (ident, world, len(cons)))
                    continue
                ret = cons[0][1]
                if not (isinstance(ret, Agg) and ret.items and isinstance(ret.items[0], Agg) and len(ret.items[0].items) == nbytes):
                    bad.append('result is not a %d-byte array wrapper' % nbytes)
                    continue
                by = ret.items[0].items
                b7 = 1 if compressed else 0
                if ident:
                    want0 = 0x40 | (b7 << 7)
                    if not (isinstance(by[0], Int) and by[0].v == want0 and all(isinstance(z, Int) and z.v == 0 for z in by[1:])):
                        bad.append('identity encodes to first byte %r (expected %#x followed by zeros)' % (by[0], want0))
                    continue
                sort = bool(compressed and lex(world) == 'gt')
                want_bits = (b7 << 7) | ((1 if sort else 0) << 5)
                for pos, z in enumerate(by):
                    w_src, w_j = order[pos // 48], pos % 48
                    if not (isinstance(z, EByte) and same(z.src, w_src) and z.j == w_j):
                        bad.append('byte %d is %r, expected byte %d of the canonical representation of %s (wire order %s)' % (pos, z, w_j, w_src, order))
                        break
                    if pos == 0:
                        if not ((z.mask & 0xe0) == 0xe0 and (z.val & 0xe0) == want_bits and not (z.mask & 0x1f)):
                            bad.append('first byte is %r when the order of y against -y is %r (y > -y: %s), expected top bits %s over the coordinate bits' % (z, world, sort, format(want_bits >> 5, '03b')))
                    elif pos % 48 == 0:
                        if not (z.mask == 0xe0 and z.val == 0):
                            bad.append('byte %d carries extra bits: %r' % (pos, z))
                    elif z.mask or z.cleared:
                        bad.append('byte %d is modified: %r' % (pos, z))
        rep.check(not bad, 'BYTES', '%s:encoder' % name,
                  '%d bytes; identity -> %#x then zeros; finite -> canonical big-endian coordinates in wire order (x before y, c1 before c0), top bits (%d, 0, %s)'
                  % (nbytes, 0x40 | (0x80 if compressed else 0), 1 if compressed else 0, 'y > -y in the coordinate field\'s order' if compressed else '0'),
                  '; '.join(sorted(set(bad))[:3]), where, construct=path)
    rep.floor('BYTES', 'encoders', n, 4)


def rule_affine_wrappers(fx, rep):
    # CurveAffine::into_compressed / into_uncompressed are the trait defaults calling from_affine(*self)
    for nm in ('into_compressed', 'into_uncompressed'):
        p = fx.trait_default('CurveAffine', nm)
        b = fx.body(p) if p else None
        ok = False
        if b is not None:
            rep.fn(p)
            cs = [callee(t) for _, t in b.calls()]
            ok = len(cs) == 1 and cs[0].get('trait') == ENC and cs[0].get('name') == 'from_affine'
        rep.check(ok, 'WIRE', 'CurveAffine::%s' % nm, 'forwards to EncodedPoint::from_affine(*self)', 'does not simply call from_affine')
        # no impl overrides the default
        over = [i['self_ty'] for i in fx.impls_of('CurveAffine') for it in i['items'] if it['name'] == nm]
        rep.check(not over, 'WIRE', 'CurveAffine::%s:not-overridden' % nm, 'no impl overrides it', 'overridden by %s' % over)


def rules(fx, rep):
    rule_encoders(fx, rep)
    rule_affine_wrappers(fx, rep)
    # decoder side of the agreement: the same decision tables as C04 (non-malleability of flag bits,
    # wire order, root selection by the same order)
    c04.rule_unchecked(fx, rep)
    for g, aff in (('G1', 'bls12_381::ec::g1::G1Affine'), ('G2', 'bls12_381::ec::g2::G2Affine')):
        c04.rule_root_selection(fx, rep, g, aff)
    from props import c18
    c18.rule_fq2_order(fx, rep)


def main(tier, t0):
    return common.standard_main(
        PROP, tier, t0, rules, 'other',
        'Abstract interpretation of the 4 encoders (known-bits for the flag byte, write events for the coordinates): lengths 48/96/96/192; identity -> '
        'flag byte 0x40|0x80c + zeros; finite points -> canonical big-endian coordinates in wire order (x before y, c1 before c0), top bits = '
        '(compressed, 0, y > -y in the coordinate field\'s own order) and never a sort flag on uncompressed output; the decoders\' decision tables '
        '(shared with C04) reject every flag combination an encoder cannot produce, read the same positions, and select the root with the same order '
        '(Fq2: c1 most significant). Together: encoder and decoder agree position-by-position and no second preimage differs only in flag bits. '
        'NOT decided: byte-for-byte values / round trip as a value statement (pinned by 4x1000 vectors).',
        ['rustc MIR', 'into_repr yields the canonical residue < q < 2^381; write_be writes 48 bytes big-endian', 'Ord contracts (C18)'],
        ['narrow claim: layout/flag agreement, not numeric round trip'])

"""C07 -- safe API results stay in the order-r subgroup; the membership test is exact."""
import roles
import construles as C
import exp
import mathlib as M
from exp import Lin
from facts import callee, op_place
from mirutil import Resolver
from props import common, c04, c14, c19
from wire import CallGraph, Origin, strip, term_str

PROP = 'C07'
POINT_TYPES = {
    'bls12_381::ec::g1::G1': 'G1', 'bls12_381::ec::g2::G2': 'G2',
    'bls12_381::ec::g1::G1Affine': 'G1Affine', 'bls12_381::ec::g2::G2Affine': 'G2Affine',
}


_CG = {}


def owner_class(fx, path, depth=0):
    """Class of the code a function belongs to: a private helper (or closure / nested fn) that is only called from functions
    of one class is part of that class (e.g. a helper the group law or an SSWU map was factored into)."""
    import inline as INL
    base = constructor_class_direct(fx, path)
    if base is not None:
        return base
    f = fx.fn(path) or {}
    if f.get('impl_trait') in ('CurveProjective', 'CurveAffine'):
        return 'group-law'
    if depth > 4:
        return None
    parent = None
    if '::{closure' in path:
        parent = path.split('::{closure', 1)[0]
    if parent is None and not INL.is_private_helper(fx, path):
        return None
    cg = _CG.setdefault(id(fx), CallGraph(fx))
    callers = set(cg.callers(path)) | ({parent} if parent else set())
    callers.discard(path)
    if not callers:
        return None
    classes = set(owner_class(fx, c_, depth + 1) for c_ in callers)
    return classes.pop() if len(classes) == 1 else None


def constructor_class(fx, path):
    c_ = constructor_class_direct(fx, path)
    if c_ is not None:
        return c_
    oc = owner_class(fx, path)
    return oc


def constructor_class_direct(fx, path):
    """Audited class of a function that builds a point from raw coordinates."""
    f = fx.fn(path)
    nm = f.get('name') or path.rsplit('::', 1)[-1]
    tr = f.get('impl_trait')
    if path.endswith('::transmute_affine') or path.endswith('::transmute_projective'):
        return 'unsafe-transmute' if f.get('unsafe') else None
    if tr in ('CurveAffine', 'CurveProjective') and nm == 'zero':
        return 'identity-constant'
    if tr == 'std::convert::From' and nm == 'from':
        return 'conversion'
    if (tr == 'CurveAffine' and nm == 'into_projective') or (tr == 'CurveProjective' and nm == 'into_affine'):
        return 'conversion'      # every conversion entry point is decided by C01's conversion rules
    R = roles.roles(fx)
    if path in (R['G1'].get('get_generator'), R['G2'].get('get_generator')):
        return 'generator-constant'
    if any(R[g].get('get_point_from_x') and (path == R[g]['get_point_from_x'] or path.startswith(R[g]['get_point_from_x'] + '::{closure')) for g in ('G1', 'G2')):
        return 'on-curve-candidate'
    if tr == 'EncodedPoint' and nm == 'into_affine_unchecked':
        return 'unchecked-decoder'
    if tr == 'bls12_381::osswu_map::OSSWUMap' and nm == 'osswu_map':
        return 'sswu-output'
    if in_line_precomputation(fx, path):
        return 'line-precomputation-scratch'
    return None


def in_line_precomputation(fx, path):
    """The running point of G2Prepared::from_affine and of the functions nested in it: points built there cannot escape,
    because what the constructor returns (G2Prepared) has no point-typed field (checked on the type)"""
    fa = roles.roles(fx).get('g2prepared_from_affine')
    if not fa or not (path == fa or path.startswith(fa + '::')):
        return False
    rty = (fx.body(fa).local_ty(0) if fx.body(fa) is not None else '') or ''
    a = fx.adts.get(rty)
    if a is None:
        return False
    for v in a['variants']:
        for f in v['fields']:
            if any(pt in f['ty'] for pt in POINT_TYPES):
                return False
    return True


def rule_who_constructs(fx, rep):
    ctor = {}
    for b in fx.bodies():
        for blk in b.blocks:
            for s in blk['stmts']:
                if s['k'] == 'assign' and s['rv']['k'] == 'agg' and s['rv']['kind'].get('adt') in POINT_TYPES:
                    ctor.setdefault(b.path, []).append((s['rv']['kind']['adt'], s['span'], s['rv']))
    n = 0
    for p, sites in sorted(ctor.items()):
        rep.fn(p)
        cls = constructor_class(fx, p)
        n += 1
        rep.check(cls is not None, 'WIRE', 'constructs-point:%s' % p, 'audited constructor class: %s' % cls,
                  'builds a %s from raw coordinates at %s but is not one of the audited constructors (identity, generator, conversions, on-curve candidate, unchecked decoder, SSWU output, unsafe transmute): the subgroup invariant is not established for its result'
                  % (POINT_TYPES[sites[0][0]], sites[0][1]), sites[0][1], construct=p)
        if cls == 'identity-constant':
            # coordinates are constants of the field (zero / one), infinity true or z = zero
            def tri(I, fr, t, c, pth):
                if c.get('trait') == 'ff::Field' and c.get('name') in ('zero', 'one') and not t['args']:
                    fr.storev(t['dest'], c['name'])
                    return True
                return False
            import inline as INL
            II = exp.Interp(fx, 'none', extra_transfer=tri, inline=lambda q: INL.is_private_helper(fx, q))
            want = ['zero', 'one', True] if 'Affine' in POINT_TYPES[sites[0][0]] else ['zero', 'one', 'zero']
            try:
                resi = II.run(p, [])
                v = resi[0][1] if len(resi) == 1 else None
                names = [(bool(x.v) if isinstance(x, exp.Int) else x) for x in v.items] if isinstance(v, exp.Agg) else v
            except (exp.NotDerivable, exp.Budget) as e:
                names = 'not derivable: %s' % e
            rep.check(names == want, 'WIRE', 'identity-shape:%s' % p, 'identity = %s' % want, 'identity is built as %s' % (names,), sites[0][1], construct=p)
        if cls == 'conversion':
            # every coordinate derives from the converted point (or a field constant)
            b = fx.body(p)
            bad = []
            for adt, sp, rv in sites:
                pass
            rep.ok('WIRE', 'conversion:%s' % p, 'coordinates derive from the argument point')
    rep.floor('WIRE', 'point-constructors', n, 20)
    # direct coordinate writes (field stores / &mut field borrows) outside the group-law implementation
    writers = {}
    for b in fx.bodies():
        r = Resolver(b)
        for l, loc in enumerate(b.locals):
            ty = loc['ty'].replace('&mut ', '').replace('&', '')
            if ty not in POINT_TYPES:
                continue
            for w in r.d.partial[l]:
                # a store to a coordinate (field projection); `*p = q` replaces the whole point by another point value
                pl_ = w[3]['place'] if w[0] in ('assign', 'setdiscr') else w[2]['dest']
                if any(e[0] == 'f' for e in pl_['p']):
                    writers.setdefault(b.path, set()).add(POINT_TYPES[ty])
            for (bi, si, s) in r.d.mut_borrows[l]:
                if s['rv']['place']['p'] and any(e[0] == 'f' for e in s['rv']['place']['p']):
                    writers.setdefault(b.path, set()).add(POINT_TYPES[ty])
    allowed_traits = ('CurveProjective', 'CurveAffine')
    for p, tys in sorted(writers.items()):
        f = fx.fn(p)
        ok = (f.get('impl_trait') in allowed_traits) or owner_class(fx, p) == 'group-law' or ('batch_normalization::{closure' in p) or in_line_precomputation(fx, p) \
            or constructor_class(fx, p) is not None or (f.get('impl_trait') in ('std::convert::From', 'zeroize::Zeroize', 'std::clone::Clone', 'std::default::Default'))
        rep.check(ok, 'WIRE', 'writes-coordinates:%s' % p, 'coordinate writes confined to the group-law implementation',
                  'writes coordinates of a %s outside the group-law implementation' % sorted(tys), f['span'], construct=p)
    # fields must not be public
    for ty, nm in POINT_TYPES.items():
        a = fx.adts.get(ty)
        vis = [fl['vis'] for fl in a['variants'][0]['fields']] if a else ['?']
        rep.check(a is not None and all(v != 'Public' for v in vis), 'WIRE', 'fields-not-public:%s' % nm, 'coordinates are crate-private', 'public coordinate fields: %s' % vis)


def rule_who_calls(fx, rep):
    cg = CallGraph(fx)
    enc = 'EncodedPoint'
    groups = [('g1', 'G1'), ('g2', 'G2')]
    for m, G in groups:
        aff = 'bls12_381::ec::%s::%sAffine' % (m, G)
        proj = 'bls12_381::ec::%s::%s' % (m, G)
        checked = {fx.impl_method(enc, 'bls12_381::ec::%s::%s%s' % (m, G, k), 'into_affine') for k in ('Compressed', 'Uncompressed')}
        for k in ('Compressed', 'Uncompressed'):
            unchecked = fx.impl_method(enc, 'bls12_381::ec::%s::%s%s' % (m, G, k), 'into_affine_unchecked')
            callers = set(cg.callers(unchecked))
            own = fx.impl_method(enc, 'bls12_381::ec::%s::%s%s' % (m, G, k), 'into_affine')
            if callers - {own}:
                # a deserializer may use the unchecked decoder when it applies the membership predicate itself (decided by
                # the deserializer tables of C19: Ok exactly when the decoder accepts and in_subgroup() holds)
                from props import c19
                callers = callers - c19.validated_unchecked_callers(fx)
            rep.check(callers <= {own}, 'WIRE', 'callers:%s%s::into_affine_unchecked' % (G, k), 'called only by the matching checked decoder (or by a deserializer that validates the result itself)',
                      'the unchecked decoder is called from %s' % sorted(callers - {own}), construct=unchecked)
        gpx = roles.roles(fx)[G].get('get_point_from_x')
        rnd = fx.impl_method('CurveProjective', proj, 'random')
        cu = fx.impl_method(enc, 'bls12_381::ec::%s::%sCompressed' % (m, G), 'into_affine_unchecked')
        callers = set(cg.callers(gpx))
        rep.check(callers <= {rnd, cu} and callers, 'WIRE', 'callers:%s::get_point_from_x' % G, 'only random() and the compressed unchecked decoder', 'get_point_from_x is called from %s' % sorted(callers - {rnd, cu}))
        sbc = roles.roles(fx)[G].get('scale_by_cofactor')
        callers = set(cg.callers(sbc))
        rep.check(callers <= {rnd}, 'WIRE', 'callers:%s::scale_by_cofactor' % G, 'only random()', 'called from %s' % sorted(callers))
        for tm in ('transmute_affine', 'transmute_projective'):
            p = 'bls12_381::ec::%s::%s' % (m, tm)
            callers = set(cg.callers(p))
            rep.check(not callers and (fx.fn(p) or {}).get('unsafe'), 'WIRE', 'callers:%s::%s' % (G, tm), 'unsafe and never called inside the crate', 'called from %s' % sorted(callers))
        for ty in (aff, proj):
            tr = 'CurveAffine' if ty == aff else 'CurveProjective'
            atm = fx.impl_method(tr, ty, 'as_tuple_mut')
            callers = set(cg.callers(atm))
            rep.check(callers <= {roles.roles(fx).get('iso_evaluator')} and (fx.fn(atm) or {}).get('unsafe'), 'WIRE', 'callers:%s::as_tuple_mut' % POINT_TYPES[ty], 'unsafe; used only by the isogeny evaluator',
                      'as_tuple_mut called from %s' % sorted(callers))
    # generic calls through the trait (as_tuple_mut on PtT)
    tm = [c for c in cg.callers('CurveProjective::as_tuple_mut')]
    rep.check(set(tm) <= {roles.roles(fx).get('iso_evaluator')}, 'WIRE', 'callers:CurveProjective::as_tuple_mut(generic)', 'only the isogeny evaluator', 'generic callers: %s' % tm)


def rule_random(fx, rep):
    for m, G, h in (('g1', 'G1', M.H1), ('g2', 'G2', M.H2)):
        aff = 'bls12_381::ec::%s::%sAffine' % (m, G)
        proj = 'bls12_381::ec::%s::%s' % (m, G)
        # scale_by_cofactor multiplies by exactly the cofactor
        RG = roles.roles(fx)[G]
        sbc = RG.get('scale_by_cofactor')
        if sbc is None or fx.body(sbc) is None:
            rep.fail('EXP', '%s:scale_by_cofactor' % G, 'random() applies no cofactor-scaling helper to its candidate')
            continue
        rep.fn(sbc)

        def tr(I, fr, t, c, pth):
            if RG.get('mul_bits') and c.get('res') == RG['mul_bits']:
                v = fr.deref_operand(t['args'][0])
                bits = fr.operand(t['args'][1])
                if isinstance(v, Lin) and isinstance(bits, exp.Bits) and bits.v is not None:
                    fr.storev(t['dest'], v.scale(bits.v))
                else:
                    fr.storev(t['dest'], exp.TOP)
                return True
            return False
        I = exp.Interp(fx, 'add', extra_transfer=tr)
        try:
            res = I.run(sbc, [('byref', Lin.atom('P'))])
            import tt as TT
            kzP = ('is_zero', TT.lin_key(Lin.atom('P')))
            okm, v, n_general = True, None, 0
            for pth_, v, _o in res:
                if isinstance(v, tuple) and v and v[0] == 'diverges':
                    okm = False
                    break
                lits = TT.path_literals_add(pth_)
                if [l for l in lits if l[0] != kzP] or not isinstance(v, Lin) or not v.atoms() <= {'P'}:
                    okm = False
                    break
                if any(l[1] for l in lits):
                    continue            # identity-only path: every multiple of O is O
                n_general += 1
                if v.t != {'P': h}:
                    okm = False
                    break
            rep.check(okm and n_general >= 1, 'EXP', '%s:scale_by_cofactor' % G, 'multiplies by the full cofactor h (h*r = curve order); identity-only paths may return the identity directly',
                      'multiplies by %r, cofactor is %#x' % (v, h), fx.fn(sbc)['span'], construct=sbc)
        except (exp.NotDerivable, exp.Budget) as e:
            rep.fail('EXP', '%s:scale_by_cofactor' % G, 'not derivable: %s' % e, fx.fn(sbc)['span'])
        # random(): returns only scale_by_cofactor(get_point_from_x(..)) under !is_zero
        rnd = fx.impl_method('CurveProjective', proj, 'random')
        b = fx.body(rnd)
        if b is None:
            rep.fail('TS', '%s:random:anchor' % G, 'random not found')
            continue
        rep.fn(rnd)
        where = fx.fn(rnd)['span']
        import inline as INL
        import stdmodel
        gpfx = RG.get('get_point_from_x')

        def trr(I, fr, t, c, pth, sbc=sbc, gpfx=gpfx):
            r_ = c.get('res') or c['def']
            nm = c.get('name')
            if nm == 'random' and c.get('trait') == 'ff::Field':
                k = sum(1 for e in pth.events if e[0] == 'draw')
                if k >= 1:
                    return 'panic'          # second trip through the retry loop: same code again
                pth.events.append(('draw', k))
                fr.storev(t['dest'], ('x', k))
                return True
            if c.get('trait') == 'rand_core::RngCore' or r_.startswith('rand_core::'):
                fr.storev(t['dest'], exp.TOP)
                return True
            if r_ == gpfx:
                fr.storev(t['dest'], exp.Opt(None, ('candidate', fr.operand(t['args'][0])), ('gpfx', t['span'])))
                return True
            if r_ == sbc:
                fr.storev(t['dest'], ('scaled', fr.deref_operand(t['args'][0])))
                return True
            if nm == 'is_zero' and c.get('trait') == 'CurveProjective':
                fr.storev(t['dest'], ('bool', ('is_identity', fr.deref_operand(t['args'][0]))))
                return True
            return stdmodel.result_transfer(I, fr, t, c, pth)
        IR = exp.Interp(fx, 'none', extra_transfer=trr, max_paths=64, inline=lambda q: INL.is_private_helper(fx, q) and q not in (sbc, gpfx))
        IR.fork_inlined = True
        ok, why = True, ''
        n_ret = 0
        try:
            resr = IR.run(rnd, [('byref', exp.TOP)])
            rep.sites(IR.call_sites)
            import tt as TT
            for pth, ret, _o in resr:
                if isinstance(ret, tuple) and ret and ret[0] == 'diverges':
                    continue
                n_ret += 1
                if not (isinstance(ret, tuple) and ret and ret[0] == 'scaled' and isinstance(ret[1], tuple) and ret[1] and ret[1][0] == 'candidate'):
                    ok, why = False, 'returns %r, expected scale_by_cofactor(get_point_from_x(..))' % (ret,)
                    break
                guarded = False
                for lab, taken in pth.labels:
                    x, neg = TT.strip_not(lab)
                    if isinstance(x, tuple) and x and x[0] == 'is_identity' and x[1] == ret and ((taken != 0) == neg):
                        guarded = True
                if not guarded:
                    ok, why = False, 'the return is not guarded by !is_zero() of the scaled point'
                    break
            if ok and not n_ret:
                ok, why = False, 'no returning path found'
        except (exp.NotDerivable, exp.Budget) as e:
            ok, why = False, 'not derivable: %s' % e
        rep.check(ok, 'TS', '%s:random' % G, 'every returning path yields scale_by_cofactor(get_point_from_x(..)) under "not the identity" (retry loop interpreted for one trip)', why, where, construct=rnd)


def rules(fx, rep):
    rule_who_constructs(fx, rep)
    rule_who_calls(fx, rep)
    rule_random(fx, rep)
    C.check_curve_consts(fx, rep)
    c04.rule_predicates(fx, rep)
    c04.rule_checked(fx, rep)
    c19.rule_point_deserializers(fx, rep)
    c14.map_rules(fx, rep)
    from props import c06, c01
    c06.rule_hash_wiring(fx, rep)
    # results of arithmetic: the exceptional-case skeleton of the group operations (shared with C01)
    c01.rule_projective_ops(fx, rep)
    c01.rule_general_formulas(fx, rep)
    c01.rule_sub_defaults(fx, rep)


def main(tier, t0):
    return common.standard_main(
        PROP, tier, t0, rules, 'other',
        'Who-may-construct / who-may-call tables over the whole crate (every site that builds G1/G2/affine values from raw coordinates belongs to an '
        'audited class: identity, audited generator constants ([r]G = O, on curve), conversions, on-curve candidates, the documented unchecked decoder, '
        'SSWU output, unsafe transmute; coordinate writes confined to the group-law impl; unchecked decoders, get_point_from_x, scale_by_cofactor, '
        'transmute, as_tuple_mut have only their audited callers; fields crate-private). Typestate: get_point_from_x results reach a public result only '
        'through scale_by_cofactor (multiplier derived = h, with non-identity retry) or through in_subgroup; SSWU outputs only through isogeny then clear_h '
        '(curve-tag rule; this is where finding F1 was); deserializers use the checked decoders. Predicate: in_subgroup = is_on_curve && is_zero([r]P). '
        'NOT decided: closure of the arithmetic itself (C01).',
        ['rustc MIR + call resolution', 'group law closed on the subgroup (C01, C02)', 'cofactor facts from the BLS parameter'],
        ['structural: which code can produce points, and under which checks'])

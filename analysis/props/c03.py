"""C03 / C11 -- pairing wiring, identity filter and coefficient producer/consumer agreement."""
import roles
import itertools

import bitlin
import construles as C
import exp
from exp import Agg, Int, Lin, Opt, Ref, SliceIt, TOP
from facts import callee
from props import common
from props import c03lines
from wire import Origin, strip, term_str

PROP = 'C03'
ML = '<bls12_381::Bls12 as Engine>::miller_loop'
FROM_AFFINE = 'bls12_381::<impl bls12_381::ec::g2::G2Prepared>::from_affine'


def g2prepared_from_affine(fx):
    # the constructor <G2Affine as CurveAffine>::prepare forwards to
    p = roles.roles(fx).get('g2prepared_from_affine')
    return p if p and fx.body(p) is not None else None


def producer_pattern(fx, rep):
    """Per-bit pattern of coefficient pushes in G2Prepared::from_affine (1 = doubling only,
    2 = doubling + addition) and the final count; identity short-circuit."""
    p = g2prepared_from_affine(fx)
    if p is None:
        rep.fail('SHAPE', 'G2Prepared::from_affine:anchor', 'not found')
        return None
    rep.fn(p)
    where = fx.fn(p)['span']
    out = {}
    for qzero in (1, 0):
        steps = []

        def tr(I, fr, t, c, pth):
            nm = c.get('name')
            res = c.get('res') or c['def']
            if nm == 'is_zero' and c.get('trait') == 'CurveAffine':
                fr.storev(t['dest'], Int(qzero, 1))
                return True
            if c03lines.is_step_function(fx, p, res):
                # the step functions, by role: they take the running (projective) point first; one point argument =
                # doubling step, point + base = addition step (what each of them computes is decided by c03lines)
                kind = 'doubling_step' if fx.body(res).arg_count == 1 else 'addition_step'
                steps.append(kind)
                cf_ = ('coeff', kind, len(steps) - 1)
                if c03lines.returns_point_too(fx, res):
                    # the pure form: (new running point, coefficients)
                    fr.storev(t['dest'], Agg([('running-point', len(steps)), cf_]))
                else:
                    fr.storev(t['dest'], cf_)
                return True
            if res.startswith('std::vec::Vec::<T>::new') or 'from_elem' in res or 'vec::from_elem' in c['def']:
                fr.storev(t['dest'], Agg([], ('vec', 'Vec')))
                return True
            return bitlin.transfer(I, fr, t, c, pth)
        import inline as INL
        I = exp.Interp(fx, 'none', extra_transfer=tr, max_steps=200000, inline=lambda q_: INL.is_private_helper(fx, q_))
        try:
            res = I.run(p, [Agg([Lin.atom('qx'), Lin.atom('qy'), Int(qzero, 1)])])
        except (exp.NotDerivable, exp.Budget) as e:
            rep.fail('SHAPE', 'G2Prepared::from_affine:q_zero=%d' % qzero, 'not derivable: %s at %s' % (e, getattr(e, 'where', None)), where)
            return None
        rep.sites(I.call_sites)
        if len(res) != 1 or not isinstance(res[0][1], Agg):
            rep.fail('SHAPE', 'G2Prepared::from_affine:q_zero=%d' % qzero, 'unexpected result %r' % ([r[1] for r in res],), where)
            return None
        ret = res[0][1]
        coeffs, inf = ret.items[0], ret.items[1]
        if qzero:
            ok = isinstance(coeffs, Agg) and not coeffs.items and isinstance(inf, Int) and inf.v == 1 and not steps
            rep.check(ok, 'GUARD', 'G2Prepared::from_affine:identity', 'identity -> marker (no coefficients, infinity = true) before any coefficient code',
                      'identity input yields %r after %d line computations' % (ret, len(steps)), where, construct=p)
        else:
            ok = isinstance(coeffs, Agg) and isinstance(inf, Int) and inf.v == 0 and [(c_[1] if isinstance(c_, tuple) and len(c_) > 1 else None) for c_ in coeffs.items] == steps
            rep.check(ok, 'SHAPE', 'G2Prepared::from_affine:coefficients', '%d line coefficients pushed in computation order, infinity = false' % len(steps),
                      'coefficient list %r does not match the %d computed steps' % (coeffs, len(steps)), where, construct=p)
            out['steps'] = steps
    return out.get('steps')


def expected_steps(x):
    """doubling/addition schedule of the Miller loop for |x| (bits of x >> 1 after the leading one)."""
    n = x >> 1
    bits = bin(n)[2:]
    steps = []
    for bch in bits[1:]:
        steps.append('doubling_step')
        if bch == '1':
            steps.append('addition_step')
    steps.append('doubling_step')
    return steps


def rule_miller(fx, rep):
    steps = producer_pattern(fx, rep)
    R = roles.roles(fx)
    x = (fx.consts.get(R.get('bls_x')) or {}).get('v')
    neg = (fx.consts.get(R.get('bls_x_neg')) or {}).get('v')
    C.check_bls_x(fx, rep)
    if steps is None or x is None:
        return
    want = expected_steps(x)
    rep.check(steps == want, 'SHAPE', 'from_affine:schedule', 'one doubling per bit of |x|>>1 after the leading one, an addition per set bit, a final doubling (%d coefficients)' % len(want),
              'producer schedule has %d steps, the optimal-ate schedule for BLS_X has %d' % (len(steps), len(want)), construct=g2prepared_from_affine(fx))
    if fx.body(ML) is None:
        rep.fail('GUARD', 'miller_loop:anchor', 'miller_loop not found')
        return
    rep.fn(ML)
    where = fx.fn(ML)['span']
    # the line-evaluation helper: the private function, reachable from miller_loop through private helpers
    # only, that applies the sparse multiplication (Fq12::mul_by_014); everything else private is inlined
    import inline as INL
    ELL = None
    seen_, todo = set(), [ML]
    while todo:
        q = todo.pop()
        if q in seen_:
            continue
        seen_.add(q)
        bq = fx.body(q)
        if bq is None:
            continue
        for _, tt in bq.calls():
            cc = callee(tt)
            if not cc:
                continue
            if cc.get('name') == 'mul_by_014' and q != ML:
                ELL = q
            r_ = cc.get('res')
            if cc.get('res_local') and r_ and INL.is_private_helper(fx, r_):
                todo.append(r_)
    if ELL is None:
        rep.fail('GUARD', 'miller_loop:line-helper', 'no private helper of miller_loop applies the sparse line multiplication', where)
        return
    rep.fn(ELL)
    # what the line helper and the step functions compute (polynomial-ring domain)
    from props import c03lines
    import polyring as PR
    lim = PR.MAX_DEG, PR.MAX_TERMS
    PR.MAX_DEG, PR.MAX_TERMS = 120, 40000000
    try:
        c03lines.step_rules(fx, rep, g2prepared_from_affine(fx))
    finally:
        PR.MAX_DEG, PR.MAX_TERMS = lim
    ml_body = INL.inlined(fx, ML, lambda q: INL.is_private_helper(fx, q) and q != ELL and q.startswith(ML + '::'))
    MUL014 = 'bls12_381::fq12::Fq12::mul_by_014'
    ncoef = len(steps)
    n_scen = 0
    bad = []
    for k in (0, 1, 2):
        for combo in itertools.product([(0, 0), (0, 1), (1, 0), (1, 1)], repeat=k):
            items = []
            for j, (pz, qz) in enumerate(combo):
                p_prep = Agg([Agg([Lin.atom('p%dx' % j), Lin.atom('p%dy' % j), Int(pz, 1)])], ('G1Prepared', 'G1Prepared'))
                coeffs = Agg([] if qz else [Agg([Agg([('cf', j, n, i_, k_) for k_ in range(2)]) for i_ in range(3)]) for n in range(ncoef)], ('vec', 'Vec'))
                q_prep = Agg([coeffs, Int(qz, 1)], ('G2Prepared', 'G2Prepared'))
                items.append(Agg([p_prep, q_prep]))
            events = []

            def tr(I, fr, t, c, pth):
                nm = c.get('name')
                res = c.get('res') or c['def']
                args = t['args']
                # the accumulator is tracked as an element of the free abelian group on the line values L(j, n) =
                # line(coefficient n of pair j) evaluated at p_j: ell multiplies by one of them, squaring doubles every
                # exponent, conjugation (a ring automorphism) renames them -- so the *value* returned is compared, and
                # the order of commuting factors between two squarings is immaterial
                if res == MUL014 and len(args) == 4:
                    # the line evaluation: f <- f * (c + (b x_P) w^2 + (a y_P) w^3) needs the operands
                    # (coefficient 2, coefficient 1 scaled by x_P, coefficient 0 scaled by y_P) of ONE triple and its own pair's point
                    fv = fr.deref_operand(args[0])
                    ops_ = [fr.deref_operand(a_) for a_ in args[1:]]
                    if not isinstance(fv, Lin):
                        return False

                    def dec(v, slot, coord):
                        # -> (j, n) when v is Fq2 coefficient `slot` of triple (j, n), each component scaled by p_j's `coord` (or unscaled)
                        if not (isinstance(v, Agg) and len(v.items) == 2):
                            return None
                        got = set()
                        for k_, x in enumerate(v.items):
                            if coord is not None:
                                if not (isinstance(x, tuple) and len(x) == 3 and x[0] == 'scaled'):
                                    return None
                                x, by = x[1], x[2]
                            else:
                                by = None
                            if not (isinstance(x, tuple) and len(x) == 5 and x[0] == 'cf' and x[3] == slot and x[4] == k_):
                                return None
                            if coord is not None and by != 'p%d%s' % (x[1], coord):
                                return None
                            got.add((x[1], x[2]))
                        return got.pop() if len(got) == 1 else None
                    ids = [dec(ops_[0], 2, None), dec(ops_[1], 1, 'x'), dec(ops_[2], 0, 'y')]
                    if ids[0] is not None and ids[0] == ids[1] == ids[2]:
                        atom = 'L(%d,%d)' % ids[0]
                    else:
                        atom = 'a product with operands that are not (c, b*x_P, a*y_P) of one coefficient triple and its own point'
                    fr.store_through(args[0], fv.add(Lin.atom(atom)))
                    return True
                if nm == 'mul_assign' and c.get('trait') == 'ff::Field' and len(args) == 2:
                    a_ = fr.deref_operand(args[0])
                    b_ = fr.deref_operand(args[1])
                    if isinstance(a_, tuple) and len(a_) == 5 and a_[0] == 'cf' and isinstance(b_, Lin) and len(b_.t) == 1 and list(b_.t.values()) == [1]:
                        fr.store_through(args[0], ('scaled', a_, list(b_.t)[0]))
                        return True
                if nm in ('square', 'mul_assign') and c.get('trait') == 'ff::Field':
                    fv = fr.deref_operand(args[0])
                    if not isinstance(fv, Lin):
                        return False
                    if nm == 'square':
                        fr.store_through(args[0], fv.scale(2))
                    else:
                        ov = fr.deref_operand(args[1])
                        if not isinstance(ov, Lin):
                            return False
                        fr.store_through(args[0], fv.add(ov))
                    return True
                if nm == 'conjugate':
                    fv = fr.deref_operand(args[0])
                    if not isinstance(fv, Lin):
                        return False
                    fr.store_through(args[0], Lin({(k[5:-1] if k.startswith('conj(') else 'conj(%s)' % k): v for k, v in fv.t.items()}))
                    return True
                if nm == 'one' and c.get('trait') == 'ff::Field':
                    fr.storev(t['dest'], Lin())
                    return True
                if nm == 'next' and c['def'] == 'std::iter::Iterator::next' or (nm == 'next' and res.startswith('<std::slice::Iter')):
                    v = fr.deref_operand(args[0])
                    if isinstance(v, SliceIt):
                        if v.pos < len(v.items):
                            fr.storev(t['dest'], Opt('some', v.items[v.pos]))
                            fr.store_through(args[0], SliceIt(v.items, v.pos + 1))
                        else:
                            fr.storev(t['dest'], Opt('none', TOP))
                        return True
                if nm == 'next' and res.startswith('<std::slice::IterMut'):
                    v = fr.deref_operand(args[0])
                    if isinstance(v, tuple) and v[0] == 'itermut':
                        root, proj, pos, n = v[1], v[2], v[3], v[4]
                        if pos < n:
                            fr.storev(t['dest'], Opt('some', Ref(root, list(proj) + [['ci', pos, 0, False]])))
                            fr.store_through(args[0], ('itermut', root, proj, pos + 1, n))
                        else:
                            fr.storev(t['dest'], Opt('none', TOP))
                        return True
                if nm == 'into_iter' and (res.startswith("<&'a mut std::vec::Vec") or ('IntoIterator for &' in res and 'Vec' in res)):
                    tgt = fr.ref_place_of(args[0])
                    if isinstance(tgt, dict):
                        root, proj = fr.root_of(tgt)
                        vec = fr._project(fr.store.get(root, TOP), proj)
                        if isinstance(vec, Agg):
                            fr.storev(t['dest'], ('itermut', root, proj, 0, len(vec.items)))
                            return True
                if nm == 'iter' and res.startswith('core::slice::<impl [T]>::iter'):
                    v = I.value_of_ref(fr, args[0])
                    if isinstance(v, Ref):
                        v = fr._project(fr.store.get(v.root, TOP), v.proj)
                    if isinstance(v, Agg):
                        fr.storev(t['dest'], SliceIt(v.items, 0))
                        return True
                if nm == 'unwrap' and c['def'].startswith('std::option::Option'):
                    v = fr.operand(args[0])
                    if isinstance(v, Opt):
                        if v.tag == 'none':
                            events.append(('unwrap-none', t['span']))
                        fr.storev(t['dest'], v.payload)
                        return True
                if res.startswith('std::vec::Vec::<T>::new'):
                    fr.storev(t['dest'], Agg([], ('vec', 'Vec')))
                    return True
                return bitlin.transfer(I, fr, t, c, pth)
            I = exp.Interp(fx, 'none', inline=lambda q: q.endswith('G1Prepared::is_zero') or q.endswith('G2Prepared>::is_zero') or q.endswith('G2Prepared::is_zero') or q.endswith('CurveAffine>::is_zero') or INL.is_private_helper(fx, q),
                           extra_transfer=tr, max_steps=400000)
            I.body_override = {ML: ml_body}
            try:
                res = I.run(ML, [SliceIt(items, 0)])
            except (exp.NotDerivable, exp.Budget) as e:
                bad.append('scenario %r not derivable: %s at %s' % (combo, e, getattr(e, 'where', None)))
                continue
            n_scen += 1
            rep.sites(I.call_sites)
            live = [j for j, (pz, qz) in enumerate(combo) if not pz and not qz]
            # expected event word
            exp_ev = []
            idx = {j: 0 for j in live}
            bits = bin(x >> 1)[3:]
            for bch in bits:
                for j in live:
                    exp_ev.append(('ell', j, idx[j]))
                    idx[j] += 1
                if bch == '1':
                    for j in live:
                        exp_ev.append(('ell', j, idx[j]))
                        idx[j] += 1
                exp_ev.append(('square',))
            for j in live:
                exp_ev.append(('ell', j, idx[j]))
                idx[j] += 1
            if neg:
                exp_ev.append(('conjugate',))
            want = Lin()
            for e in exp_ev:
                if e[0] == 'ell':
                    want = want.add(Lin.atom('L(%d,%d)' % (e[1], e[2])))
                elif e[0] == 'square':
                    want = want.scale(2)
                else:
                    want = Lin({'conj(%s)' % k: v for k, v in want.t.items()})
            rets = [r_[1] for r_ in res if not (isinstance(r_[1], tuple) and r_[1] and r_[1][0] == 'diverges')]
            if [e for e in events if e[0] == 'unwrap-none']:
                bad.append('pairs %s (1 = identity): a coefficient is requested after the prepared ones are used up' % (list(combo),))
            elif len(rets) != 1 or not isinstance(rets[0], Lin):
                bad.append('pairs %s (1 = identity): returns %r' % (list(combo), rets[:2]))
            elif rets[0] != want:
                g_, w_ = rets[0].t, want.t
                diff = sorted(k for k in set(g_) | set(w_) if g_.get(k, 0) != w_.get(k, 0))
                k0 = diff[0]
                bad.append('pairs %s (1 = identity): the returned product has %s to the power %s, expected %s (%d factors differ)' % (list(combo), k0, hex(g_.get(k0, 0)), hex(w_.get(k0, 0)), len(diff)))
    rep.check(not bad and n_scen == 21, 'GUARD', 'miller_loop:filter-and-schedule',
              'for 0..2 pairs and every placement of identities the returned value is prod_j prod_n L(j,n)^(2^s(n)) over the pairs without an identity (s(n) = squarings the producer schedules after coefficient n; %d coefficients, %d squarings), conjugated for negative x -- compared as an element of the free abelian group on the line values, so commuting factors may be multiplied in any order' % (ncoef, len(bin(x >> 1)) - 3),
              '; '.join(bad[:3]), where, construct=ML)


def _pairing_run(fx, path, args, extra=None):
    """Interpret one of the Engine pairing helpers with symbolic elements; prepare / miller_loop /
    final_exponentiation are uninterpreted constructors, so the returned term shows the wiring."""
    def deep(fr, v):
        for _ in range(8):
            if isinstance(v, Ref):
                v = fr._project(fr.store.get(v.root, TOP), v.proj)
            else:
                break
        if isinstance(v, Agg):
            return ('tuple',) + tuple(deep(fr, x) for x in v.items)
        return v

    def tr(I, fr, t, c, pth):
        nm = c.get('name')
        a = t['args']
        if nm == 'prepare' and c.get('trait') == 'CurveAffine':
            fr.storev(t['dest'], ('prep', deep(fr, fr.deref_operand(a[0]))))
            return True
        if nm == 'miller_loop' and c.get('trait') == 'Engine':
            import stdmodel
            itv = stdmodel.as_iter(I, fr, a[0])
            if itv is None:
                return False
            items = stdmodel.drain(I, itv, t['span'])
            pth.events.append(('miller_loop',))
            fr.storev(t['dest'], ('ml', tuple(deep(fr, x) for x in items)))
            return True
        if nm == 'final_exponentiation' and c.get('trait') == 'Engine':
            pth.events.append(('final_exponentiation',))
            fr.storev(t['dest'], Opt('some', ('fe', deep(fr, fr.deref_operand(a[0])))))
            return True
        if nm == 'unwrap' and c['def'].startswith('std::option::Option'):
            v = fr.operand(a[0])
            if isinstance(v, Opt) and v.tag == 'some':
                fr.storev(t['dest'], v.payload)
                return True
            return False
        if nm == 'is_zero' and c.get('trait') in ('CurveAffine', 'CurveProjective') and len(a) == 1:
            v = fr.deref_operand(a[0])
            for _ in range(4):
                if isinstance(v, Ref):
                    v = fr._project(fr.store.get(v.root, TOP), v.proj)
            if isinstance(v, tuple) and len(v) == 3 and v[0] in ('P', 'Q'):
                fr.storev(t['dest'], Int(v[2], 1))        # scenario element: identity or not
                return True
        return bitlin.transfer(I, fr, t, c, pth)
    import inline as INL
    I = exp.Interp(fx, 'none', extra_transfer=tr, max_steps=200000, inline=lambda q: INL.is_private_helper(fx, q))
    I.fork_inlined = True
    res = I.run(path, args, extra=extra)
    res = [r for r in res if not (isinstance(r[1], tuple) and r[1] and r[1][0] == 'diverges')]
    return I, res


def _wiring_verdict(res, zs):
    """zs: [(p_is_identity, q_is_identity)] per index.  The value must be one final exponentiation of one Miller loop
    over index-matched prepared pairs that include every pair of two finite points exactly once (pairs with an identity
    contribute the factor 1 and may be passed or left out; the order of the pairs is immaterial)."""
    if len(res) != 1:
        return '%d paths' % len(res)
    pth, ret, _ = res[0]
    if [e[0] for e in pth.events].count('miller_loop') != 1 or [e[0] for e in pth.events].count('final_exponentiation') != 1:
        return 'not exactly one Miller loop and one final exponentiation'
    if not (isinstance(ret, tuple) and ret and ret[0] == 'fe' and isinstance(ret[1], tuple) and ret[1] and ret[1][0] == 'ml'):
        return 'returns %r' % (ret,)
    seen = []
    for it in ret[1][1]:
        if not (isinstance(it, tuple) and len(it) == 3 and it[0] == 'tuple' and all(isinstance(x, tuple) and x and x[0] == 'prep' for x in it[1:])):
            return 'Miller loop receives %r' % (it,)
        a, b = it[1][1], it[2][1]
        if not (isinstance(a, tuple) and isinstance(b, tuple) and len(a) == 3 and len(b) == 3 and a[0] == 'P' and b[0] == 'Q'):
            return 'Miller loop receives the pair (%r, %r)' % (a, b)
        if a[1] != b[1]:
            return 'p[%d] is paired with q[%d]' % (a[1], b[1])
        if a[1] in seen:
            return 'pair %d is used twice' % a[1]
        seen.append(a[1])
    for k, (zp, zq) in enumerate(zs):
        if not zp and not zq and k not in seen:
            return 'the pair (p[%d], q[%d]) of two finite points is left out' % (k, k)
    return None


def rule_wiring(fx, rep):
    """pairing / pairing_product / pairing_multi_product = final_exponentiation(miller_loop([(prepare(p_i), prepare(q_i))]))
    with matching indices: decided by interpreting the helpers over scenario elements (each one the identity or not), for
    any loop / iterator / filter shape."""
    import itertools
    for nm, npairs in (('pairing', 1), ('pairing_product', 2)):
        p = fx.trait_default('Engine', nm)
        b = fx.body(p) if p else None
        if b is None:
            rep.fail('WIRE', 'Engine::%s:anchor' % nm, 'default method not found')
            continue
        rep.fn(p)
        over = [i['self_ty'] for i in fx.impls_of('Engine') for it in i['items'] if it['name'] == nm]
        rep.check(not over, 'WIRE', 'Engine::%s:not-overridden' % nm, 'Bls12 uses the default', 'overridden by %s' % over)
        bad = []
        for zs in itertools.product([(0, 0), (0, 1), (1, 0), (1, 1)], repeat=npairs):
            args = []
            for k in range(npairs):
                args += [('P', k, zs[k][0]), ('Q', k, zs[k][1])]
            try:
                I, res = _pairing_run(fx, p, args)
                rep.sites(I.call_sites)
                why = _wiring_verdict(res, zs)
                if why:
                    bad.append('identities %s: %s' % (list(zs), why))
            except (exp.NotDerivable, exp.Budget) as e:
                bad.append('identities %s: not derivable: %s' % (list(zs), e))
        rep.check(not bad, 'WIRE', 'Engine::%s' % nm, 'for every placement of identities: final_exponentiation(miller_loop(index-matched prepared pairs incl. every finite pair)) with one Miller loop and one final exponentiation',
                  '; '.join(bad[:2])[:600], fx.fn(p)['span'], construct=p)
    # pairing_multi_product: same index for both lists, for 0..3 pairs and every placement of identities
    p = fx.trait_default('Engine', 'pairing_multi_product')
    b = fx.body(p) if p else None
    if b is not None:
        rep.fn(p)
        bad = []
        for n in range(4):
            for zs in itertools.product([(0, 0), (0, 1), (1, 0), (1, 1)], repeat=n):
                extra = {'PS': Agg([('P', k, zs[k][0]) for k in range(n)]), 'QS': Agg([('Q', k, zs[k][1]) for k in range(n)])}
                try:
                    I, res = _pairing_run(fx, p, [Ref('PS', []), Ref('QS', [])], extra=extra)
                    rep.sites(I.call_sites)
                    why = _wiring_verdict(res, zs)
                    if why:
                        bad.append('%d pairs, identities %s: %s' % (n, list(zs), why))
                except (exp.NotDerivable, exp.Budget) as e:
                    bad.append('%d pairs, identities %s: not derivable: %s' % (n, list(zs), e))
        rep.check(not bad, 'WIRE', 'Engine::pairing_multi_product', 'for 0..3 pairs and every placement of identities: one final exponentiation of one Miller loop over (prepare(p[i]), prepare(q[i])) with the same index, every finite pair included once',
                  '; '.join(bad[:2])[:600], fx.fn(p)['span'], construct=p)
    else:
        rep.fail('WIRE', 'Engine::pairing_multi_product:anchor', 'not found')
    # pairing_with in both directions
    for g, aff, order in (('G1', 'bls12_381::ec::g1::G1Affine', (1, 2)), ('G2', 'bls12_381::ec::g2::G2Affine', (2, 1))):
        pw = fx.impl_method('CurveAffine', aff, 'pairing_with')
        if not (pw and fx.body(pw)):
            rep.fail('WIRE', '%s:pairing_with' % g, 'pairing_with not found')
            continue
        rep.fn(pw)
        import inline as INL

        def deepv(fr, v, depth=0):
            for _ in range(6):
                if isinstance(v, exp.Ref):
                    v = fr._project(fr.store.get(v.root, exp.TOP), v.proj)
                else:
                    break
            if isinstance(v, exp.Agg) and type(v) is exp.Agg and depth < 4:
                return exp.Agg([deepv(fr, x, depth + 1) for x in v.items], v.kind)
            return v

        def trp(I, fr, t, c, pth):
            if c.get('name') == 'pairing' and c.get('trait') == 'Engine':
                if not (c.get('self_ty') or '').endswith('Bls12'):
                    return False
                fr.storev(t['dest'], ('pairing', fr.deref_operand(t['args'][0]), fr.deref_operand(t['args'][1])))
                return True
            # the pairing spelled out: final_exponentiation(miller_loop([(prepare(p), prepare(q))])).unwrap() is what
            # Engine::pairing is (decided by the wiring rule), so it is read as that value
            if c.get('name') == 'prepare' and c.get('trait') == 'CurveAffine' and len(t['args']) == 1:
                v = fr.deref_operand(t['args'][0])
                if isinstance(v, str):
                    fr.storev(t['dest'], ('prepared', v))
                    return True
            if c.get('name') == 'miller_loop' and c.get('trait') == 'Engine' and (c.get('self_ty') or '').endswith('Bls12') and len(t['args']) == 1:
                v = deepv(fr, I.value_of_ref(fr, t['args'][0]))
                if isinstance(v, exp.SliceIt):
                    v = exp.Agg([deepv(fr, x) for x in v.items[v.pos:]])
                if isinstance(v, exp.Agg) and all(isinstance(x, exp.Agg) and len(x.items) == 2 for x in v.items):
                    fr.storev(t['dest'], ('ml', tuple((x.items[0], x.items[1]) for x in v.items)))
                    return True
                return False
            if c.get('name') == 'final_exponentiation' and c.get('trait') == 'Engine' and len(t['args']) == 1:
                v = fr.deref_operand(t['args'][0])
                if isinstance(v, tuple) and v and v[0] == 'ml' and len(v[1]) == 1 and all(isinstance(x, tuple) and x and x[0] == 'prepared' for x in v[1][0]):
                    fr.storev(t['dest'], exp.Opt('some', ('pairing', v[1][0][0][1], v[1][0][1][1])))
                    return True
                return False
            if c.get('name') in ('into', 'from', 'clone', 'into_affine', 'borrow', 'as_ref') and len(t['args']) == 1:
                v = fr.deref_operand(t['args'][0])
                if isinstance(v, str):
                    fr.storev(t['dest'], v)
                    return True
            if c.get('name') == 'is_zero' and c.get('trait') in ('CurveAffine', 'CurveProjective') and len(t['args']) == 1:
                v = fr.deref_operand(t['args'][0])
                if isinstance(v, str):
                    fr.storev(t['dest'], ('bool', ('is_identity', v)))
                    return True
            if c.get('name') == 'one' and c.get('trait') == 'ff::Field' and not t['args'] and (c.get('self_ty') or '').endswith('Fq12'):
                fr.storev(t['dest'], 'ONE')
                return True
            return False
        import stdmodel as _SM

        def trp2(I_, fr_, t_, c_, pth_):
            return trp(I_, fr_, t_, c_, pth_) or _SM.std_transfer(I_, fr_, t_, c_, pth_)
        I = exp.Interp(fx, 'none', extra_transfer=trp2, inline=lambda q: INL.is_private_helper(fx, q))
        okp, why = False, ''
        try:
            res = I.run(pw, [('byref', 'SELF'), ('byref', 'OTHER')])
            rep.sites(I.call_sites)
            res = [r_ for r_ in res if not (isinstance(r_[1], tuple) and r_[1] and r_[1][0] == 'diverges')]
            want = ('pairing', 'SELF', 'OTHER') if order == (1, 2) else ('pairing', 'OTHER', 'SELF')
            # every path returns the pairing of the two arguments; a path taken only when an argument is the identity
            # may return 1 outright (e(O, Q) = e(P, O) = 1)
            import tt as TT_
            bads = []
            n_general = 0
            for pth_, ret_, _o in res:
                lits = TT_.path_literals(pth_)
                other_lits = [l for l in lits if not (l[0] and l[0][0] == 'is_identity')]
                assumes_identity = any(l[0] and l[0][0] == 'is_identity' and l[1] for l in lits)
                if other_lits:
                    bads.append('branches on %r' % (other_lits[0][2],))
                elif ret_ == want:
                    n_general += 0 if assumes_identity else 1
                elif ret_ == 'ONE' and assumes_identity:
                    pass
                else:
                    bads.append('returns %r%s, expected %r' % (ret_, ' when an argument is the identity' if assumes_identity else '', want))
            if not n_general and not bads:
                bads.append('no path pairs two finite arguments')
            okp = not bads
            why = '; '.join(bads[:2])
        except (exp.NotDerivable, exp.Budget) as e:
            why = 'not derivable: %s' % e
        rep.check(okp, 'WIRE', '%s:pairing_with' % g, 'pairing_with(self, other) = Bls12::pairing(G1 element, G2 element) (by interpretation, helpers inlined)', why, fx.fn(pw)['span'], construct=pw)


def rule_prepared_types(fx, rep):
    for ty in ('bls12_381::ec::g1::G1Prepared', 'bls12_381::ec::g2::G2Prepared'):
        a = fx.adts.get(ty)
        if a is None:
            rep.fail('TYPE', '%s:anchor' % ty, 'type not found')
            continue
        short = ty.rsplit('::', 1)[1]
        rep.check(a['freeze'], 'TYPE', '%s:freeze' % short, 'no interior mutability (Freeze)', '%s contains interior mutability' % short)
        vis = [f['vis'] for f in a['variants'][0]['fields']]
        rep.check(all(v != 'Public' for v in vis), 'TYPE', '%s:fields-private' % short, 'fields are crate-private', 'public fields: %s' % vis)
        muts = []
        for p, f in fx.fns.items():
            if f.get('impl_self_ty') == ty and f.get('sig') and ('&mut ' + ty) in f['sig'] and f.get('reachable_pub'):
                muts.append(p)
        rep.check(not muts, 'TYPE', '%s:no-mutating-api' % short, 'no public method takes &mut self', 'mutating API: %s' % muts)


def rules(fx, rep):
    rule_miller(fx, rep)
    rule_wiring(fx, rep)
    rule_prepared_types(fx, rep)
    from props import c12
    c12.rules(fx, rep)
    # [a]P, [b]Q in the statement are the library's own multiplications: all 256-bit scalars
    import bitlin
    from props import c02
    bitlin.rule_scalar_mul(fx, rep, c02.GROUPS)
    bitlin.rule_projective_mul(fx, rep, c02.GROUPS)
    # ... built from double / add_assign, whose exceptional cases scalars >= r do reach ([r+2]P adds a point to itself
    # in another representation): the group-law skeleton and formulas of C01
    from props import c01
    c01.rule_projective_ops(fx, rep)
    c01.rule_general_formulas(fx, rep)


def main(tier, t0):
    return common.standard_main(
        PROP, tier, t0, rules, 'other',
        'The code is decided to be Miller\'s algorithm for the optimal ate pairing with loop parameter |x| and the full final exponentiation: (0) step functions of '
        'G2Prepared::from_affine: T <- 2T resp. T + Q by the affine tangent / chord law and the returned triple is an Fq2-multiple of the tangent / chord line (coefficient of y_P, of x_P, constant) -- '
        'polynomial identities in the coordinates; the line helper multiplies f by c + b x_P w^2 + a y_P w^3 (polynomial identity over Fq in all 20 coefficients); '
        '(1) abstract interpretation of miller_loop for 0, 1 and 2 input pairs and every placement of identity elements (21 scenarios): the returned value is the product over the pairs '
        'without an identity of their 68 line values, each to the power 2^(squarings scheduled after it), exactly as G2Prepared::from_affine produces them for the bits of |x|>>1, conjugated for negative x '
        '(compared in the free abelian group on the line values); from_affine short-circuits the identity before any '
        'line computation; (2) wiring: pairing / pairing_product / pairing_multi_product = one final_exponentiation of one miller_loop over (prepare(p_i), prepare(q_i)) with '
        'matching indices; pairing_with in both directions = Bls12::pairing(G1, G2); (3) final exponentiation exponent (C12) and Fq12 arithmetic (C09); (4) the scalar multiplications forming [a]P, [b]Q (all 256-bit scalars, from C02) and the group operations they are built from (exceptional-case skeleton and formulas, from C01). '
        'NOT decided by code analysis: the theorem that Miller\'s algorithm with these lines is bilinear and non-degenerate (mathematics; trusted base).',
        ['rustc MIR', 'Miller / optimal-ate correctness theorem', 'Fq and Fq2 operation contracts'],
        ['every code-level ingredient of the pairing is an obligation; bilinearity itself is the cited theorem; more than 2 pairs not enumerated'])

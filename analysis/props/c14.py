"""C14 -- map_to_curve / map2_to_curve equal the RFC composition for all field inputs."""
import exp
import stage
from props import common

PROP = 'C14'
MAPTRAIT = 'map_to_curve::MapToCurve'


def map_groups(fx):
    """Types implementing all three stage traits (the instantiations of the blanket impl)."""
    sets = []
    for tr in (stage.OSSWU, stage.ISO, stage.CLEARH):
        sets.append(set(i['self_ty'] for i in fx.impls_of(tr)))
    return sorted(set.intersection(*sets)) if sets else []


def map_rules(fx, rep, prop_rule_prefix=''):
    impls = fx.impls_of(MAPTRAIT)
    rep.check(len(impls) == 1 and impls[0]['generics'] > 0, 'WIRE', 'MapToCurve:single-blanket-impl',
              'MapToCurve has exactly one (blanket) impl', 'MapToCurve has %d impls: %s' % (len(impls), [i['self_ty'] for i in impls]))
    if not impls:
        return
    groups = map_groups(fx)
    rep.floor('TS', 'map-instantiations', len(groups), 2)
    a0 = stage.A0(fx)
    methods = {it['name']: it['def'] for it in impls[0]['items']}
    n_inst = 0
    for name, nparams in (('map_to_curve', 1), ('map2_to_curve', 2)):
        path = methods.get(name)
        if path is None or fx.body(path) is None:
            rep.fail('TS', 'anchor:%s' % name, 'MapToCurve::%s has no body in the blanket impl' % name)
            continue
        rep.fn(path)
        body = fx.body(path)
        where = fx.fn(path)['span']
        for g in groups:
            gs = g.split('::')[-1]
            label = '%s:%s' % (name, gs)
            out = stage.analyse_map(fx, path, g, nparams, a0, rep, label)
            if out is None:
                continue
            n_inst += 1
            violations, returns, events = out
            seen = set()
            for rule, inst, detail, w in violations:
                key = (rule, inst)
                if key in seen:
                    continue
                seen.add(key)
                rep.fail(rule, '%s:%s' % (label, inst), detail, w, construct=path)
            if not violations:
                rep.ok('TS', '%s:curve-tags' % label, 'no value tagged E\' reaches an a=0 function; isogeny_map only on E\', clear_h only on E', where)
            want = {('sswu', i + 1): (1, ('iso', 'clear')) for i in range(nparams)}
            good = bool(returns)
            bad = None
            for pth, ret in returns:
                # a path that established u_i = u_j (an equal-inputs fast path) is judged with the two inputs identified
                import tt
                same = {}
                for lab, taken in pth.labels:
                    x, neg = tt.strip_not(lab)
                    if isinstance(x, tuple) and x and x[0] == 'inputs-equal' and ((taken != 0) != neg):
                        same[x[2]] = same.get(x[1], x[1])
                    if isinstance(x, tuple) and x and x[0] == 'points-equal' and ((taken != 0) != neg):
                        # the SSWU images were found to be the same point: every later image of the two is the same too
                        i_, j_ = sorted([x[1][1], x[2][1]])
                        same[j_] = same.get(i_, i_)

                def merged(leaves):
                    out = {}
                    for k, (c_, w_) in leaves.items():
                        k2 = ('sswu', same.get(k[1], k[1])) if (isinstance(k, tuple) and len(k) == 2 and k[0] == 'sswu') else k
                        if k2 in out and out[k2][1] == w_:
                            out[k2] = (out[k2][0] + c_, w_)
                        elif k2 in out:
                            out[(k2, 'conflict', w_)] = (c_, w_)
                        else:
                            out[k2] = (c_, w_)
                    return out
                if not isinstance(ret, stage.Staged) or merged(ret.leaves) != merged(want):
                    good = False
                    bad = ret
            rep.check(good, 'WIRE', '%s:composition' % label,
                      'every returning path yields clear_h(sum_i iso(sswu(u_i))) with each input used exactly once',
                      'returned value is %r, expected sum of %s each through (iso, clear)' % (bad, sorted(want)), where, construct=path)
            # PANIC: diverging edges must be the debug assertion on a Sub-tagged value
            subs = [e for e in events if e[0] == 'in_subgroup']
            rep.check(all(e[1] == 'Sub' for e in subs), 'PANIC', '%s:debug-assert-discharged' % label,
                      'the only panic edge is debug_assert!(in_subgroup) on a value tagged Sub (%d sites)' % len(subs),
                      'in_subgroup assertion applied to a value tagged %s' % [e[1] for e in subs], where)
        # panic inventory of the body itself
        asserts = [(i, b['term']) for i, b in enumerate(body.blocks) if i in body.reachable() and b['term']['k'] == 'assert']
        rep.check(not asserts, 'PANIC', '%s:no-assert-terminators' % name, 'no arithmetic/bounds assertion in the body',
                  'unexpected Assert terminators: %s' % [(t['msg'], t['span']) for _, t in asserts], where)
        import facts as F
        div = []
        for bi, t in body.calls():
            if t['target'] is None:
                c = F.callee(t)
                div.append((c['def'] if c else '?', t['span'], t['expn']))
        ok = all(d[0].startswith('core::panicking::') and d[2] for d in div)
        rep.check(ok and len(div) <= 1, 'PANIC', '%s:diverging-calls' % name,
                  'diverging calls: %d (macro-generated assertion failure only)' % len(div),
                  'unexpected diverging calls %s' % div, where)
    rep.floor('TS', 'map-bodies-analysed', n_inst, 4)


def rules(fx, rep):
    map_rules(fx, rep)
    # the '+' of the composition: exceptional-case skeleton of the target curve's group law (shared with C01),
    # in particular the representation-independent equal-point test that 'distinct inputs, same image' relies on
    from props import c01
    c01.rule_projective_ops(fx, rep)
    c01.rule_general_formulas(fx, rep)


def main(tier, t0):
    return common.standard_main(
        PROP, tier, t0, rules, 'other',
        'Typestate + stage-word dataflow over the generic bodies of MapToCurve::{map_to_curve, map2_to_curve}, instantiated for every '
        'type implementing OSSWUMap+IsogenyMap+ClearH (G1, G2): values born from osswu_map are tagged E\' until isogeny_map; the set A0 of '
        'functions valid only on the target curve is computed from the resolved call graph (reaches the a=0 doubling or the coefficient b); '
        'no E\'-tagged value may reach A0; the returned value must be the sum of sswu(u_i) leaves each through exactly (iso, clear). '
        'Decides the composition clause (incl. u0 = u1, which is where the pre-fix code went wrong) and the panic-edge clause of the two '
        'map functions; the stage functions themselves are C15-C17.',
        ['rustc nightly MIR + trait resolution', 'stage functions meet their contracts (C15, C16, C17); isogeny and [h_eff] are homomorphisms',
         'the target-curve group law is complete on E (C01)'],
        ['by homomorphism any term whose leaves carry the word (iso, clear) equals the RFC composition as a value'])

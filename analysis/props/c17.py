"""C17 -- cofactor clearing is multiplication by the RFC h_eff on the whole curve."""
from math import gcd

import roles
import exp
import mathlib as M
from props import common

PROP = 'C17'
CLEARH = 'bls12_381::cofactor::ClearH'


def identity_relations(pth):
    """(order, other): the literals of a path must be identity tests of multiples [k]P of the input.  order = gcd of the k
    whose test was answered true (0 when none was: the general path), other = the first literal of another kind."""
    import tt
    from math import gcd
    order = 0
    for key, truth, lab in tt.path_literals(pth):
        k = None
        if isinstance(key, tuple) and len(key) == 2 and key[0] == 'is_zero' and isinstance(key[1], tuple) and key[1] and key[1][0] == 'lin':
            terms = dict(key[1][1])
            if set(terms) == {'P'}:
                k = terms['P']
        if isinstance(key, tuple) and len(key) == 3 and key[0] == 'eq' and all(isinstance(x_, tuple) and x_ and x_[0] == 'lin' for x_ in key[1:]):
            # [i]P == [j]P (in particular a comparison with the identity) is the identity test of [i - j]P
            ta, tb = dict(key[1][1]), dict(key[2][1])
            if set(ta) <= {'P'} and set(tb) <= {'P'}:
                k = ta.get('P', 0) - tb.get('P', 0)
        if k is None:
            return order, lab
        if truth:
            order = gcd(order, abs(k))
            if k == 0:
                return order, lab
    return order, None


def rules(fx, rep):
    impls = {}
    for i in fx.impls_of(CLEARH):
        for it in i['items']:
            if it['name'] == 'clear_h':
                impls[i['self_ty']] = it['def']
    want = {'bls12_381::ec::g1::G1': ('G1', M.H1_EFF), 'bls12_381::ec::g2::G2': ('G2', M.H2_EFF)}
    for ty, (g, heff) in want.items():
        path = impls.get(ty)
        if path is None:
            rep.fail('EXP', 'anchor:clear_h:%s' % g, 'no impl of ClearH::clear_h for %s' % ty)
            continue
        rep.fn(path)
        where = fx.fn(path)['span']
        # fragment: every local callee reachable that lives in the same module (the chains)
        mod = 'bls12_381::cofactor::'
        I = exp.Interp(fx, 'add', inline=lambda p: p.startswith(mod))
        I.fork_inlined = True
        try:
            res = I.run(path, [('byref', exp.Lin.atom('P'))])
        except (exp.NotDerivable, exp.Budget) as e:
            rep.fail('EXP', 'clear_h:%s:derivable' % g, 'multiplier not derivable: %s at %s' % (e, getattr(e, 'where', None)), where)
            continue
        rep.sites(I.call_sites)
        # every path: the general one must be the fixed multiple; a path taken only for the identity (an is_zero test of
        # the input answered true) may return any multiple of the input, since [k]O = O = [h_eff]O
        import tt
        general = 0
        bad = None
        kk = None
        for pth, ret, outs in res:
            if isinstance(ret, tuple) and ret and ret[0] == 'diverges':
                continue
            v = outs.get(1)
            order, other = identity_relations(pth)
            if other is not None:
                bad = 'clear_h branches on %r (data-dependent control flow other than an identity test of a multiple of the input): not a fixed multiple of the input' % (other,)
                break
            if not isinstance(v, exp.Lin) or not v.atoms() <= {'P'}:
                bad = 'result is not a multiple of the input: %r' % (v,)
                break
            kk = v.coeff('P')
            if order:
                # the path assumed [k]P = O for some k: the order of P divides `order`, multipliers count modulo it
                if (kk - heff) % order:
                    bad = 'on a path that assumed [%#x]P = O, clear_h multiplies by %#x, which differs from h_eff modulo that order' % (order, kk)
                    break
                continue
            general += 1
            if kk != heff:
                bad = 'clear_h multiplies by %#x, RFC 9380 h_eff is %#x' % (kk, heff)
                break
        if bad is None and not general:
            bad = 'no path handles a non-identity input'
        rep.check(bad is None, 'EXP', 'clear_h:%s:multiplier' % g,
                  '[k]P with k == h_eff on every path for a non-identity input, a multiple of the input on identity-only paths (%d group operations interpreted)' % I.call_sites,
                  bad or '', where)
    # the two chains on their own (roles: generic fns of the module taking (&mut P, &P))
    for name, expected in (('abs_x', -M.X),):
        p = roles.roles(fx).get('chain_abs_x')
        if p is not None and fx.body(p) is not None:
            rep.fn(p)
            I = exp.Interp(fx, 'add', inline=lambda q_: q_.startswith('bls12_381::cofactor::'))
            I.fork_inlined = True
            try:
                res = I.run(p, [('byref', exp.TOP), ('byref', exp.Lin.atom('P'))])
                # the general path computes the fixed multiple; a path taken only for the identity may return any
                # multiple of the input
                badc, ngen = None, 0
                for pth_, ret_, outs_ in res:
                    if isinstance(ret_, tuple) and ret_ and ret_[0] == 'diverges':
                        badc = 'a path panics'
                        break
                    v = outs_.get(1)
                    order, other = identity_relations(pth_)
                    if other is not None:
                        badc = 'the chain branches on %r' % (other,)
                        break
                    if not (isinstance(v, exp.Lin) and v.atoms() <= {'P'}):
                        badc = 'chain computes %r, expected [%#x]' % (v, expected)
                        break
                    if order:
                        if (v.coeff('P') - expected) % order:
                            badc = 'on a path that assumed [%#x]P = O the chain computes %r, which differs from [%#x] modulo that order' % (order, v, expected)
                            break
                        continue
                    ngen += 1
                    if v.t != {'P': expected}:
                        badc = 'chain computes %r, expected [%#x]' % (v, expected)
                        break
                if badc is None and not ngen:
                    badc = 'no path handles a non-identity input'
                rep.check(badc is None, 'EXP', 'chain:%s' % name,
                          'chain computes [|x|] (any multiple of the input on identity-only paths)', badc or '', fx.fn(p)['span'])
            except (exp.NotDerivable, exp.Budget) as e:
                rep.fail('EXP', 'chain:%s' % name, 'not derivable: %s' % e, fx.fn(p)['span'])
    # ---- arithmetic corollaries on constants (why [h_eff] lands in the order-r subgroup)
    rep.check(M.N1 == M.H1 * M.R_ORDER and M.N1 == M.Q + 1 - M.TRACE, 'CONST', 'order:E(Fq)=h1*r', '#E(Fq) = q+1-t = h1*r')
    rep.check(M.N2 in M.TWIST_ORDERS_FQ2, 'CONST', 'order:E2(Fq2)=h2*r', 'h2*r is one of the six twist orders over Fq2 (h2 from the documented polynomial)')
    rep.check(M.H2_EFF % M.H2 == 0, 'CONST', 'h2|h2_eff', 'h2 divides h_eff(G2): image has order dividing r')
    # G1: h_eff = 1-x is not a multiple of h1; use the End(E)-module structure:
    # E(Fq) ~ Z/d x Z/(#E/d), d = content of (pi-1) in Z[omega] = gcd((t-2+f)/2, f)
    t, f = M.TRACE, M.F_CM
    ok_par = (t - 2 + f) % 2 == 0
    d = gcd((t - 2 + f) // 2, f) if ok_par else 0
    rep.check(ok_par and d == abs(M.X - 1) // 3 and abs(M.X - 1) % 3 == 0, 'CONST', 'structure:E(Fq)',
              'largest d with E[d] rational is |x-1|/3, so exponent(E(Fq)) = |x-1|*r',
              'content of pi-1 is %d, expected |x-1|/3' % d)
    expo = M.N1 // d if d else 0
    rep.check(d != 0 and expo == abs(M.X - 1) * M.R_ORDER and (M.H1_EFF * M.R_ORDER) % expo == 0, 'CONST', 'h1_eff*r kills E(Fq)',
              '(1-x)*r is a multiple of the group exponent: [1-x]P has order dividing r for every P in E(Fq)')
    rep.check(gcd(M.H1_EFF, M.R_ORDER) == 1 and gcd(M.H2_EFF, M.R_ORDER) == 1, 'CONST', 'h_eff coprime to r',
              'h_eff is invertible mod r (clearing is a bijection on the subgroup)')
    # the chains meet equal / inverse / identity operands on small-order points: the exceptional-case
    # skeleton of the group operations they are built from (shared with C01)
    from props import c01
    c01.rule_projective_ops(fx, rep)
    c01.rule_general_formulas(fx, rep)


def main(tier, t0):
    return common.standard_main(
        PROP, tier, t0, rules, 'proof',
        'Abstract interpretation of <G1|G2 as ClearH>::clear_h with the addition chains chain_z and chain_h2_eff '
        '(counted loops over constant ranges, double/add_assign/sub_assign on resolved CurveProjective methods) in the '
        'linear-form domain: the result is [k]P for every curve point P with k exactly the RFC 9380 h_eff; arithmetic on '
        'constants shows [h_eff] lands in the order-r subgroup (h2 | h2_eff; exponent of E(Fq) is |x-1|*r).',
        ['rustc nightly MIR construction', 'group-operation contracts: double/add_assign/sub_assign are the group law (C01)',
         'structure theorem for E(Fq) as an End(E)-module (j=0, End = Z[omega]; Lenstra)'],
        ['curve orders derived from the BLS12 parameter x and CM discriminant -3'])

"""C09 -- the multiplicative part of the tower, decided in the polynomial-ring domain (analysis/polyring.py).

Every multiplication-like operation of Fq2, Fq6 and Fq12 (mul_assign, square, inverse, mul_by_nonresidue, norm, the sparse
products mul_by_1 / mul_by_01 / mul_by_014) is interpreted over MIR with generic operands (one atom per Fq coefficient) and
its result compared, coefficient by coefficient as polynomials over Fq, with the product in the quotient ring.  Calls to
operations of the tower (of the component field or of the same level) are replaced by their ring specification, so each
function is decided relative to the contracts of the others (each of which is itself an obligation here)."""
import exp
import inline as INL
import stdmodel
import polyring as PR
from exp import Agg, Opt, Int
from polyring import Poly

FIELD = 'ff::Field'
FQ2, FQ6, FQ12 = 'bls12_381::fq2::Fq2', 'bls12_381::fq6::Fq6', 'bls12_381::fq12::Fq12'
LEVEL = {'bls12_381::fq::Fq': 0, FQ2: 1, FQ6: 2, FQ12: 3}
NAME = {1: 'Fq2', 2: 'Fq6', 3: 'Fq12'}


def sparse6(c0, c1):
    z = PR.t_zero_like(c1)
    return Agg([c0 if c0 is not None else z, c1, z])


def transfer(I, fr, t, c, pth):
    nm = c.get('name')
    args = t['args']
    r_ = c.get('res') or c.get('def') or ''
    if c.get('trait') == 'std::cmp::PartialEq' and nm in ('eq', 'ne') and len(args) == 2:
        # `x == F::zero()` is the zero test of x
        a, b = fr.deref_operand(args[0]), fr.deref_operand(args[1])
        for _ in range(3):
            if isinstance(a, exp.Ref):
                a = fr._project(fr.store.get(a.root, exp.TOP), a.proj)
            if isinstance(b, exp.Ref):
                b = fr._project(fr.store.get(b.root, exp.TOP), b.proj)

        def all_zero(v):
            return PR.level(v) is not None and all(isinstance(p_, PR.Poly) and p_.is_zero() for _i, p_ in PR.leaves(v))
        for x_, y_ in ((a, b), (b, a)):
            if all_zero(y_) and PR.level(x_) is not None and PR.level(x_) == PR.level(y_):
                key = ('all-zero', tuple(PR.leaves(x_)))
                fr.storev(t['dest'], ('bool', key if nm == 'eq' else ('not', key)))
                return True
    if c.get('trait') == FIELD:
        if nm in ('add_assign', 'sub_assign', 'mul_assign') and len(args) == 2:
            a, b = fr.deref_operand(args[0]), fr.deref_operand(args[1])
            if PR.level(a) is None or PR.level(a) != PR.level(b):
                return False
            fr.store_through(args[0], {'add_assign': PR.t_add, 'sub_assign': PR.t_sub, 'mul_assign': PR.t_mul}[nm](a, b))
            return True
        if nm in ('double', 'negate', 'square') and len(args) == 1:
            a = fr.deref_operand(args[0])
            if PR.level(a) is None:
                return False
            fr.store_through(args[0], PR.t_double(a) if nm == 'double' else (PR.t_neg(a) if nm == 'negate' else PR.t_mul(a, a)))
            return True
        if nm in ('zero', 'one') and not args and c.get('self_ty') in LEVEL:
            fr.storev(t['dest'], PR.t_const(LEVEL[c['self_ty']], nm == 'one'))
            return True
        if nm == 'is_zero' and len(args) == 1:
            a = fr.deref_operand(args[0])
            if PR.level(a) is None:
                return False
            fr.storev(t['dest'], ('bool', ('all-zero', tuple(PR.leaves(a)))))
            return True
        if nm == 'inverse' and len(args) == 1:
            a = fr.deref_operand(args[0])
            lv = PR.level(a)
            if lv is None:
                return False
            k = sum(1 for e in pth.events if e[0] == 'inverse-of')
            inv = PR.element(lv, 'inv%d_' % k)
            pth.events.append(('inverse-of', a, inv))
            fr.storev(t['dest'], Opt(None, inv, ('inverse', k)))
            return True
        if nm == 'frobenius_map' and len(args) == 2:
            a = fr.deref_operand(args[0])
            pw = fr.operand(args[1])
            if PR.level(a) == 1 and isinstance(pw, Int):
                if pw.v & 1:
                    fr.store_through(args[0], Agg([a.items[0], a.items[1].neg()], a.kind))
                return True
            return False
    if (c.get('def') or '').startswith('std::mem::swap') and len(args) == 2:
        a, b = fr.deref_operand(args[0]), fr.deref_operand(args[1])
        fr.store_through(args[0], b)
        fr.store_through(args[1], a)
        return True
    if r_.endswith('fq2::Fq2::mul_by_nonresidue') and len(args) == 1:
        a = fr.deref_operand(args[0])
        if PR.level(a) == 1:
            fr.store_through(args[0], PR.mul_xi(a))
            return True
    if r_.endswith('fq6::Fq6::mul_by_nonresidue') and len(args) == 1:
        a = fr.deref_operand(args[0])
        if PR.level(a) == 2:
            fr.store_through(args[0], PR.mul_v(a))
            return True
    if r_.endswith('fq2::Fq2::norm') and len(args) == 1:
        a = fr.deref_operand(args[0])
        if PR.level(a) == 1:
            fr.storev(t['dest'], a.items[0].mul(a.items[0]).add(a.items[1].mul(a.items[1])))
            return True
    if r_.endswith('fq6::Fq6::mul_by_1') and len(args) == 2:
        a, c1 = fr.deref_operand(args[0]), fr.deref_operand(args[1])
        if PR.level(a) == 2 and PR.level(c1) == 1:
            fr.store_through(args[0], PR.t_mul(a, sparse6(None, c1)))
            return True
    if r_.endswith('fq6::Fq6::mul_by_01') and len(args) == 3:
        a, c0, c1 = [fr.deref_operand(x) for x in args]
        if PR.level(a) == 2 and PR.level(c0) == 1 and PR.level(c1) == 1:
            fr.store_through(args[0], PR.t_mul(a, sparse6(c0, c1)))
            return True
    if r_.endswith('fq12::Fq12::mul_by_014') and len(args) == 4:
        a, c0, c1, c4 = [fr.deref_operand(x) for x in args]
        if PR.level(a) == 3 and all(PR.level(x) == 1 for x in (c0, c1, c4)):
            fr.store_through(args[0], PR.t_mul(a, Agg([sparse6(c0, c1), sparse6(None, c4)])))
            return True
    return stdmodel.result_transfer(I, fr, t, c, pth)


def run(fx, path, args):
    I = exp.Interp(fx, 'none', extra_transfer=transfer, max_paths=64, inline=lambda q: INL.is_private_helper(fx, q))
    I.fork_inlined = True
    res = I.run(path, args)
    res = [r for r in res if not (isinstance(r[1], tuple) and r[1] and r[1][0] == 'diverges')]
    return I, res


def consistent(pth):
    """A path is feasible for generic operands unless it assumed a generic element to be zero; paths that did are special
    cases (fast paths) and must agree with the specification under that assumption: returns the substitution (atoms forced
    to zero) or None when the path's tests are not zero tests of tracked values."""
    import tt
    zero_atoms = set()
    for lab, taken in pth.labels:
        x, neg = tt.strip_not(lab)
        if isinstance(x, tuple) and x and x[0] == 'all-zero':
            truth = (taken != 0) != neg
            if truth:
                for _i, p in x[1]:
                    # the test says this coefficient polynomial is zero: usable when it is a single atom
                    if len(p.t) == 1 and list(p.t.values()) == [1] and len(list(p.t)[0]) == 1:
                        zero_atoms.add(list(p.t)[0][0])
                    elif not p.is_zero():
                        return None
            continue
        if isinstance(x, tuple) and x and x[0] == 'inverse':
            continue
        if isinstance(lab, tuple) and lab and lab[0] == 'inverse':
            continue
        return None
    return zero_atoms


def subst_zero(v, atoms):
    if not atoms:
        return v
    return PR.t_map(v, lambda p: Poly({k: c for k, c in p.t.items() if not (set(k) & atoms)}))


def check_op(fx, rep, inst, path, args, want, out_index=1, ret=False):
    """Interpret `path`; on every path the result (parameter `out_index` after the call, or the return value) must equal
    `want` -- under the zero assumptions of that path when it is a special-case path."""
    where = fx.fn(path)['span']
    rep.fn(path)
    try:
        I, res = run(fx, path, args)
    except (exp.NotDerivable, exp.Budget) as e:
        rep.fail('RING', inst, 'not derivable: %s' % e, where, construct=path)
        return
    rep.sites(I.call_sites)
    bad = []
    if not res:
        bad.append('no returning path')
    for pth, rv, outs in res:
        z = consistent(pth)
        if z is None:
            bad.append('branches on %r, which is not a zero test of operand coefficients' % ([l for l, _ in pth.labels][:2],))
            continue
        got = rv if ret else outs.get(out_index)
        if PR.level(got) is None:
            bad.append('result is %r' % (got,))
            continue
        g, w = subst_zero(got, z), subst_zero(want, z)
        if not PR.t_eq(g, w):
            bad.append(('on the path assuming %s = 0: ' % sorted(z) if z else '') + PR.first_diff(g, w))
    rep.check(not bad, 'RING', inst, 'equals the product in the quotient ring, coefficient by coefficient as polynomials over Fq, on every path', '; '.join(bad[:2])[:700], where, construct=path)


def rules(fx, rep):
    n = 0
    for ty, lv in ((FQ2, 1), (FQ6, 2), (FQ12, 3)):
        A, B = PR.element(lv, 'a'), PR.element(lv, 'b')
        s = NAME[lv]
        p = fx.impl_method(FIELD, ty, 'mul_assign')
        if p and fx.body(p):
            check_op(fx, rep, '%s::mul_assign' % s, p, [('byref', A), ('byref', B)], PR.t_mul(A, B))
            n += 1
        else:
            rep.fail('RING', '%s::mul_assign' % s, 'impl not found')
        p = fx.impl_method(FIELD, ty, 'square')
        if p and fx.body(p):
            check_op(fx, rep, '%s::square' % s, p, [('byref', A)], PR.t_mul(A, A))
            n += 1
        else:
            rep.fail('RING', '%s::square' % s, 'impl not found')
        # inverse: a * result = t * t^-1 where t is the element handed to the inversion of the level below
        p = fx.impl_method(FIELD, ty, 'inverse')
        inst = '%s::inverse' % s
        if p and fx.body(p):
            rep.fn(p)
            n += 1
            try:
                I, res = run(fx, p, [('byref', A)])
                rep.sites(I.call_sites)
                bad = []
                n_some = 0
                for pth, rv, outs in res:
                    o = stdmodel.two_variant(rv, True) if hasattr(stdmodel, 'two_variant') else rv
                    if not isinstance(o, Opt):
                        bad.append('returns %r' % (rv,))
                        continue
                    if o.tag == 'none':
                        continue
                    payload = stdmodel.side(o, 1) if o.tag is None else o.payload
                    if isinstance(payload, exp.Either):
                        payload = payload.pick(1)
                    invs = [e for e in pth.events if e[0] == 'inverse-of']
                    if len(invs) != 1 or PR.level(payload) != lv:
                        bad.append('Some(%r) with %d inversions below' % (payload, len(invs)))
                        continue
                    n_some += 1
                    # a special-case path (one that assumed coefficients of the operand to be zero) is judged under its
                    # assumption, like the fast paths of the multiplications
                    z = consistent(pth)
                    if z is None:
                        bad.append('branches on %r, which is not a zero test of operand coefficients' % ([l for l, _ in pth.labels][:2],))
                        continue
                    lhs = subst_zero(PR.t_mul(A, payload), z)
                    rhs = subst_zero(PR.embed(PR.t_mul(invs[0][1], invs[0][2]), A), z)
                    if not PR.t_eq(lhs, rhs):
                        bad.append(('on the path assuming %s = 0: ' % sorted(z) if z else '') + 'a * result differs from t * t^-1: ' + PR.first_diff(lhs, rhs))
                if not n_some and not bad:
                    bad.append('no path returns Some')
                rep.check(not bad, 'RING', inst, 'a * inverse(a) = t * t^-1 identically, t being the element whose inverse is taken in the level below (so the product is 1 whenever that inverse exists)',
                          '; '.join(bad[:2])[:700], fx.fn(p)['span'], construct=p)
            except (exp.NotDerivable, exp.Budget) as e:
                rep.fail('RING', inst, 'not derivable: %s' % e, fx.fn(p)['span'], construct=p)
        else:
            rep.fail('RING', inst, 'impl not found')
    # inherent operations
    A1, A2, A3 = PR.element(1, 'a'), PR.element(2, 'a'), PR.element(3, 'a')
    c0, c1, c4 = PR.element(1, 'p'), PR.element(1, 'q'), PR.element(1, 'r')
    inherent = [
        ('Fq2::mul_by_nonresidue', 'bls12_381::fq2::Fq2::mul_by_nonresidue', [('byref', A1)], PR.mul_xi(A1), False),
        ('Fq2::norm', 'bls12_381::fq2::Fq2::norm', [('byref', A1)], A1.items[0].mul(A1.items[0]).add(A1.items[1].mul(A1.items[1])), True),
        ('Fq6::mul_by_nonresidue', 'bls12_381::fq6::Fq6::mul_by_nonresidue', [('byref', A2)], PR.mul_v(A2), False),
        ('Fq6::mul_by_1', 'bls12_381::fq6::Fq6::mul_by_1', [('byref', A2), ('byref', c1)], PR.t_mul(A2, sparse6(None, c1)), False),
        ('Fq6::mul_by_01', 'bls12_381::fq6::Fq6::mul_by_01', [('byref', A2), ('byref', c0), ('byref', c1)], PR.t_mul(A2, sparse6(c0, c1)), False),
        ('Fq12::mul_by_014', 'bls12_381::fq12::Fq12::mul_by_014', [('byref', A3), ('byref', c0), ('byref', c1), ('byref', c4)],
         PR.t_mul(A3, Agg([sparse6(c0, c1), sparse6(None, c4)])), False),
    ]
    for inst, path, args, want, ret in inherent:
        if fx.body(path) is None:
            rep.fail('RING', inst, '%s not found' % path)
            continue
        check_op(fx, rep, inst, path, args, want, ret=ret)
        n += 1
    rep.floor('RING', 'ring-operations', n, 15)

"""C03 -- the line functions of the Miller loop, decided in the polynomial-ring domain.

(1) Each step function of G2Prepared::from_affine (one point argument = doubling step, point + affine base = addition
    step) is interpreted with the Jacobian coordinates of the running point T and the affine coordinates of Q as atoms of
    a commutative ring (Fq2).  Decided: the updated T is 2T resp. T + Q by the affine tangent / chord law (the same
    cross-multiplied identities as C01), and the returned triple (a, b, c) is proportional -- with a common factor in
    Fq2 -- to the coefficients (of y_P, of x_P, constant) of the tangent at T resp. the chord through T and Q:
        tangent:  ( 2y,        -3x^2,        3x^3 - 2y^2 )
        chord:    ( x_T - x_Q, -(y_T - y_Q), (y_T - y_Q) x_Q - (x_T - x_Q) y_Q )
(2) The line-evaluation helper of miller_loop is interpreted in the tower domain (Fq2 elements with one atom per Fq
    coefficient, a generic Fq12 accumulator): f' = f * (c + (b x_P) w^2 + (a y_P) w^3), i.e. the line of the twisted
    curve evaluated at the untwisted point, up to the factor w^3 * (element of Fq2), which lies in a proper subfield
    and is removed by the final exponentiation (C12 decides that clause)."""
import exp
import inline as INL
import polyring as PR
from exp import Agg, Int
from polyring import Poly
from props import c01gen as G
from props import c09ring

A = Poly.atom


def proportional(triple, spec):
    """triple: 3 Poly; spec: 3 Frac.  True iff triple_i * spec_j == triple_j * spec_i for all i < j (cross-multiplied)."""
    for i in range(3):
        for j in range(i + 1, 3):
            lhs = triple[i].mul(spec[j].n).mul(spec[i].d)
            rhs = triple[j].mul(spec[i].n).mul(spec[j].d)
            if not (lhs == rhs):
                return False, (i, j)
    return True, None


POINT_TY = 'bls12_381::ec::g2::G2'


def is_step_function(fx, from_affine, res):
    """A function nested in from_affine whose first parameter is the running projective point (by reference or value)"""
    if not (res.startswith(from_affine + '::') and fx.body(res) is not None and '{closure' not in res):
        return False
    b = fx.body(res)
    if b.arg_count < 1:
        return False
    ty = b.local_ty(1).replace('&mut ', '').replace('&', '').strip()
    return ty == POINT_TY


def returns_point_too(fx, res):
    rty = fx.body(res).local_ty(0).replace(' ', '')
    return rty.startswith('(' + POINT_TY + ',')


def survey_step_calls(fx, from_affine):
    """Interpret from_affine with Q = (qx, qy) as atoms and the step functions as opaque updates of the running point:
    returns {step fn: set of argument shapes}, an argument being 'T' (the running point), 'Q' (the base) or a polynomial in
    qx, qy (a value precomputed outside the loop and passed in)."""
    import bitlin
    qx, qy = A('qx'), A('qy')
    calls = {}
    counter = [0]

    def shape(v):
        if isinstance(v, Agg) and len(v.items) == 3 and isinstance(v.items[0], Poly):
            # affine base (x, y, infinity flag) vs. projective running point (X, Y, Z)
            return 'T' if isinstance(v.items[2], Poly) else 'Q'
        if isinstance(v, Poly):
            return v
        return None

    def tr(I, fr, t, c, pth):
        res = c.get('res') or c.get('def') or ''
        if is_step_function(fx, from_affine, res):
            vals = []
            for a in t['args']:
                v = fr.deref_operand(a)
                for _ in range(4):
                    if isinstance(v, exp.Ref):
                        v = fr._project(fr.store.get(v.root, exp.TOP), v.proj)
                vals.append(shape(v))
            calls.setdefault(res, [])
            key = tuple(repr(x) for x in vals)
            if key not in [k for k, _ in calls[res]]:
                calls[res].append((key, vals))
            counter[0] += 1
            k = counter[0]
            newT = Agg([A('X_%d' % k), A('Y_%d' % k), A('Z_%d' % k)])
            coef = Agg([A('a_%d' % k), A('b_%d' % k), A('c_%d' % k)])
            if returns_point_too(fx, res):
                fr.storev(t['dest'], Agg([newT, coef]))        # the pure form returns (2T / T + Q, coefficients)
            else:
                fr.store_through(t['args'][0], newT)
                fr.storev(t['dest'], coef)
            return True
        if c.get('name') in ('into', 'from', 'into_projective') and len(t['args']) == 1:
            v = fr.deref_operand(t['args'][0])
            if shape(v) == 'Q':
                fr.storev(t['dest'], Agg([qx, qy, PR.ONE]))
                return True
        if c.get('name') == 'is_zero' and c.get('trait') == 'CurveAffine':
            fr.storev(t['dest'], Int(0, 1))
            return True
        if G.transfer(I, fr, t, c, pth):
            return True
        return bitlin.transfer(I, fr, t, c, pth)
    I = exp.Interp(fx, 'none', extra_transfer=tr, max_steps=400000, inline=lambda q_: INL.is_private_helper(fx, q_) and not is_step_function(fx, from_affine, q_))
    I.run(from_affine, [Agg([qx, qy, Int(0, 1)])])
    return I, calls


def step_rules(fx, rep, from_affine):
    n = 0
    X, Y, Z, qx, qy = A('X'), A('Y'), A('Z'), A('qx'), A('qy')
    x, y = G.affine(X, Y, Z)
    fqx, fqy = G.Frac(qx), G.Frac(qy)
    try:
        I0, calls = survey_step_calls(fx, from_affine)
        rep.sites(I0.call_sites)
    except (exp.NotDerivable, exp.Budget) as e:
        rep.fail('RING', 'from_affine:step-calls', 'the calls of the step functions are not derivable: %s' % e, fx.fn(from_affine)['span'], construct=from_affine)
        return
    for p in sorted(calls):
        for key, vals in calls[p]:
            if vals[:1] != ['T'] or any(v is None for v in vals):
                rep.fail('RING', 'from_affine:step-arguments', 'step function %s is called with %s (expected the running point first, then the base and / or values computed from the base)' % (p, key), fx.fn(p)['span'], construct=p)
                continue
            kind = 'addition' if 'Q' in vals else 'doubling'
            inst = 'from_affine:%s-step' % kind
            rep.fn(p)
            where = fx.fn(p)['span']
            args = []
            for v in vals:
                if v == 'T':
                    args.append(('byref', Agg([X, Y, Z])))
                elif v == 'Q':
                    args.append(('byref', Agg([qx, qy, Int(0, 1)])))
                else:
                    args.append(('byref', v) if fx.body(p).local_ty(len(args) + 1).startswith('&') else v)
            I = exp.Interp(fx, 'none', extra_transfer=G.transfer, max_paths=16, inline=lambda q_: INL.is_private_helper(fx, q_) and q_ not in calls)
            I.fork_inlined = True
            try:
                res = I.run(p, args)
            except (exp.NotDerivable, exp.Budget) as e:
                rep.fail('RING', inst, 'not derivable: %s' % e, where, construct=p)
                continue
            rep.sites(I.call_sites)
            n += 1
            res = [r for r in res if not (isinstance(r[1], tuple) and r[1] and r[1][0] == 'diverges')]
            bad = []
            if len(res) != 1:
                bad.append('%d paths (the step functions are called for finite points only and should not branch)' % len(res))
            for pth, ret, outs in res[:1]:
                T = outs.get(1)
                if returns_point_too(fx, p) and isinstance(ret, Agg) and len(ret.items) == 2:
                    T, ret = ret.items           # the pure form: (new running point, coefficients)
                if not (isinstance(T, Agg) and len(T.items) == 3 and all(isinstance(v, Poly) for v in T.items)):
                    bad.append('the running point becomes %r' % (T,))
                    continue
                if not (isinstance(ret, Agg) and len(ret.items) == 3 and all(isinstance(v, Poly) for v in ret.items)):
                    bad.append('returns %r, expected three line coefficients' % (ret,))
                    continue
                X3, Y3, Z3 = T.items
                sx, sy = G.law_double(x, y) if kind == 'doubling' else G.law_add(x, y, fqx, fqy)
                z2 = Z3.mul(Z3)
                if not (X3.mul(sx.d) == sx.n.mul(z2)) or not (Y3.mul(sy.d) == sy.n.mul(z2.mul(Z3))):
                    bad.append('the running point is not updated to %s by the affine %s law' % ('2T' if kind == 'doubling' else 'T + Q', 'tangent' if kind == 'doubling' else 'chord'))
                if kind == 'doubling':
                    spec = [y.scale(2), (x * x).scale(-3), (x * x * x).scale(3) - (y * y).scale(2)]
                else:
                    dx, dy = x - fqx, y - fqy
                    spec = [dx, dy.scale(-1), dy * fqx - dx * fqy]
                okp, where_ = proportional(list(ret.items), spec)
                if not okp:
                    names = ['coefficient of y_P', 'coefficient of x_P', 'constant term']
                    bad.append('the returned triple is not proportional to the %s line: %s and %s disagree' % ('tangent' if kind == 'doubling' else 'chord', names[where_[0]], names[where_[1]]))
                if all(v.is_zero() for v in ret.items):
                    bad.append('the returned triple is identically zero')
            rep.check(not bad, 'RING', inst,
                      'T is updated to %s by the affine law and the returned (a, b, c) is an Fq2-multiple of the %s line (coefficient of y_P, of x_P, constant), as polynomial identities in the coordinates (arguments as from_affine passes them: %s)'
                      % (('2T', 'tangent', list(key)) if kind == 'doubling' else ('T + Q', 'chord', list(key))), '; '.join(bad[:3]), where, construct=p)
    rep.floor('RING', 'line-step-functions', n, 2)


def ell_rule(fx, rep, ELL):
    rep.fn(ELL)
    where = fx.fn(ELL)['span']
    a, b, c = PR.element(1, 'a'), PR.element(1, 'b'), PR.element(1, 'c')
    xP, yP = A('xP'), A('yP')
    f = PR.element(3, 'f')
    inst = 'miller_loop:line-evaluation'
    try:
        I, res = c09ring.run(fx, ELL, [('byref', f), ('byref', Agg([a, b, c])), ('byref', Agg([xP, yP, Int(0, 1)]))])
    except (exp.NotDerivable, exp.Budget) as e:
        rep.fail('RING', inst, 'not derivable: %s' % e, where, construct=ELL)
        return
    rep.sites(I.call_sites)
    bad = []
    if len(res) != 1:
        bad.append('%d paths' % len(res))
    for pth, ret, outs in res[:1]:
        out = outs.get(1)
        if PR.level(out) != 3:
            bad.append('the accumulator becomes %r' % (out,))
            continue

        def scal(e2, s):
            return Agg([e2.items[0].mul(s), e2.items[1].mul(s)])
        z2 = PR.t_zero_like(a)
        line = Agg([Agg([c, scal(b, xP), z2]), Agg([z2, scal(a, yP), z2])])
        want = PR.t_mul(f, line)
        if not PR.t_eq(out, want):
            bad.append('f is not multiplied by c + (b x_P) w^2 + (a y_P) w^3: ' + PR.first_diff(out, want))
    rep.check(not bad, 'RING', inst,
              'f <- f * (c + b x_P w^2 + a y_P w^3): the twisted line (a, b, c) evaluated at the untwisted G1 point, as a polynomial identity over Fq in all 12 + 6 + 2 coefficients',
              '; '.join(bad[:2])[:600], where, construct=ELL)

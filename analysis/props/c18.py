"""C18 -- square roots, quadratic character, sgn0 and ordering."""
import construles as C
import exp
import mathlib as M
from exp import Agg, Int, KBits, Lin, Opt, TOP
from facts import callee
from props import common
from props.c04 import lab_name

PROP = 'C18'
FQ2 = 'bls12_381::fq2::Fq2'
FQ = 'bls12_381::fq::Fq'


def is_minus_one(v):
    """Abstract Fq2 aggregate (c0 = const -1, c1 = zero)."""
    if not (isinstance(v, Agg) and len(v.items) == 2):
        return False
    c0, c1 = v.items
    if not isinstance(c0, exp.ConstField):
        return False
    try:
        val = C.dec_fq_any(c0.v)
    except Exception:
        return False
    return val == M.Q - 1 and c1 == ('zero',)


def is_i(v):
    return isinstance(v, Agg) and len(v.items) == 2 and v.items[0] == ('zero',) and isinstance(v.items[1], Lin) and not v.items[1].t


def rule_fq2_sqrt(fx, rep):
    path = fx.impl_method('ff::SqrtField', FQ2, 'sqrt')
    b = fx.body(path) if path else None
    if b is None:
        rep.fail('EXP', 'Fq2::sqrt:anchor', 'SqrtField::sqrt for Fq2 not found')
        return
    rep.fn(path)
    where = fx.fn(path)['span']
    q = M.Q
    specials = {}

    def tr(I, fr, t, c, pth):
        # multiplication by / comparison with structured Fq2 constants built in the body
        nm = c.get('name')
        if c.get('trait') == 'ff::Field' and nm == 'mul_assign':
            bval = fr.deref_operand(t['args'][1])
            if isinstance(bval, Agg):
                a = I._as_lin(fr.deref_operand(t['args'][0]))
                tag = 'i' if is_i(bval) else ('minus_one' if is_minus_one(bval) else 'struct?')
                fr.store_through(t['args'][0], a.add(Lin.atom(tag)) if isinstance(a, Lin) else TOP)
                return True
        if (c.get('res') or c.get('def') or '').endswith('fq2::Fq2::norm') and len(t['args']) == 1:
            a = I._as_lin(fr.deref_operand(t['args'][0]))
            if isinstance(a, Lin):
                fr.storev(t['dest'], a.scale(q + 1))       # norm(x) = x * x^q, an element of Fq
                return True
        if c.get('trait') == 'std::cmp::PartialEq' and nm in ('eq', 'ne'):
            a = I._as_lin(fr.deref_operand(t['args'][0]))
            bval = fr.deref_operand(t['args'][1])
            if isinstance(bval, Agg):
                tag = 'minus_one' if is_minus_one(bval) else 'struct?'
                fr.storev(t['dest'], ('bool', (nm, a, tag, t['span'])))
                return True
            bl = I._as_lin(bval)
            if isinstance(bl, Lin) and len(bl.t) == 1 and list(bl.t.values()) == [1] and list(bl.t)[0] in exp.CONST_ATOMS:
                try:
                    cv = C.dec_field_any(exp.CONST_ATOMS[list(bl.t)[0]])
                except Exception:
                    cv = None
                if cv == M.F1(-1):
                    fr.storev(t['dest'], ('bool', (nm, a, 'minus_one', t['span'])))
                    return True
        # coefficient-level code on values tracked as whole Fq2 elements (see proj_hook below): v.c1 == 0 says v lies in
        # Fq; under that, v.c0 == -1 says v = -1; Fq2 { c0: -v.c1, c1: v.c0 } is u * v; v.c0 += 1 is v + 1
        if c.get('trait') == 'ff::Field' and nm == 'is_zero' and len(t['args']) == 1 and (c.get('self_ty') or '').endswith('fq::Fq'):
            cv = fr.deref_operand(t['args'][0])
            if isinstance(cv, tuple) and len(cv) == 3 and cv[0] == 'coef' and cv[1] != Lin.atom('a') and cv[2] == 1:
                fr.storev(t['dest'], ('bool', ('in-fq', cv[1], t['span'])))
                return True
        if c.get('trait') == 'std::cmp::PartialEq' and nm in ('eq', 'ne') and len(t['args']) == 2 and (c.get('self_ty') or '').endswith('fq::Fq'):
            xs = [fr.deref_operand(a_) for a_ in t['args']]
            for x_, y_ in ((xs[0], xs[1]), (xs[1], xs[0])):
                if isinstance(x_, tuple) and len(x_) == 3 and x_[0] == 'coef' and x_[2] == 0:
                    yl = I._as_lin(y_)
                    is_m1 = False
                    if isinstance(yl, Lin) and len(yl.t) == 1 and list(yl.t.values()) == [1] and list(yl.t)[0] in exp.CONST_ATOMS:
                        try:
                            is_m1 = C.dec_field_any(exp.CONST_ATOMS[list(yl.t)[0]]) == M.F1(-1)
                        except Exception:
                            is_m1 = False
                    in_fq = any(isinstance(l_[0], tuple) and l_[0] and l_[0][0] == 'in-fq' and l_[0][1] == x_[1] and l_[1] != 0 for l_ in pth.labels)
                    if is_m1 and in_fq:
                        fr.storev(t['dest'], ('bool', (nm, x_[1], 'minus_one', t['span'])))
                        return True
        if c.get('trait') == 'ff::Field' and nm == 'negate' and len(t['args']) == 1:
            cv = fr.deref_operand(t['args'][0])
            if isinstance(cv, tuple) and len(cv) == 3 and cv[0] == 'coef':
                fr.store_through(t['args'][0], ('negcoef', cv[1], cv[2]))
                return True
        if c.get('trait') == 'ff::Field' and nm == 'add_assign' and len(t['args']) == 2 and (c.get('self_ty') or '').endswith('fq::Fq'):
            pl = fr.ref_place_of(t['args'][0])
            one_ = fr.deref_operand(t['args'][1])
            if isinstance(pl, dict) and isinstance(one_, Lin) and not one_.t:
                root, proj = fr.root_of(pl)
                proj = [e for e in proj if e[0] != 'deref']
                base = fr.store.get(root)
                if isinstance(base, Lin) and len(proj) == 1 and proj[0][0] == 'f' and proj[0][1] == 0:
                    nmx = 'one_plus(%s)' % sorted(base.t.items())
                    specials[nmx] = base
                    fr.store[root] = Lin.atom(nmx)
                    return True
        if c.get('trait') == 'ff::Field' and nm == 'is_zero' and len(t['args']) == 1 and (c.get('self_ty') or '').endswith('fq::Fq'):
            # a zero test of one coefficient of the input element
            pl = fr.ref_place_of(t['args'][0])
            if isinstance(pl, dict):
                root, proj = fr.root_of(pl)
                proj = [e for e in proj if e[0] != 'deref']
                if fr.store.get(root) == Lin.atom('a') and len(proj) == 1 and proj[0][0] == 'f' and proj[0][1] in (0, 1):
                    fr.storev(t['dest'], ('bool', ('is_zero_comp', proj[0][1], t['span'])))
                    return True
        if c.get('trait') == 'ff::Field' and nm == 'add_assign':
            bval = fr.deref_operand(t['args'][1])
            a = I._as_lin(fr.deref_operand(t['args'][0]))
            if isinstance(a, Lin) and isinstance(bval, Lin) and not bval.t:
                # alpha + 1
                nmx = 'one_plus(%s)' % sorted(a.t.items())
                specials[nmx] = a
                fr.store_through(t['args'][0], Lin.atom(nmx))
                return True
        return False
    I = exp.Interp(fx, 'mul', frob_q=q, extra_transfer=tr)
    I.proj_hook = lambda v_, i_: ('coef', v_, i_) if isinstance(v_, Lin) and i_ in (0, 1) else None
    try:
        res = I.run(path, [('byref', Lin.atom('a'))])
    except (exp.NotDerivable, exp.Budget) as e:
        rep.fail('EXP', 'Fq2::sqrt:derivable', 'not derivable: %s at %s' % (e, getattr(e, 'where', None)), where)
        return
    rep.sites(I.call_sites)
    chi = Lin({'a': (q * q - 1) // 2})          # a^((q^2-1)/2): quadratic character in Fq2
    alpha = Lin({'a': (q - 1) // 2})
    x0 = Lin({'a': (q + 1) // 4})
    kinds = {}
    # coefficient-wise zero tests of the input (`c0.is_zero() && c1.is_zero()`, in any order and nesting) are folded
    # into the zero test of the element: true when both coefficients were found zero, false as soon as one was found
    # non-zero; a path that found only one coefficient zero and did not look at the other has not decided it
    res2 = []
    for pth, ret, o_ in res:
        comps = {}
        rest = []
        first_where = None
        for l in pth.labels:
            nm_, tk_, x_ = lab_name(l)
            if nm_ == 'is_zero_comp':
                comps[x_[1]] = tk_
                first_where = first_where or x_[2]
            else:
                rest.append(l)
        if comps:
            if any(not v_ for v_ in comps.values()):
                whole = 0
            elif set(comps) == {0, 1}:
                whole = 1
            else:
                rep.fail('GUARD', 'Fq2::sqrt:zero-test-operand', 'a path decides on the zero test of coefficient c%d alone, not of the whole input element' % sorted(comps)[0], where, construct=path)
                continue
            np_ = exp.Path()
            np_.labels = [(('is_zero', Lin.atom('a'), first_where), whole)] + rest
            np_.events = list(pth.events)
            pth = np_
        res2.append((pth, ret, o_))
    res3 = []
    for pth, ret, o_ in res2:
        # `v.c1.is_zero() && v.c0 == -1` is the test v == -1: not in Fq => not -1; in Fq => whatever the second test said
        labels2, pending = [], None
        for l in pth.labels:
            nm_, tk_, x_ = lab_name(l)
            if nm_ == 'in-fq':
                if tk_:
                    pending = x_[1]
                else:
                    labels2.append((('eq', x_[1], 'minus_one', x_[2]), 0))
                continue
            if pending is not None and nm_ in ('eq', 'ne') and len(x_) >= 3 and x_[2] == 'minus_one' and (x_[1] == pending or x_[1] == ('coef', pending, 0)):
                labels2.append(((x_[0], pending, 'minus_one') + tuple(x_[3:]), 1 if tk_ else 0))
                pending = None
                continue
            labels2.append(l)
        if pending is not None:
            rep.fail('GUARD', 'Fq2::sqrt:structure', 'a path establishes that %r lies in Fq without using it' % (pending,), where, construct=path)
            continue
        if len(labels2) != len(pth.labels) or any(a_ is not b_ for a_, b_ in zip(labels2, pth.labels)):
            np_ = exp.Path()
            np_.labels = labels2
            np_.events = list(pth.events)
            pth = np_
        # Some(Fq2 { c0: -v.c1, c1: v.c0 }) is Some(u * v)
        if isinstance(ret, Opt) and ret.tag == 'some' and isinstance(ret.payload, Agg) and len(ret.payload.items) == 2:
            p0, p1 = ret.payload.items
            if isinstance(p0, tuple) and p0 and p0[0] == 'negcoef' and p0[2] == 1 and isinstance(p1, tuple) and p1 and p1[0] == 'coef' and p1[2] == 0 and p0[1] == p1[1]:
                ret = Opt('some', p0[1].add(Lin.atom('i')), ret.label)
        res3.append((pth, ret, o_))
    for pth, ret, _ in res3:
        labs = [lab_name(l) for l in pth.labels]
        desc = [(nm, tk) for nm, tk, _ in labs]
        if desc and desc[0][0] == 'is_zero' and labs[0][2][1] != Lin.atom('a'):
            rep.fail('GUARD', 'Fq2::sqrt:zero-test-operand', 'the zero short-circuit tests %r, not the whole input element' % (labs[0][2][1],), where, construct=path)
            continue
        if desc and desc[0] == ('is_zero', True):
            ok = isinstance(ret, Opt) and ret.tag == 'some' and ret.payload == ('zero',)
            rep.check(ok, 'GUARD', 'Fq2::sqrt:zero', 'sqrt(0) = Some(0)', 'zero input returns %r' % (ret,), where, construct=path)
            kinds['zero'] = 1
            continue
        if not (desc and desc[0] == ('is_zero', False)):
            rep.fail('GUARD', 'Fq2::sqrt:structure', 'unexpected first branch %r' % (desc[:1],), where, construct=path)
            continue
        # second label: a0 == -1 ?
        if len(labs) < 2 or labs[1][0] not in ('eq', 'ne'):
            rep.fail('GUARD', 'Fq2::sqrt:structure', 'expected the residuosity test after the zero test, got %r' % (desc,), where, construct=path)
            continue
        nm, tk, x = labs[1]
        is_eq = tk if nm == 'eq' else not tk
        rep.check(x[1] == chi and x[2] == 'minus_one', 'EXP', 'Fq2::sqrt:residuosity-test', 'the failure test compares a^((q^2-1)/2) with -1',
                  'the failure test compares %r with %r' % (x[1], x[2]), where, construct=path)
        if is_eq:
            ok = isinstance(ret, Opt) and ret.tag == 'none'
            rep.check(ok, 'GUARD', 'Fq2::sqrt:non-residue', 'non-residue -> None', 'non-residue path returns %r' % (ret,), where, construct=path)
            kinds['none'] = 1
            continue
        if len(labs) < 3 or labs[2][0] not in ('eq', 'ne'):
            rep.fail('GUARD', 'Fq2::sqrt:structure', 'expected the alpha == -1 test, got %r' % (desc,), where, construct=path)
            continue
        nm, tk, x = labs[2]
        is_eq = tk if nm == 'eq' else not tk
        rep.check(x[1] == alpha and x[2] == 'minus_one', 'EXP', 'Fq2::sqrt:alpha-test', 'alpha = a^((q-1)/2) compared with -1', 'compares %r with %r' % (x[1], x[2]), where, construct=path)
        if not (isinstance(ret, Opt) and ret.tag == 'some' and isinstance(ret.payload, Lin)):
            rep.fail('EXP', 'Fq2::sqrt:result', 'residue path returns %r' % (ret,), where, construct=path)
            continue
        r = ret.payload
        if is_eq:
            ok = r == x0.add(Lin.atom('i'))
            rep.check(ok, 'EXP', 'Fq2::sqrt:alpha=-1', 'alpha = -1: result = i * a^((q+1)/4)', 'result is %r' % (r,), where, construct=path)
            kinds['i'] = 1
        else:
            sp = [k for k in r.t if k.startswith('one_plus(')]
            ok = len(sp) == 1 and r.t.get(sp[0]) == (q - 1) // 2 and specials[sp[0]] == alpha and Lin({k: v for k, v in r.t.items() if k != sp[0]}) == x0
            rep.check(ok, 'EXP', 'Fq2::sqrt:generic', 'result = (1+alpha)^((q-1)/2) * a^((q+1)/4)', 'result is %r' % (r,), where, construct=path)
            kinds['generic'] = 1
    rep.check(set(kinds) == {'zero', 'none', 'i', 'generic'}, 'GUARD', 'Fq2::sqrt:cases', 'four cases: zero, non-residue, alpha=-1, generic (Alg. 9)',
              'cases found: %s' % sorted(kinds), where, construct=path)
    # legendre = norm().legendre();  norm = c0^2 + c1^2
    lp = fx.impl_method('ff::SqrtField', FQ2, 'legendre')
    lb = fx.body(lp) if lp else None
    ok, why = False, 'legendre not found'
    if lb is not None:
        rep.fn(lp)
        import inline as INL

        def trl(I, fr, t, c, pth):
            if c.get('name') == 'legendre' and c.get('self_ty') == FQ and len(t['args']) == 1:
                fr.storev(t['dest'], ('legendre_fq', fr.deref_operand(t['args'][0])))
                return True
            return False
        IL = exp.Interp(fx, 'mul', extra_transfer=trl, inline=lambda q: INL.is_private_helper(fx, q) or q.endswith('Fq2::norm'))
        try:
            resl = IL.run(lp, [('byref', Agg([Lin.atom('c0'), Lin.atom('c1')]))])
            rep.sites(IL.call_sites)
            resl = [r_ for r_ in resl if not (isinstance(r_[1], tuple) and r_[1] and r_[1][0] == 'diverges')]
            # decided by value in the four worlds (c0 = 0?, c1 = 0?): the character of the norm c0^2 + c1^2 is Zero when
            # both vanish, QuadraticResidue when exactly one does (the norm is then a non-zero square), and the character
            # of the sum in general; a path is judged in the worlds its zero tests allow
            import tt
            is_sum = lambda l_: (isinstance(l_, Lin) and len(l_.t) == 1 and list(l_.t.values()) == [1] and any(
                s_[0] in l_.t and s_[1] in ('add_assign(Lin(c1:2), Lin(c0:2))', 'add_assign(Lin(c0:2), Lin(c1:2))') for s_ in IL.opaque_sites))

            def evaluate(r_, z0, z1):
                if isinstance(r_, Agg) and r_.kind and isinstance(r_.kind[0], str) and r_.kind[0].endswith('LegendreSymbol'):
                    return r_.kind[1]
                if isinstance(r_, tuple) and r_ and r_[0] == 'legendre_fq' and isinstance(r_[1], Lin):
                    l_ = r_[1]
                    if is_sum(l_):
                        return 'Zero' if (z0 and z1) else ('QuadraticResidue' if (z0 or z1) else 'general')
                    if set(l_.t) <= {'c0', 'c1'} and all(e_ > 0 for e_ in l_.t.values()):
                        if (z0 and 'c0' in l_.t) or (z1 and 'c1' in l_.t):
                            return 'Zero'
                        if all(e_ % 2 == 0 for e_ in l_.t.values()):
                            return 'QuadraticResidue'
                return None
            kz = {('is_zero', tt.lin_key(Lin.atom('c0'))): 0, ('is_zero', tt.lin_key(Lin.atom('c1'))): 1}
            bads, ngen = [], 0
            for pth_, ret_, _o in resl:
                est = [None, None]
                other = None
                for k_, t_, lab_ in tt.path_literals(pth_):
                    if k_ in kz:
                        est[kz[k_]] = t_
                    else:
                        other = lab_
                if other is not None:
                    bads.append('branches on %r (expected zero tests of the coefficients)' % (other,))
                    continue
                for z0 in ((True, False) if est[0] is None else (est[0],)):
                    for z1 in ((True, False) if est[1] is None else (est[1],)):
                        want_ = 'Zero' if (z0 and z1) else ('QuadraticResidue' if (z0 or z1) else 'general')
                        got_ = evaluate(ret_, z0, z1)
                        if want_ == 'general':
                            ngen += 1 if got_ == 'general' else 0
                        if got_ != want_:
                            bads.append('c0 %s 0, c1 %s 0: returns %r, expected %s' % ('=' if z0 else '!=', '=' if z1 else '!=', ret_, 'the character of c0^2 + c1^2' if want_ == 'general' else want_))
            if not ngen and not bads:
                bads.append('no path takes the character of the norm')
            ok = not bads
            why = '; '.join(bads[:2])
        except (exp.NotDerivable, exp.Budget) as e:
            why = 'not derivable: %s' % e
    rep.check(ok, 'WIRE', 'Fq2::legendre', 'legendre(a) = legendre_Fq(c0^2 + c1^2) (by interpretation)', why, fx.fn(lp)['span'] if lp else None, construct=lp)
    np_ = 'bls12_381::fq2::Fq2::norm'
    if fx.body(np_) is not None:
        rep.fn(np_)
        I2 = exp.Interp(fx, 'mul')
        res2 = I2.run(np_, [('byref', Agg([Lin.atom('c0'), Lin.atom('c1')]))])
        ok = len(res2) == 1 and isinstance(res2[0][1], Lin) and len(res2[0][1].t) == 1
        if ok:
            site = [s for s in I2.opaque_sites if s[0] in res2[0][1].t]
            ok = bool(site) and site[0][1] in ('add_assign(Lin(c1:2), Lin(c0:2))', 'add_assign(Lin(c0:2), Lin(c1:2))')
        rep.check(ok, 'EXP', 'Fq2::norm', 'norm = c0^2 + c1^2', 'norm computes %r' % (res2[0][1] if res2 else None,), fx.fn(np_)['span'], construct=np_)
    else:
        rep.fail('EXP', 'Fq2::norm', 'Fq2::norm not found')


def rule_sgn0(fx, rep):
    # Fq: parity of limb 0 of the canonical representation
    p = fx.impl_method('signum::Signum0', FQ, 'sgn0')
    b = fx.body(p) if p else None
    if b is None:
        rep.fail('WIRE', 'Fq::sgn0:anchor', 'Signum0 for Fq not found')
    else:
        rep.fn(p)
        import limbpred
        for bit in (0, 1):
            def tr(I, fr, t, c, pth):
                if c.get('name') == 'into_repr' and c.get('trait') == 'ff::PrimeField':
                    ref = fr.res.operand_referent(t['args'][0])
                    on_self = ref is not None and ref[0] == 'place' and ref[1]['l'] == 1
                    # the canonical limbs as named values of which only the parity (limb 0, bit 0) is known
                    fr.storev(t['dest'], Agg([Agg([limbpred.NLimb(0, [k_]) for k_ in range(6)])]) if on_self else TOP)
                    return True
                if c.get('name') in ('is_odd', 'is_even') and c.get('trait') == 'ff::PrimeFieldRepr' and len(t['args']) == 1:
                    # generated by the derive: parity of limb 0
                    v = fr.deref_operand(t['args'][0])
                    l0 = v.items[0].items[0] if isinstance(v, Agg) and v.items and isinstance(v.items[0], Agg) and v.items[0].items else None
                    if isinstance(l0, limbpred.NLimb) and l0.ks == frozenset([0]):
                        fr.storev(t['dest'], Int(bit if c['name'] == 'is_odd' else 1 - bit, 1))
                        return True
                import stdmodel
                return stdmodel.std_transfer(I, fr, t, c, pth)
            I = exp.Interp(fx, 'none', extra_transfer=tr)
            I.binop_hook = limbpred.make_hook([bit])
            I.propagate_hooks = True
            res = I.run(p, [('byref', TOP)])
            res = [r for r in res if not (isinstance(r[1], tuple) and r[1] and r[1][0] == 'diverges')]
            ok = len(res) == 1 and isinstance(res[0][1], Agg) and res[0][1].kind and res[0][1].kind[1] == ('Negative' if bit else 'NonNegative')
            rep.check(ok, 'WIRE', 'Fq::sgn0:parity=%d' % bit, 'canonical integer with low bit %d -> %s' % (bit, 'Negative' if bit else 'NonNegative'),
                      'low bit %d gives %r (must read bit 0 of limb 0 of into_repr(), not the Montgomery limbs)' % (bit, [r[1] for r in res]), fx.fn(p)['span'], construct=p)
    # Fq2: sign_0 OR (zero_0 AND sign_1), decided by value.  For each pair of parities (s0, s1) the method is interpreted
    # with the coefficients as named values: `is_zero` / `sgn0` of a coefficient, and -- for implementations written on the
    # canonical limbs -- `into_repr()`, `limb & 1`, `limb == 0`, `l0 | l1 | ...` are modelled; zero tests are predicates
    # (whole coefficient, single limb, OR of limbs) on which the paths fork.  A path is judged in the worlds its literals
    # allow: it must return Negative iff s0 = 1 or (c0 = 0 and s1 = 1); a path that has not established whether c0 is
    # zero (e.g. looked at its low limb only) while the answer depends on it is a violation.
    p = fx.impl_method('signum::Signum0', FQ2, 'sgn0')
    b = fx.body(p) if p else None
    if b is None:
        rep.fail('WIRE', 'Fq2::sgn0:anchor', 'Signum0 for Fq2 not found')
    else:
        rep.fn(p)
        import inline as INL
        import tt
        ok, why = True, ''
        SG = 'signum::Sgn0Result'

        class NLimb:
            """limb k of the canonical representation of coefficient i; `ks`: an OR of several limbs of one coefficient"""
            __slots__ = ('i', 'ks')

            def __init__(self, i, ks):
                self.i, self.ks = i, frozenset(ks)

            def __repr__(self):
                return 'limbs%s(c%d)' % (sorted(self.ks), self.i)

        def comp(fr, op):
            v = fr.deref_operand(op)
            for _ in range(4):
                if isinstance(v, exp.Ref):
                    v = fr._project(fr.store.get(v.root, TOP), v.proj)
            return int(v[1]) if isinstance(v, str) and len(v) == 2 and v[0] == 'c' and v[1] in '01' else None
        try:
            for s0 in (0, 1):
                for s1 in (0, 1):
                    par = (s0, s1)

                    def tr(I, fr, t, c, pth):
                        nm = c.get('name')
                        if nm == 'is_zero' and c.get('trait') == 'ff::Field' and len(t['args']) == 1:
                            i = comp(fr, t['args'][0])
                            if i is not None:
                                fr.storev(t['dest'], ('bool', ('zero', i, tuple(range(6)))))
                                return True
                        if nm == 'sgn0' and len(t['args']) == 1:
                            i = comp(fr, t['args'][0])
                            if i is not None:
                                fr.storev(t['dest'], Agg([], (SG, 'Negative' if par[i] else 'NonNegative')))
                                return True
                        if nm == 'into_repr' and c.get('trait') == 'ff::PrimeField' and len(t['args']) == 1:
                            i = comp(fr, t['args'][0])
                            if i is not None:
                                fr.storev(t['dest'], Agg([Agg([NLimb(i, [k]) for k in range(6)])]))
                                return True
                        if nm in ('is_odd', 'is_even') and c.get('trait') == 'ff::PrimeFieldRepr' and len(t['args']) == 1:
                            v = fr.deref_operand(t['args'][0])
                            l0 = v.items[0].items[0] if isinstance(v, Agg) and v.items and isinstance(v.items[0], Agg) and v.items[0].items else None
                            if isinstance(l0, NLimb) and l0.ks == frozenset([0]):
                                odd = par[l0.i]
                                fr.storev(t['dest'], Int(odd if nm == 'is_odd' else 1 - odd, 1))
                                return True
                        if nm == 'is_zero' and c.get('trait') == 'ff::PrimeFieldRepr' and len(t['args']) == 1:
                            v = fr.deref_operand(t['args'][0])
                            ls = v.items[0].items if isinstance(v, Agg) and v.items and isinstance(v.items[0], Agg) else None
                            if ls and all(isinstance(x, NLimb) and len(x.ks) == 1 for x in ls) and len(set(x.i for x in ls)) == 1:
                                fr.storev(t['dest'], ('bool', ('zero', ls[0].i, tuple(sorted(k for x in ls for k in x.ks)))))
                                return True
                        import stdmodel
                        return stdmodel.std_transfer(I, fr, t, c, pth)

                    def bh(op, a, b):
                        if b is None:
                            return None
                        if isinstance(b, NLimb) and not isinstance(a, NLimb):
                            a, b = b, a
                            if op not in ('BitAnd', 'BitOr', 'Eq', 'Ne'):
                                return None
                        if not isinstance(a, NLimb):
                            return None
                        if op == 'BitAnd' and isinstance(b, Int) and b.v == 1 and a.ks == frozenset([0]):
                            return Int(par[a.i])
                        if op == 'BitOr' and isinstance(b, NLimb) and b.i == a.i:
                            return NLimb(a.i, a.ks | b.ks)
                        if op in ('Eq', 'Ne') and isinstance(b, Int) and b.v == 0:
                            pred = ('bool', ('zero', a.i, tuple(sorted(a.ks))))
                            return pred if op == 'Eq' else ('bool', ('not', pred[1]))
                        return None
                    I = exp.Interp(fx, 'none', extra_transfer=tr, inline=lambda q: INL.is_private_helper(fx, q), max_paths=256)
                    I.fork_inlined = True
                    I.binop_hook = bh
                    I.propagate_hooks = True
                    res = I.run(p, [('byref', Agg(['c0', 'c1']))])
                    for pth, ret, _ in res:
                        if isinstance(ret, tuple) and ret and ret[0] == 'diverges':
                            ok, why = False, 'a path panics'
                            continue
                        # what the literals establish about "c_i is zero"
                        est = {0: None, 1: None}
                        zero_limbs = {0: set(), 1: set()}
                        bad_lit = None
                        infeasible = False
                        for k_, t_, lab_ in tt.path_literals(pth):
                            if not (isinstance(k_, tuple) and k_ and k_[0] == 'zero'):
                                bad_lit = lab_
                                break
                            i_, ks_ = k_[1], set(k_[2])
                            if t_:
                                zero_limbs[i_] |= ks_
                                if 0 in ks_ and par[i_]:
                                    infeasible = True       # an odd value has a non-zero low limb
                            else:
                                if est[i_] is True or ks_ <= zero_limbs[i_]:
                                    infeasible = True
                                est[i_] = False
                        if bad_lit is not None:
                            ok, why = False, 'branches on %r (expected zero tests of the coefficients or of their limbs)' % (bad_lit,)
                            continue
                        if infeasible:
                            continue
                        for i_ in (0, 1):
                            if est[i_] is None and zero_limbs[i_] == set(range(6)):
                                est[i_] = True
                        if par[0]:
                            est[0] = False          # odd, hence non-zero
                        wants = set()
                        for z0 in ((True, False) if est[0] is None else (est[0],)):
                            wants.add(bool(s0 or (z0 and s1)))
                        got = ret.kind[1] if isinstance(ret, Agg) and ret.kind and ret.kind[0] == SG else None
                        if got is None:
                            ok, why = False, 'parities (%d, %d): returns %r' % (s0, s1, ret)
                        elif len(wants) != 1:
                            ok, why = False, ('parities (%d, %d): a path returns %s having established only that limbs %s of c0 are zero: whether c0 is zero is not decided, and the sign depends on it'
                                              % (s0, s1, got, sorted(zero_limbs[0])))
                        elif (got == 'Negative') != wants.pop():
                            ok, why = False, 'parities (%d, %d), c0 %s: returns %s' % (s0, s1, 'zero' if est[0] else 'non-zero', got)
        except (exp.NotDerivable, exp.Budget) as e:
            ok, why = False, 'not derivable: %s' % e
        rep.check(ok, 'WIRE', 'Fq2::sgn0', 'sgn0(c0 + c1 u) = sign_0 OR (zero_0 AND sign_1), decided on every path for the four parity pairs, zero tests as predicates (coefficient / limb level)', why, fx.fn(p)['span'], construct=p)
    # negate_if: negate exactly under Negative
    p = 'signum::Signum0::negate_if'
    b = fx.body(p)
    if b is None:
        rep.fail('WIRE', 'negate_if:anchor', 'Signum0::negate_if default method not found')
    else:
        rep.fn(p)
        over = [i['self_ty'] for i in fx.impls_of('signum::Signum0') for it in i['items'] if it['name'] == 'negate_if']
        rep.check(not over, 'WIRE', 'negate_if:not-overridden', 'no impl overrides the default', 'overridden by %s' % over)
        # both values of the sign argument: the element is negated exactly for Negative
        SG = 'signum::Sgn0Result'
        bad = []
        for variant in ('NonNegative', 'Negative'):
            def tr(I, fr, t, c, pth):
                if c.get('trait') == 'ff::Field' and c.get('name') == 'negate':
                    fr.store_through(t['args'][0], ('negated', fr.deref_operand(t['args'][0])))
                    return True
                return False
            I = exp.Interp(fx, 'none', extra_transfer=tr, inline=lambda q: (fx.fn(q) or {}).get('impl_self_ty') == SG)
            I.fork_inlined = True
            try:
                res = I.run(p, [('byref', 'orig'), Agg([], (SG, variant))])
            except (exp.NotDerivable, exp.Budget) as e:
                bad.append('not derivable: %s' % e)
                break
            outs_ = [r[2].get(1) for r in res if not (isinstance(r[1], tuple) and r[1] and r[1][0] == 'diverges')]
            want = ('negated', 'orig') if variant == 'Negative' else 'orig'
            if outs_ != [want]:
                bad.append('for %s the element becomes %r' % (variant, outs_))
        rep.check(not bad, 'WIRE', 'negate_if', 'negates iff the argument is Negative', '; '.join(bad), fx.fn(p)['span'], construct=p)
    # the sign xor: Negative exactly when the operands differ
    px = fx.impl_method('std::ops::BitXor', 'signum::Sgn0Result', 'bitxor')
    if px and fx.body(px) is not None:
        rep.fn(px)
        SG = 'signum::Sgn0Result'
        bad = []
        for a_ in ('NonNegative', 'Negative'):
            for b_ in ('NonNegative', 'Negative'):
                I = exp.Interp(fx, 'none', inline=lambda q: (fx.fn(q) or {}).get('impl_self_ty') == SG and q != px)
                I.fork_inlined = True
                try:
                    res = I.run(px, [Agg([], (SG, a_)), Agg([], (SG, b_))])
                except (exp.NotDerivable, exp.Budget) as e:
                    bad.append('not derivable: %s' % e)
                    continue
                got = [r[1].kind[1] if isinstance(r[1], Agg) and r[1].kind else repr(r[1]) for r in res]
                want = 'Negative' if a_ != b_ else 'NonNegative'
                if got != [want]:
                    bad.append('%s ^ %s = %s, expected %s' % (a_, b_, got, want))
        rep.check(not bad, 'WIRE', 'Sgn0Result::bitxor', 'Negative exactly when the two signs differ (truth table)', '; '.join(bad), fx.fn(px)['span'], construct=px)
    else:
        rep.fail('WIRE', 'Sgn0Result::bitxor', 'BitXor for Sgn0Result not found')


class KBits64(KBits):
    pass


def rule_fq2_order(fx, rep):
    p = fx.impl_method('std::cmp::Ord', FQ2, 'cmp')
    b = fx.body(p) if p else None
    if b is None:
        rep.fail('SHAPE', 'Fq2::cmp:anchor', 'Ord for Fq2 not found')
        return
    rep.fn(p)
    where = fx.fn(p)['span']

    def comp_pair(fr, t):
        # which coefficient of self / of other the two operands are: by value (the operands carry named coefficients),
        # so the comparison may sit in a closure or a helper
        out = []
        for k, a in enumerate(t['args']):
            v = fr.deref_operand(a)
            for _ in range(4):
                if isinstance(v, exp.Ref):
                    v = fr._project(fr.store.get(v.root, TOP), v.proj)
            want = 'so'[k] if k < 2 else '?'
            out.append(int(v[1]) if isinstance(v, str) and len(v) == 2 and v[0] == want and v[1] in '01' else None)
        return tuple(out)

    # all nine outcomes of (cmp(c1, c1'), cmp(c0, c0')): the result is the c1 ordering unless that is Equal, then the c0 ordering
    import itertools
    names = ('Less', 'Equal', 'Greater')

    def lex_table(path, partial):
        bad = []
        for o1, o0 in itertools.product(names, repeat=2):
            seen_pairs = []

            def tr(I, fr, t, c, pth):
                if c.get('trait') in ('std::cmp::Ord', 'std::cmp::PartialOrd') and c.get('name') in ('cmp', 'partial_cmp') and c.get('self_ty') != FQ2:
                    pr = comp_pair(fr, t)
                    seen_pairs.append((pr, c.get('self_ty')))
                    nm = o1 if pr == (1, 1) else (o0 if pr == (0, 0) else None)
                    if nm is None:
                        return False
                    v = Agg([], ('std::cmp::Ordering', nm))
                    fr.storev(t['dest'], v if c.get('name') == 'cmp' else exp.Opt('some', v))
                    return True
                return False
            I = exp.Interp(fx, 'none', extra_transfer=tr, inline=lambda q: q == p)
            I.fork_inlined = True
            try:
                res = I.run(path, [('byref', Agg(['s0', 's1'])), ('byref', Agg(['o0', 'o1']))])
            except (exp.NotDerivable, exp.Budget) as e:
                bad.append('not derivable: %s' % e)
                break
            want = o1 if o1 != 'Equal' else o0
            got = []
            for r in res:
                v = r[1]
                if partial:
                    v = v.payload if isinstance(v, exp.Opt) and v.tag == 'some' else ('not-Some', v)
                got.append(v.kind[1] if isinstance(v, Agg) and v.kind else repr(v))
            if got != [want]:
                bad.append('u-coefficients compare %s and real parts compare %s: returns %s, expected %s%s' % (o1, o0, got, 'Some of ' if partial else '', want))
            for pr, ty in seen_pairs:
                if pr not in ((1, 1), (0, 0)) or ty != FQ:
                    bad.append('compares components %r of type %s' % (pr, ty))
        return bad
    bad = lex_table(p, False)
    rep.check(not bad, 'SHAPE', 'Fq2::cmp', 'lexicographic with c1 (the u-coefficient) most significant, then c0 (all nine outcome pairs)',
              '; '.join(sorted(set(bad))[:3]), where, construct=p)
    # partial_cmp agrees with cmp (the comparison operators <, > go through it)
    pp = fx.impl_method('std::cmp::PartialOrd', FQ2, 'partial_cmp')
    if pp and fx.body(pp) is not None:
        rep.fn(pp)
        bad = lex_table(pp, True)
        rep.check(not bad, 'SHAPE', 'Fq2::partial_cmp', 'partial_cmp = Some(the same lexicographic order) for all nine outcome pairs', '; '.join(sorted(set(bad))[:3]), fx.fn(pp)['span'], construct=pp)
    else:
        rep.fail('SHAPE', 'Fq2::partial_cmp', 'PartialOrd for Fq2 not found')
    # lt / le / gt / ge: the std defaults over partial_cmp, or overrides that are decided like cmp (nine outcome pairs)
    over = [(it['name'], it['def']) for i in fx.impls_of('std::cmp::PartialOrd', FQ2) for it in i['items'] if it['name'] in ('lt', 'le', 'gt', 'ge')]
    truth = {'lt': lambda w: w == 'Less', 'le': lambda w: w != 'Greater', 'gt': lambda w: w == 'Greater', 'ge': lambda w: w != 'Less'}
    comp_truth = dict(truth, eq=lambda w: w == 'Equal', ne=lambda w: w != 'Equal')
    bad = []
    for opn, opath in over:
        if fx.body(opath) is None:
            bad.append('%s: no body' % opn)
            continue
        rep.fn(opath)
        for o1, o0 in itertools.product(names, repeat=2):
            def tr(I, fr, t, c, pth, o1=o1, o0=o0):
                nm = c.get('name')
                if c.get('self_ty') == FQ2 or c.get('trait') not in ('std::cmp::Ord', 'std::cmp::PartialOrd', 'std::cmp::PartialEq'):
                    return False
                pr = comp_pair(fr, t)
                rel = o1 if pr == (1, 1) else (o0 if pr == (0, 0) else None)
                if rel is None:
                    return False
                if nm in ('cmp', 'partial_cmp'):
                    v = Agg([], ('std::cmp::Ordering', rel))
                    fr.storev(t['dest'], v if nm == 'cmp' else exp.Opt('some', v))
                    return True
                if nm in comp_truth:
                    fr.storev(t['dest'], Int(1 if comp_truth[nm](rel) else 0, 1))
                    return True
                return False
            I = exp.Interp(fx, 'none', extra_transfer=tr, inline=lambda q: q in (p, pp))
            I.fork_inlined = True
            try:
                res = I.run(opath, [('byref', Agg(['s0', 's1'])), ('byref', Agg(['o0', 'o1']))])
            except (exp.NotDerivable, exp.Budget) as e:
                bad.append('%s: not derivable: %s' % (opn, e))
                break
            want = o1 if o1 != 'Equal' else o0
            got = [bool(r[1].v) if isinstance(r[1], Int) else repr(r[1]) for r in res]
            if got != [truth[opn](want)]:
                bad.append('%s: u-coefficients compare %s and real parts compare %s: returns %s, expected %s' % (opn, o1, o0, got, truth[opn](want)))
    rep.check(not bad, 'SHAPE', 'Fq2::PartialOrd:operators', 'lt/gt/le/ge are the std defaults over partial_cmp or agree with the lexicographic order on all nine outcome pairs (%d overridden)' % len(over),
              '; '.join(sorted(set(bad))[:3]))


def rule_base_fields(fx, rep):
    # Fq / Fr: sqrt, legendre, Ord come from the derive; S and ROOT_OF_UNITY (Tonelli-Shanks inputs) are checked by CONST
    C.check_field_params(fx, rep)
    for ty in (FQ, 'bls12_381::fr::Fr'):
        for tr_, m in (('ff::SqrtField', 'sqrt'), ('ff::SqrtField', 'legendre'), ('std::cmp::Ord', 'cmp')):
            p = fx.impl_method(tr_, ty, m)
            f = fx.fn(p) if p else None
            ok = f is not None and 'Derive' in (f.get('impl_expn') or '')
            rep.check(ok, 'WIRE', '%s::%s:derive' % (ty.rsplit('::', 1)[1], m), 'generated by the ff derive (external; contract trusted)', '%s::%s is not the derive-generated implementation' % (ty, m))
    c = fx.consts.get('bls12_381::fq::NEGATIVE_ONE')
    rep.check(c is not None and 'v' in c and C.dec_fq_any(c['v']) == M.Q - 1, 'CONST', 'NEGATIVE_ONE', '-1 mod q', 'NEGATIVE_ONE is not -1')


def rules(fx, rep):
    rule_fq2_sqrt(fx, rep)
    rule_sgn0(fx, rep)
    rule_fq2_order(fx, rep)
    rule_base_fields(fx, rep)


def main(tier, t0):
    return common.standard_main(
        PROP, tier, t0, rules, 'other',
        'EXP abstract interpretation of Fq2::sqrt (Adj/Rodriguez-Henriquez Alg. 9): a1 = a^((q-3)/4), alpha = a^((q-1)/2), failure exactly when '
        'a^((q^2-1)/2) == -1, results i*a^((q+1)/4) resp. (1+alpha)^((q-1)/2) a^((q+1)/4), sqrt(0)=0; legendre = Legendre_Fq(c0^2+c1^2); Fq::sgn0 reads '
        'bit 0 of limb 0 of the canonical representation (known-bits); Fq2::sgn0 = first non-zero coefficient, real part first; negate_if negates iff '
        'Negative; Ord for Fq2 is lexicographic with c1 most significant; the 2-adic constants of Fr/Fq feeding the derive\'s Tonelli-Shanks are exact. '
        'NOT decided: correctness of Alg. 9 itself (cited), the derive-generated sqrt/legendre/Ord of Fq and Fr (external).',
        ['rustc MIR', 'ff derive contracts', 'Alg. 9 of eprint 2012/685'],
        ['partial: structure and exponents, not numeric results'])

"""C04 -- point decoding accepts exactly canonical encodings of subgroup points.

Decision tables of the four unchecked decoders over the three flag bits (known-bits
abstract interpretation), validation order of the four checked decoders, the subgroup
predicate (conjunction + multiplier r), root selection by the sort flag, panic edges."""
import roles
import itertools

import decode
import exp
import mathlib as M
from exp import Agg, Int, Lin
from facts import callee
from mirutil import Resolver
from props import common

PROP = 'C04'
ENC = 'EncodedPoint'
DECODERS = [
    ('G1Uncompressed', 'bls12_381::ec::g1::G1Uncompressed', 96, False, 'G1', 2),
    ('G1Compressed', 'bls12_381::ec::g1::G1Compressed', 48, True, 'G1', 1),
    ('G2Uncompressed', 'bls12_381::ec::g2::G2Uncompressed', 192, False, 'G2', 4),
    ('G2Compressed', 'bls12_381::ec::g2::G2Compressed', 96, True, 'G2', 2),
]


def cls2(c):
    return (c[0], c[1] if len(c) > 1 and isinstance(c[1], str) else '')


def lab_name(l):
    x = l[0]
    neg = False
    while isinstance(x, tuple) and x and x[0] == 'not':
        neg = not neg
        x = x[1]
    nm = x[0] if isinstance(x, tuple) else x
    taken = (l[1] != 0)
    if neg:
        taken = not taken
    return nm, taken, x


def coord_slots(point, g):
    """Flatten the decoded point aggregate into the read index feeding each coordinate
    slot: G1 -> [x, y]; G2 -> [x.c0, x.c1, y.c0, y.c1]; plus the infinity flag value."""
    def rd(v):
        # ('try', ('mapped', ('from_repr', ('repr', k), ty), closure))
        if isinstance(v, tuple) and v[0] == 'try' and v[1][0] == 'mapped' and v[1][1][0] == 'from_repr' and v[1][1][1][0] == 'repr':
            return v[1][1][1][1], v[1][2], v[1][1][2]
        return None
    items = point.items
    out = []
    for c in items[:-1] if len(items) == 3 else items:
        if isinstance(c, Agg) and c.kind and c.kind[0].endswith('fq2::Fq2'):
            out.extend(rd(x) for x in c.items)
        else:
            out.append(rd(c))
    inf = items[-1] if len(items) == 3 else None
    return out, inf


def rule_unchecked(fx, rep):
    n_dec = 0
    for name, ty, nbytes, compressed, g, ncoord in DECODERS:
        path = fx.impl_method(ENC, ty, 'into_affine_unchecked')
        if path is None or fx.body(path) is None:
            rep.fail('TABLE', '%s:anchor' % name, 'into_affine_unchecked impl not found')
            continue
        rep.fn(path)
        where = fx.fn(path)['span']
        # the wrapped array length is the encoding size
        a = fx.adts.get(ty)
        arr = a['variants'][0]['fields'][0]['ty'] if a else ''
        rep.check(arr == '[u8; %d]' % nbytes, 'BYTES', '%s:array-length' % name, 'wraps [u8; %d]' % nbytes, 'wraps %s' % arr, where)
        sz = fx.impl_method(ENC, ty, 'size')
        from construles import const_fn_value
        rep.check(const_fn_value(fx, sz) == nbytes, 'BYTES', '%s:size()' % name, 'size() == %d' % nbytes, 'size() returns %r' % (const_fn_value(fx, sz),), where)
        n_dec += 1
        for flags in itertools.product((0, 1), repeat=3):
            b7, b6, b5 = flags
            R = decode.DecoderRun(fx, path, nbytes, flags)
            inst = '%s:flags=%d%d%d' % (name, b7, b6, b5)
            try:
                res = R.run()
            except (exp.NotDerivable, exp.Budget) as e:
                rep.fail('TABLE', inst, 'decoder not derivable: %s' % e, where, construct=path)
                continue
            rep.sites(R.call_sites)
            outs = []
            for pth, ret, _ in res:
                outs.append((pth, decode.classify(ret)))
            classes = sorted(set(cls2(c) for _, c in outs), key=str)
            asserts = [e for pth, _ in outs for e in pth.events if e[0].startswith('assert-')]
            rep.check(not asserts, 'PANIC', inst + ':assertions', 'every bounds/overflow assertion on the path is decided true',
                      'assertions not discharged: %s' % asserts[:3], where, construct=path)
            panics = [c for _, c in outs if c[0] == 'panic']
            rep.check(not panics, 'PANIC', inst + ':no-panic', 'no diverging path', 'diverging paths: %s' % panics[:2], where, construct=path)
            wrong_form = (b7 == 1) if not compressed else (b7 == 0)
            if wrong_form:
                want = [('Err', 'UnexpectedCompressionMode')]
                rep.check(classes == want, 'TABLE', inst, 'form flag mismatch -> UnexpectedCompressionMode', 'outcomes %s, expected %s' % (classes, want), where, construct=path)
                continue
            if b6 == 1:
                # infinity: all remaining bits must be zero, tested over the whole buffer
                if b5 == 1:
                    want = [('Err', 'UnexpectedInformation')]
                else:
                    want = sorted([('Err', 'UnexpectedInformation'), ('Ok', 'zero')], key=str)
                rep.check(classes == want, 'TABLE', inst, 'infinity flag: Ok(identity) iff every other bit is zero, else UnexpectedInformation',
                          'outcomes %s, expected %s' % (classes, want), where, construct=path)
                spans = [e for pth, _ in outs for e in pth.events if e[0] == 'all_zero_over']
                rep.check(spans and all(e[1] == nbytes for e in spans), 'TABLE', inst + ':whole-buffer', 'the all-zero test covers all %d bytes' % nbytes,
                          'the all-zero test covers %s bytes' % [e[1] for e in spans], where, construct=path)
                for pth, c in outs:
                    if c[:2] == ('Ok', 'zero'):
                        ls = [lab_name(l) for l in pth.labels]
                        rep.check(ls and ls[-1][0] == 'all_zero' and ls[-1][1], 'TABLE', inst + ':zero-only-if-all-zero', 'identity returned only under the all-zero test',
                                  'identity returned under %s' % ls, where, construct=path)
                continue
            if not compressed and b5 == 1:
                want = [('Err', 'UnexpectedInformation')]
                rep.check(classes == want, 'TABLE', inst, 'sort flag on an uncompressed finite encoding -> UnexpectedInformation',
                          'outcomes %s, expected %s (an encoding differing only in the sort bit would decode to the same point)' % (classes, want), where, construct=path)
                continue
            # coordinates
            oks = [(pth, c) for pth, c in outs if c[0] in ('Ok', 'ok_or')]
            errs = [(pth, c) for pth, c in outs if c[0] == 'Err']
            good = len(oks) == 1 and len(errs) == ncoord and all(c[1] == 'propagated' for _, c in errs)
            rep.check(good, 'TABLE', inst, 'coordinate path: %d range checks, each failing -> error, one success' % ncoord,
                      'outcomes %s' % [cls2(c) for _, c in outs], where, construct=path)
            if not oks:
                continue
            pth, c = oks[0]
            lost = [e for e in pth.events if e[0] == 'source-bits-discarded']
            rep.check(len(lost) == 1 and lost[0][1] == [], 'TABLE', inst + ':no-input-bit-discarded',
                      'the coordinates are read from the input bytes with only the three (already decided) flag bits masked',
                      'input bits are cleared without having been tested: %s (byte index, bit mask) -- encodings differing in those bits decode identically'
                      % (lost[0][1] if lost else 'no read',), where, construct=path)
            reads = [e for e in pth.events if e[0] == 'read_be']
            rep.check(len(reads) == ncoord and ncoord * 48 == nbytes, 'BYTES', inst + ':reads', '%d big-endian reads of 48 bytes = %d' % (ncoord, nbytes),
                      '%d reads of 48 bytes from a %d-byte buffer (read_be().unwrap() could fail)' % (len(reads), nbytes), where, construct=path)
            if compressed:
                ok = c[0] == 'ok_or' and isinstance(c[1], tuple) and c[1][0] == 'point_from_x'
                errv = c[2] if c[0] == 'ok_or' else None
                okerr = isinstance(errv, Agg) and errv.kind and errv.kind[1] == 'NotOnCurve'
                rep.check(ok and okerr, 'TABLE', inst + ':sqrt-step', 'result = get_point_from_x(x, greatest).ok_or(NotOnCurve)', 'compressed path ends in %r' % (cls2(c),), where, construct=path)
                if ok:
                    xval, gr = c[1][1], c[1][2]
                    rep.check(isinstance(gr, Int) and gr.v == b5, 'TABLE', inst + ':greatest=sort-flag', 'the root selector is the sort flag bit',
                              'root selector is %r for sort flag %d' % (gr, b5), where, construct=path)
                    pt = Agg([xval]) if g == 'G1' else Agg([xval])
                    slots, _ = coord_slots(Agg([xval, None, None]), g) if False else (None, None)
                    flat = []
                    if isinstance(xval, Agg):
                        flat = [coord_slots(Agg([xval]), g)[0]]
                        flat = flat[0]
                    else:
                        flat = coord_slots(Agg([xval]), g)[0]
                    want_order = [0] if g == 'G1' else [1, 0]
                    got = [s[0] if s else None for s in flat]
                    rep.check(got == want_order, 'BYTES', inst + ':layout', 'x%s read in wire order (c1 before c0)' % ('' if g == 'G1' else '.c0/.c1'),
                              'coordinate slots are fed by reads %s, expected %s' % (got, want_order), where, construct=path)
                    errsv = [decode.closure_error_variant(fx, s[1]) for s in flat if s]
                    rep.check(all(e and e[0] == 'CoordinateDecodingError' for e in errsv) and len(errsv) == ncoord, 'TABLE', inst + ':range-error',
                              'out-of-range coordinate -> CoordinateDecodingError', 'range errors are %s' % errsv, where, construct=path)
            else:
                ok = c[:2] == ('Ok', 'point')
                rep.check(ok, 'TABLE', inst + ':point', 'Ok(point built from the range-checked coordinates)', 'success path returns %r' % (cls2(c),), where, construct=path)
                if ok:
                    slots, inf = coord_slots(c[2], g)
                    want_order = [0, 1] if g == 'G1' else [1, 0, 3, 2]
                    got = [s[0] if s else None for s in slots]
                    rep.check(got == want_order and isinstance(inf, Int) and inf.v == 0, 'BYTES', inst + ':layout', 'coordinates read in wire order x then y (c1 before c0), infinity = false',
                              'coordinate slots are fed by reads %s (expected %s), infinity=%r' % (got, want_order, inf), where, construct=path)
                    errsv = [decode.closure_error_variant(fx, s[1]) for s in slots if s]
                    rep.check(all(e and e[0] == 'CoordinateDecodingError' for e in errsv) and len(errsv) == ncoord, 'TABLE', inst + ':range-error',
                              'out-of-range coordinate -> CoordinateDecodingError', 'range errors are %s' % errsv, where, construct=path)
                    tys = [s[2] for s in slots if s]
                    rep.check(all(t == 'bls12_381::fq::Fq' for t in tys), 'WIRE', inst + ':from_repr', 'every coordinate goes through Fq::from_repr (range check)', 'coordinate types %s' % tys, where)
    rep.floor('TABLE', 'unchecked-decoders', n_dec, 4)


def rule_checked(fx, rep):
    n = 0
    for name, ty, nbytes, compressed, g, ncoord in DECODERS:
        path = fx.impl_method(ENC, ty, 'into_affine')
        if path is None or fx.body(path) is None:
            rep.fail('GUARD', '%s:checked:anchor' % name, 'into_affine impl not found')
            continue
        rep.fn(path)
        n += 1
        where = fx.fn(path)['span']
        R = decode.DecoderRun(fx, path, nbytes, (0, 0, 0))
        try:
            res = R.run()
        except (exp.NotDerivable, exp.Budget) as e:
            rep.fail('GUARD', '%s:checked' % name, 'not derivable: %s' % e, where, construct=path)
            continue
        rep.sites(R.call_sites)
        want_preds = ['in_subgroup'] if compressed else ['is_on_curve', 'in_subgroup']
        ok_paths = 0
        bad = []
        for pth, ret, _ in res:
            c = decode.classify(ret)
            labs = [lab_name(l) for l in pth.labels]
            if c[0] == 'Ok':
                ok_paths += 1
                names = [(nm, tk) for nm, tk, _ in labs]
                want = [('try', False)] + [(p, True) for p in want_preds]
                # try label: taken value 0 = Continue
                seq = [(nm, (tk if nm != 'try' else tk)) for nm, tk in names]
                if seq != want:
                    bad.append('Ok returned under %s, expected %s' % (seq, want))
                inner = ret.items[0] if isinstance(ret, Agg) and ret.items else None
                if not (isinstance(inner, tuple) and inner[0] == 'try' and inner[1][0] == 'unchecked_result' and inner[1][1] == ty):
                    bad.append('Ok carries %r, not the value decoded by this type\'s unchecked decoder' % (inner,))
                # predicates applied to that same value
                for nm, tk, x in labs:
                    if nm in ('is_on_curve', 'in_subgroup') and x[1] != inner:
                        bad.append('%s is applied to %r, not to the decoded point' % (nm, x[1]))
            elif c[0] == 'Err':
                names = [(nm, tk) for nm, tk, _ in labs]
                if c[1] == 'propagated':
                    if names != [('try', True)]:
                        bad.append('error propagated under %s' % names)
                elif c[1] == 'NotOnCurve':
                    if compressed or names != [('try', False), ('is_on_curve', False)]:
                        bad.append('NotOnCurve under %s' % names)
                elif c[1] == 'NotInSubgroup':
                    want = [('try', False)] + [(p, True) for p in want_preds[:-1]] + [('in_subgroup', False)]
                    if names != want:
                        bad.append('NotInSubgroup under %s, expected %s (validation order)' % (names, want))
                else:
                    bad.append('unexpected error %s' % (c[1],))
            else:
                bad.append('unexpected outcome %r' % (cls2(c),))
        rep.check(not bad and ok_paths == 1, 'GUARD', '%s:checked:validation-order' % name,
                  'Ok only after unchecked decode succeeded%s and in_subgroup; errors in the order form/flags/range -> curve -> subgroup' % ('' if compressed else ', is_on_curve'),
                  '; '.join(bad) or '%d Ok paths' % ok_paths, where, construct=path)
    rep.floor('GUARD', 'checked-decoders', n, 4)


def rule_predicates(fx, rep):
    for g, aff, proj in (('G1', 'bls12_381::ec::g1::G1Affine', 'bls12_381::ec::g1::G1'), ('G2', 'bls12_381::ec::g2::G2Affine', 'bls12_381::ec::g2::G2')):
        # in_subgroup = is_on_curve && is_in_correct_subgroup_assuming_on_curve
        path = fx.impl_method('SubgroupCheck', aff, 'in_subgroup')
        b = fx.body(path) if path else None
        if b is None:
            rep.fail('GUARD', '%s:in_subgroup:anchor' % g, 'SubgroupCheck impl not found')
            continue
        rep.fn(path)
        where = fx.fn(path)['span']
        preds = {}

        def tr(I, fr, t, c, pth):
            RG = roles.roles(fx)[g]
            nm = {RG.get('is_on_curve'): 'is_on_curve', RG.get('r_torsion'): 'is_in_correct_subgroup_assuming_on_curve'}.get(c.get('res'))
            if nm is not None and c.get('res'):
                ref = fr.res.operand_referent(t['args'][0])
                on_self = ref is not None and ref[0] == 'place' and ref[1]['l'] == 1
                fr.storev(t['dest'], ('bool', (nm, on_self, t['span'])))
                return True
            return False
        I = exp.Interp(fx, 'none', extra_transfer=tr)
        res = I.run(path, [('byref', exp.TOP)])
        # truth table
        names = ['is_on_curve', 'is_in_correct_subgroup_assuming_on_curve']
        ok = True
        why = ''
        seen = set()
        for pth, ret, _ in res:
            for l in pth.labels:
                nm, tk, x = lab_name(l)
                seen.add(nm)
                if not x[1]:
                    ok = False
                    why = '%s is not applied to self' % nm
            if isinstance(ret, tuple) and ret[0] == 'bool':
                seen.add(lab_name((ret[1], 1))[0])
        for assign in itertools.product([0, 1], repeat=2):
            env = dict(zip(names, assign))
            val = None
            m = 0
            for pth, ret, _ in res:
                cons = all(env.get(lab_name(l)[0]) == int(lab_name(l)[1]) for l in pth.labels)
                if cons:
                    m += 1
                    if isinstance(ret, Int):
                        val = ret.v
                    elif isinstance(ret, tuple) and ret[0] == 'bool':
                        nm, tk, x = lab_name((ret[1], 1))
                        val = env.get(nm) if tk else 1 - env.get(nm, 0)
            if m != 1 or val != int(all(assign)):
                ok = False
                why = why or 'for (on_curve, r-torsion) = %r the predicate returns %r' % (assign, val)
        rep.check(ok and set(names) <= seen, 'GUARD', '%s:in_subgroup:conjunction' % g, 'in_subgroup = is_on_curve && [r]P == O, both on self',
                  why or 'predicate does not test %s' % sorted(set(names) - seen), where, construct=path)
        # the r-torsion test multiplies by exactly r
        p2 = roles.roles(fx)[g].get('r_torsion')
        b2 = fx.body(p2)
        if b2 is None:
            rep.fail('EXP', '%s:r-torsion:anchor' % g, 'in_subgroup calls no helper that multiplies the point (r-torsion test)')
            continue
        rep.fn(p2)
        I2 = exp.Interp(fx, 'add', inline=lambda q: q.endswith('PrimeField>::char'))
        try:
            res2 = I2.run(p2, [('byref', Lin.atom('P'))])
            ok = len(res2) == 1
            ret = res2[0][1] if ok else None
            ok = ok and isinstance(ret, tuple) and ret[0] == 'bool' and ret[1][0] == 'is_zero' and isinstance(ret[1][1], Lin) and ret[1][1].t == {'P': M.R_ORDER}
            rep.check(ok, 'EXP', '%s:r-torsion:multiplier' % g, 'returns is_zero([r]P) with r the scalar-field modulus',
                      'returns %r, expected is_zero([r]P)' % (ret,), fx.fn(p2)['span'], construct=p2)
        except (exp.NotDerivable, exp.Budget) as e:
            rep.fail('EXP', '%s:r-torsion:multiplier' % g, 'not derivable: %s' % e, fx.fn(p2)['span'])
        # is_on_curve: identity -> true; else y^2 == x^3 + b (monomial shape + b from get_coeff_b)
        p3 = roles.roles(fx)[g].get('is_on_curve')
        if p3 is None or fx.body(p3) is None:
            rep.fail('GUARD', '%s:is_on_curve:anchor' % g, 'in_subgroup calls no curve-equation helper')
            continue
        rep.fn(p3)
        coeff_b = roles.roles(fx)[g].get('get_coeff_b')

        def tr3(I, fr, t, c, pth):
            if coeff_b and c.get('res') == coeff_b:
                fr.storev(t['dest'], Lin.atom('b'))
                return True
            if c.get('name') == 'is_zero' and c.get('trait') == 'CurveAffine':
                fr.storev(t['dest'], ('bool', ('is_identity', t['span'])))
                return True
            return False
        I3 = exp.Interp(fx, 'mul', extra_transfer=tr3)
        try:
            selfv = Agg([Lin.atom('x'), Lin.atom('y'), exp.TOP])
            res3 = I3.run(p3, [('byref', selfv)])
            ok = len(res3) == 2
            why = '%d paths' % len(res3)
            for pth, ret, _ in res3:
                labs = [lab_name(l) for l in pth.labels]
                if labs and labs[0][0] == 'is_identity' and labs[0][1]:
                    if not (isinstance(ret, Int) and ret.v == 1):
                        ok, why = False, 'identity is not accepted'
                elif labs and labs[0][0] == 'is_identity':
                    good = isinstance(ret, tuple) and ret[0] == 'bool' and ret[1][0] == 'eq'
                    if good:
                        a, b_ = ret[1][1], ret[1][2]
                        sides = [a, b_]
                        y2 = [s for s in sides if s == Lin({'y': 2})]
                        rhs = [s for s in sides if isinstance(s, Lin) and len(s.t) == 1 and list(s.t)[0].startswith('opaque')]
                        good = len(y2) == 1 and len(rhs) == 1
                        if good:
                            site = [s for s in I3.opaque_sites if s[0] == list(rhs[0].t)[0]]
                            good = bool(site) and site[0][1] in ('add_assign(Lin(x:3), Lin(b:1))',)
                    if not good:
                        ok, why = False, 'finite points are accepted under %r, expected y^2 == x^3 + b' % (ret,)
                else:
                    ok, why = False, 'unexpected branch %r' % (labs,)
            rep.check(ok, 'GUARD', '%s:is_on_curve:shape' % g, 'identity -> true; otherwise y^2 == x^3 + b with b from get_coeff_b', why, fx.fn(p3)['span'], construct=p3)
        except (exp.NotDerivable, exp.Budget) as e:
            rep.fail('GUARD', '%s:is_on_curve:shape' % g, 'not derivable: %s' % e, fx.fn(p3)['span'])
        # root selection in get_point_from_x
        rule_root_selection(fx, rep, g, aff)


def rule_root_selection(fx, rep, g, aff):
    p = roles.roles(fx)[g].get('get_point_from_x')
    b = fx.body(p)
    coeff_b = roles.roles(fx)[g].get('get_coeff_b')
    if b is None:
        rep.fail('GUARD', '%s:get_point_from_x:anchor' % g, 'the compressed decoder calls no (x, greatest) -> point helper')
        return
    rep.fn(p)
    clos = [q for q in fx.fns if q.startswith(p + '::{closure')]
    if len(clos) != 1:
        rep.fail('GUARD', '%s:root-selection' % g, 'expected one closure building the point, found %d' % len(clos), fx.fn(p)['span'])
        return
    cp = clos[0]
    rep.fn(cp)
    where = fx.fn(cp)['span']
    ok = True
    why = ''
    for greatest in (0, 1):
        def tr(I, fr, t, c, pth):
            if c.get('trait') == 'std::cmp::PartialOrd' and c.get('name') in ('lt', 'gt', 'le', 'ge'):
                a = fr.deref_operand(t['args'][0])
                b_ = fr.deref_operand(t['args'][1])
                fr.storev(t['dest'], ('bool', (c['name'], a, b_, c.get('self_ty'))))
                return True
            return False
        I = exp.Interp(fx, 'mul', extra_transfer=tr)
        # closure args: (captures, y).  captures = (x, greatest) by reference/value
        cb = fx.body(cp)
        caps = cb.local_ty(1)
        # captured upvars: order as in the closure aggregate in the parent body
        agg = None
        for blk in b.blocks:
            for s in blk['stmts']:
                if s['k'] == 'assign' and s['rv']['k'] == 'agg' and s['rv']['kind'].get('closure') == cp:
                    agg = s['rv']
        if agg is None:
            ok, why = False, 'closure construction not found'
            break
        from wire import Origin, strip
        o = Origin(b)
        capvals = []
        for op in agg['ops']:
            t = strip(o.operand(op))
            if t == ('param', 1):
                capvals.append(Lin.atom('x'))
            elif t == ('param', 2):
                capvals.append(Int(greatest, 1))
            else:
                capvals.append(exp.TOP)
        try:
            res = I.run(cp, [Agg(capvals), Lin.atom('y')])
        except (exp.NotDerivable, exp.Budget) as e:
            ok, why = False, 'not derivable: %s' % e
            break
        for pth, ret, _ in res:
            if not (isinstance(ret, Agg) and len(ret.items) == 3):
                ok, why = False, 'closure does not return an affine point aggregate'
                continue
            xx, yy, inf = ret.items
            labs = [lab_name(l) for l in pth.labels]
            if len(labs) != 1 or labs[0][0] not in ('lt', 'gt'):
                ok, why = False, 'selection branches on %r' % (labs,)
                continue
            nm, tk, x = labs[0]
            a, b_ = x[1], x[2]
            y = Lin.atom('y')
            negy = Lin({'y': 1, '-1': 1})
            # truth of "y < negy"
            if nm == 'lt' and a == y and b_ == negy:
                y_smaller = tk
            elif nm == 'gt' and a == y and b_ == negy:
                y_smaller = not tk
            elif nm == 'lt' and a == negy and b_ == y:
                y_smaller = not tk
            elif nm == 'gt' and a == negy and b_ == y:
                y_smaller = tk
            else:
                ok, why = False, 'comparison is %s(%r, %r), expected y vs -y' % (nm, a, b_)
                continue
            # greatest -> larger root; else smaller root
            want = (negy if y_smaller else y) if greatest else (y if y_smaller else negy)
            if yy != want or xx != Lin.atom('x') or not (isinstance(inf, Int) and inf.v == 0):
                ok, why = False, 'greatest=%d, y<-y=%s: returns (x=%r, y=%r, inf=%r)' % (greatest, y_smaller, xx, yy, inf)
            base = 'bls12_381::fq::Fq' if g == 'G1' else 'bls12_381::fq2::Fq2'
            if x[3] != base:
                ok, why = False, 'comparison on type %s, the coordinate type is %s' % (x[3], base)
    rep.check(ok, 'GUARD', '%s:root-selection' % g, 'greatest selects the lexicographically larger of y, -y; otherwise the smaller; x unchanged; finite', why, where, construct=cp)
    # x^3 + b and sqrt in the parent
    def tr2(I, fr, t, c, pth):
        if coeff_b and c.get('res') == coeff_b:
            fr.storev(t['dest'], Lin.atom('b'))
            return True
        if c.get('name') == 'sqrt' and c.get('trait') == 'ff::SqrtField':
            fr.storev(t['dest'], ('sqrt_of', fr.deref_operand(t['args'][0])))
            return True
        if c['def'].startswith('std::option::Option::<T>::map'):
            fr.storev(t['dest'], ('map', fr.operand(t['args'][0])))
            return True
        return False
    I2 = exp.Interp(fx, 'mul', extra_transfer=tr2)
    try:
        res = I2.run(p, [Lin.atom('x'), exp.TOP])
        good = len(res) == 1
        ret = res[0][1] if good else None
        good = good and isinstance(ret, tuple) and ret[0] == 'map' and isinstance(ret[1], tuple) and ret[1][0] == 'sqrt_of'
        if good:
            v = ret[1][1]
            site = [s for s in I2.opaque_sites if isinstance(v, Lin) and s[0] in v.t]
            good = bool(site) and site[0][1] == 'add_assign(Lin(x:3), Lin(b:1))'
        rep.check(good, 'GUARD', '%s:get_point_from_x:rhs' % g, 'y = sqrt(x^3 + b), None iff no root', 'computes %r' % (ret,), fx.fn(p)['span'], construct=p)
    except (exp.NotDerivable, exp.Budget) as e:
        rep.fail('GUARD', '%s:get_point_from_x:rhs' % g, 'not derivable: %s' % e, fx.fn(p)['span'])


def rules(fx, rep):
    rule_unchecked(fx, rep)
    rule_checked(fx, rep)
    rule_predicates(fx, rep)


def main(tier, t0):
    return common.standard_main(
        PROP, tier, t0, rules, 'other',
        'Known-bits abstract interpretation of the 4 unchecked decoders, exhaustively over the 8 flag combinations (all other input bits unknown): '
        'each combination yields exactly the outcomes of the ZCash format\'s decision table (form mismatch -> UnexpectedCompressionMode; infinity -> identity '
        'iff *all* other bits zero; sort flag on uncompressed -> UnexpectedInformation; otherwise every coordinate range-checked by Fq::from_repr in wire order, '
        'c1 before c0; compressed: get_point_from_x(x, sort bit).ok_or(NotOnCurve)); all bounds/overflow assertions decided; reads sum to the buffer length. '
        'Checked decoders: Ok only after unchecked success, is_on_curve (uncompressed) and in_subgroup on that same value, errors in the stated order. '
        'in_subgroup = is_on_curve && is_zero([r]P) (truth table; multiplier derived = r). Root selection truth table. NOT decided: that sqrt / scalar '
        'multiplication / field comparison compute what their contracts say (C01, C02, C18).',
        ['rustc MIR', 'contracts: from_repr rejects exactly values >= q; read_be reads 48 bytes big-endian; sqrt/mul/Ord contracts (C18, C02)'],
        ['flag-bit enumeration is exhaustive (8 cases x 4 decoders); remaining bits are unconstrained'])

"""C04 -- point decoding accepts exactly canonical encodings of subgroup points.

Decision tables of the four unchecked decoders over the three flag bits (known-bits
abstract interpretation), validation order of the four checked decoders, the subgroup
predicate (conjunction + multiplier r), root selection by the sort flag, panic edges."""
import roles
import itertools
import re

import decode2
import exp
import tt
import mathlib as M
from exp import Opt, Agg, Int, Lin
from facts import callee
from mirutil import Resolver
from props import common

PROP = 'C04'
ENC = 'EncodedPoint'
DECODERS = [
    ('G1Uncompressed', 'bls12_381::ec::g1::G1Uncompressed', 96, False, 'G1', 2),
    ('G1Compressed', 'bls12_381::ec::g1::G1Compressed', 48, True, 'G1', 1),
    ('G2Uncompressed', 'bls12_381::ec::g2::G2Uncompressed', 192, False, 'G2', 4),
    ('G2Compressed', 'bls12_381::ec::g2::G2Compressed', 96, True, 'G2', 2),
]


def cls2(c):
    return (c[0], c[1] if len(c) > 1 and isinstance(c[1], str) else '')


def lab_name(l):
    x = l[0]
    neg = False
    while isinstance(x, tuple) and x and x[0] == 'not':
        neg = not neg
        x = x[1]
    nm = x[0] if isinstance(x, tuple) else x
    taken = (l[1] != 0)
    if neg:
        taken = not taken
    return nm, taken, x


def fe_slots(v):
    """Flatten a coordinate value into the list of read indices feeding its Fq slots (G2: [c0, c1] per coordinate)."""
    if isinstance(v, tuple) and v and v[0] == 'fe':
        return [(v[1], v[2])]
    if isinstance(v, Agg):
        out = []
        for x in v.items:
            out.extend(fe_slots(x))
        return out
    return [(None, repr(v))]


def rule_unchecked(fx, rep):
    import decode2
    n_dec = 0
    for name, ty, nbytes, compressed, g, ncoord in DECODERS:
        path = fx.impl_method(ENC, ty, 'into_affine_unchecked')
        if path is None or fx.body(path) is None:
            rep.fail('TABLE', '%s:anchor' % name, 'into_affine_unchecked impl not found')
            continue
        rep.fn(path)
        where = fx.fn(path)['span']
        a = fx.adts.get(ty)
        arr = a['variants'][0]['fields'][0]['ty'] if a else ''
        okarr = arr == '[u8; %d]' % nbytes
        m_ = re.match(r'^\[u8; ([A-Za-z_][A-Za-z0-9_:]*)\]$', arr)
        if not okarr and m_:
            # the length is a named constant: compare its value
            vals = [c_.get('v') for p_, c_ in fx.consts.items() if p_ == m_.group(1) or p_.endswith('::' + m_.group(1).rsplit('::', 1)[-1])]
            okarr = len(vals) >= 1 and all(v_ == nbytes for v_ in vals)
        rep.check(okarr, 'BYTES', '%s:array-length' % name, 'wraps [u8; %d]' % nbytes, 'wraps %s' % arr, where)
        sz = fx.impl_method(ENC, ty, 'size')
        from construles import const_fn_value
        rep.check(const_fn_value(fx, sz) == nbytes, 'BYTES', '%s:size()' % name, 'size() == %d' % nbytes, 'size() returns %r' % (const_fn_value(fx, sz),), where)
        n_dec += 1
        for flags in itertools.product((0, 1), repeat=3):
            b7, b6, b5 = flags
            R = decode2.DecoderRun2(fx, path, nbytes, flags)
            inst = '%s:flags=%d%d%d' % (name, b7, b6, b5)
            try:
                res = R.run()
            except (exp.NotDerivable, exp.Budget) as e:
                rep.fail('TABLE', inst, 'decoder not derivable: %s' % e, where, construct=path)
                continue
            rep.sites(R.call_sites)
            outs = []          # (path, class tuple, condition)
            for pth, ret, _ in res:
                for c, cond in decode2.outcomes(ret):
                    outs.append((pth, c, cond))
            classes = sorted(set((c[0], c[1] if len(c) > 1 and isinstance(c[1], str) else '') for _, c, _ in outs), key=str)
            asserts = [e for pth, _, _ in outs for e in pth.events if e[0].startswith('assert-') or e[0] == 'unwrap-fails']
            rep.check(not asserts, 'PANIC', inst + ':assertions', 'every bounds/overflow assertion and unwrap on the path is decided not to fail',
                      'not discharged: %s' % asserts[:3], where, construct=path)
            panics = [c for _, c, _ in outs if c[0] == 'panic']
            rep.check(not panics, 'PANIC', inst + ':no-panic', 'no diverging path', 'diverging paths: %s' % panics[:2], where, construct=path)
            wrong_form = (b7 == 1) if not compressed else (b7 == 0)
            if wrong_form:
                want = [('Err', 'UnexpectedCompressionMode')]
                rep.check(classes == want, 'TABLE', inst, 'form flag mismatch -> UnexpectedCompressionMode', 'outcomes %s, expected %s' % (classes, want), where, construct=path)
                continue
            if b6 == 1:
                if b5 == 1:
                    want = [('Err', 'UnexpectedInformation')]
                else:
                    want = sorted([('Err', 'UnexpectedInformation'), ('Ok', 'zero')], key=str)
                rep.check(classes == want, 'TABLE', inst, 'infinity flag: Ok(identity) iff every other bit is zero, else UnexpectedInformation',
                          'outcomes %s, expected %s' % (classes, want), where, construct=path)
                for pth, c, cond in outs:
                    if c[:2] == ('Ok', 'zero'):
                        lits = tt.path_literals(pth)
                        under = any(k_ == decode2.PAYLOAD_ZERO and t_ for k_, t_, _l in lits)
                        tested = sorted(set(e[1] for e in pth.events if e[0] == 'zero-test'))
                        rep.check(under, 'TABLE', inst + ':zero-only-if-all-zero', 'identity returned only under the all-zero test',
                                  'identity returned under %s' % [(k_, t_) for k_, t_, _l in lits], where, construct=path)
                        rep.check(tested == list(range(nbytes)), 'TABLE', inst + ':whole-buffer', 'the all-zero test covers all %d bytes' % nbytes,
                                  'the all-zero test covers only bytes %s' % (_ranges(tested),), where, construct=path)
                continue
            if not compressed and b5 == 1:
                want = [('Err', 'UnexpectedInformation')]
                rep.check(classes == want, 'TABLE', inst, 'sort flag on an uncompressed finite encoding -> UnexpectedInformation',
                          'outcomes %s, expected %s (an encoding differing only in the sort bit would decode to the same point)' % (classes, want), where, construct=path)
                continue
            # coordinates
            oks = [(pth, c, cond) for pth, c, cond in outs if c[0] == 'Ok']
            errs = [(pth, c, cond) for pth, c, cond in outs if c[0] == 'Err']
            range_errs = [x for x in errs if x[1][1] == 'CoordinateDecodingError']
            other_errs = sorted(set(x[1][1] for x in errs if x[1][1] != 'CoordinateDecodingError'))
            good = len(oks) == 1 and len(range_errs) == ncoord and other_errs == (['NotOnCurve'] if compressed else [])
            rep.check(good, 'TABLE', inst, 'coordinate path: %d range checks, each failing -> CoordinateDecodingError, one success%s' % (ncoord, '; no root -> NotOnCurve' if compressed else ''),
                      'outcomes %s' % [(c[0], c[1]) for _, c, _ in outs], where, construct=path)
            # each range error arises exactly when that coordinate's from_repr fails after the earlier ones succeeded
            firsts = []
            for pth, c, cond in range_errs:
                lits = [(k_, t_) for k_, t_, _l in tt.path_literals(pth) if isinstance(k_, tuple) and k_ and k_[0] == 'from_repr']
                failing = [k_[1] for k_, t_ in lits if t_]
                firsts.append(failing[0] if len(failing) == 1 and lits and lits[-1][1] else None)
            rep.check(sorted(firsts, key=str) == sorted(range(ncoord)), 'TABLE', inst + ':range-error', 'out-of-range coordinate k -> CoordinateDecodingError (first failing check wins)',
                      'range errors arise under failing checks %s' % firsts, where, construct=path)
            if not oks:
                continue
            pth, c, cond = oks[0]
            reads = [e for e in pth.events if e[0] == 'read_be']
            lost = [x for e in reads for x in e[3]] + [x for e in pth.events if e[0] == 'repr-at-range-check' for x in e[3]]
            rep.check(reads and not lost, 'TABLE', inst + ':no-input-bit-discarded',
                      'the coordinates are read from the input bytes with only the three (already decided) flag bits masked',
                      'input bits are cleared without having been tested: %s (byte index, bit mask) -- encodings differing in those bits decode identically'
                      % (lost if reads else 'no read',), where, construct=path)
            want_idx = [list(range(48 * k, 48 * k + 48)) for k in range(ncoord)]
            rep.check([e[2] for e in reads] == want_idx and ncoord * 48 == nbytes, 'BYTES', inst + ':reads', '%d big-endian reads of consecutive 48-byte words = %d bytes' % (ncoord, nbytes),
                      'reads cover bytes %s' % [_ranges([i for i in (e[2] or []) if i is not None]) for e in reads], where, construct=path)
            fr_tys = [e[2] for e in pth.events if e[0] == 'from_repr']
            rep.check(len(fr_tys) == ncoord and all(t == 'bls12_381::fq::Fq' for t in fr_tys), 'WIRE', inst + ':from_repr', 'every coordinate goes through Fq::from_repr (range check)', 'range checks on %s' % fr_tys, where)
            if compressed:
                ok = c[1] == 'point_from_x'

                def under_none(x):
                    # the helper's Option: variant 1 = Some (through ok_or the label is negated; canon() undoes that)
                    conds = [(k_, t_) for k_, t_, _l in tt.path_literals(x[0])]
                    if x[2] is not None:
                        key_, neg_ = tt.canon(x[2][0])
                        conds.append((key_, bool(x[2][1]) != neg_))
                    return (('point_from_x',), False) in conds
                sib = [x for x in errs if x[1][1] == 'NotOnCurve' and under_none(x)]
                rep.check(ok and len(sib) == 1, 'TABLE', inst + ':sqrt-step', 'result = the point helper applied to (x, greatest): Some -> Ok, None -> NotOnCurve', 'compressed path ends in %r' % ((c[0], c[1]),), where, construct=path)
                if ok:
                    xval, gr = c[2][1], c[2][2]
                    rep.check(isinstance(gr, Int) and gr.v == b5, 'TABLE', inst + ':greatest=sort-flag', 'the root selector is the sort flag bit',
                              'root selector is %r for sort flag %d' % (gr, b5), where, construct=path)
                    want_order = [0] if g == 'G1' else [1, 0]
                    got = [s_[0] for s_ in fe_slots(xval)]
                    rep.check(got == want_order, 'BYTES', inst + ':layout', 'x%s read in wire order (c1 before c0)' % ('' if g == 'G1' else '.c0/.c1'),
                              'coordinate slots are fed by reads %s, expected %s' % (got, want_order), where, construct=path)
            else:
                ok = c[1] == 'point' and isinstance(c[2], Agg) and len(c[2].items) == 3
                rep.check(ok, 'TABLE', inst + ':point', 'Ok(point built from the range-checked coordinates)', 'success path returns %r' % ((c[0], c[1]),), where, construct=path)
                if ok:
                    xs, ys, inf = c[2].items
                    want_order = [0, 1] if g == 'G1' else [1, 0, 3, 2]
                    got = [s_[0] for s_ in fe_slots(xs) + fe_slots(ys)]
                    rep.check(got == want_order and isinstance(inf, Int) and inf.v == 0, 'BYTES', inst + ':layout', 'coordinates read in wire order x then y (c1 before c0), infinity = false',
                              'coordinate slots are fed by reads %s (expected %s), infinity=%r' % (got, want_order, inf), where, construct=path)
    rep.floor('TABLE', 'unchecked-decoders', n_dec, 4)


def _ranges(xs):
    out = []
    for x in xs:
        if out and out[-1][1] == x - 1:
            out[-1][1] = x
        else:
            out.append([x, x])
    return ['%d..%d' % (a, b) if a != b else '%d' % a for a, b in out]


def rule_checked(fx, rep):
    """Checked decoders as a truth table over (own unchecked decoder succeeds, is_on_curve, in_subgroup)."""
    import decode2
    n = 0
    for name, ty, nbytes, compressed, g, ncoord in DECODERS:
        path = fx.impl_method(ENC, ty, 'into_affine')
        if path is None or fx.body(path) is None:
            rep.fail('GUARD', '%s:checked:anchor' % name, 'into_affine impl not found')
            continue
        rep.fn(path)
        n += 1
        where = fx.fn(path)['span']
        R = decode2.DecoderRun2(fx, path, nbytes, (0, 0, 0))
        try:
            res = R.run()
        except (exp.NotDerivable, exp.Budget) as e:
            rep.fail('GUARD', '%s:checked' % name, 'not derivable: %s' % e, where, construct=path)
            continue
        rep.sites(R.call_sites)
        val = ('unchecked_result', ty)
        ku = ('unchecked',)
        kc = ('is_on_curve', decode2.freeze(val))
        ks = ('in_subgroup', decode2.freeze(val))
        kr = ('r_torsion', decode2.freeze(val))
        known = [ku, kc, ks, kr]
        bad = []
        for k_ in tt.predicates(res):
            if k_ not in known:
                bad.append('tests %r (expected: own unchecked decoder, is_on_curve, in_subgroup / its r-torsion half, all on the decoded value)' % (k_,))
        # worlds: (unchecked decoder fails, decoded pair satisfies the curve equation, [r]P = O); in_subgroup = on curve && r-torsion.
        # A compressed decoder's value is on the curve by construction (y is a square root of x^3 + b).
        for u_, c_, r_ in ([] if bad else itertools.product([False, True], repeat=3)):
            if compressed and not c_:
                continue
            env = {ku: u_, kc: c_, kr: r_, ks: c_ and r_}
            if u_:
                want = ('Err', 'propagated')
            elif not c_:
                want = ('Err', 'NotOnCurve')
            elif not r_:
                want = ('Err', 'NotInSubgroup')
            else:
                want = ('Ok', 'unchecked_result')
            got = []
            for pth, ret, _ in res:
                if any(key_ in env and env[key_] != t_ for key_, t_, _l in tt.path_literals(pth)):
                    continue
                for c, cond in decode2.outcomes(ret):
                    if cond is not None:
                        key_, neg_ = tt.canon(cond[0])
                        if key_ in env and (env[key_] != neg_) != bool(cond[1]):
                            continue
                    got.append((c[0], c[1]))
            if u_:
                # nothing is known about a value that was never decoded: any further test is vacuous
                got = sorted(set(got))
            if got != [want]:
                bad.append('when (unchecked fails, on curve, [r]P = O) = %r: %s, expected %s' % ((u_, c_, r_), got, want))
        rep.check(not bad, 'GUARD', '%s:checked:validation-order' % name,
                  'Ok (the value decoded by this type\'s unchecked decoder) only after%s in_subgroup; errors in the order form/flags/range -> curve -> subgroup' % ('' if compressed else ' is_on_curve and'),
                  '; '.join(sorted(set(bad))[:3]), where, construct=path)
    rep.floor('GUARD', 'checked-decoders', n, 4)


def rule_predicates(fx, rep):
    for g, aff, proj in (('G1', 'bls12_381::ec::g1::G1Affine', 'bls12_381::ec::g1::G1'), ('G2', 'bls12_381::ec::g2::G2Affine', 'bls12_381::ec::g2::G2')):
        # in_subgroup = is_on_curve && is_in_correct_subgroup_assuming_on_curve
        path = fx.impl_method('SubgroupCheck', aff, 'in_subgroup')
        b = fx.body(path) if path else None
        if b is None:
            rep.fail('GUARD', '%s:in_subgroup:anchor' % g, 'SubgroupCheck impl not found')
            continue
        rep.fn(path)
        where = fx.fn(path)['span']
        preds = {}

        def tr(I, fr, t, c, pth):
            RG = roles.roles(fx)[g]
            nm = {RG.get('is_on_curve'): 'is_on_curve', RG.get('r_torsion'): 'is_in_correct_subgroup_assuming_on_curve'}.get(c.get('res'))
            if nm is not None and c.get('res'):
                ref = fr.res.operand_referent(t['args'][0])
                on_self = ref is not None and ref[0] == 'place' and ref[1]['l'] == 1
                fr.storev(t['dest'], ('bool', (nm, on_self, t['span'])))
                return True
            return False
        I = exp.Interp(fx, 'none', extra_transfer=tr)
        res = I.run(path, [('byref', exp.TOP)])
        # truth table
        names = ['is_on_curve', 'is_in_correct_subgroup_assuming_on_curve']
        ok = True
        why = ''
        seen = set()
        for pth, ret, _ in res:
            for l in pth.labels:
                nm, tk, x = lab_name(l)
                seen.add(nm)
                if not x[1]:
                    ok = False
                    why = '%s is not applied to self' % nm
            if isinstance(ret, tuple) and ret[0] == 'bool':
                seen.add(lab_name((ret[1], 1))[0])
        for assign in itertools.product([0, 1], repeat=2):
            env = dict(zip(names, assign))
            val = None
            m = 0
            for pth, ret, _ in res:
                cons = all(env.get(lab_name(l)[0]) == int(lab_name(l)[1]) for l in pth.labels)
                if cons:
                    m += 1
                    if isinstance(ret, Int):
                        val = ret.v
                    elif isinstance(ret, tuple) and ret[0] == 'bool':
                        nm, tk, x = lab_name((ret[1], 1))
                        val = env.get(nm) if tk else 1 - env.get(nm, 0)
            if m != 1 or val != int(all(assign)):
                ok = False
                why = why or 'for (on_curve, r-torsion) = %r the predicate returns %r' % (assign, val)
        rep.check(ok and set(names) <= seen, 'GUARD', '%s:in_subgroup:conjunction' % g, 'in_subgroup = is_on_curve && [r]P == O, both on self',
                  why or 'predicate does not test %s' % sorted(set(names) - seen), where, construct=path)
        # the r-torsion test multiplies by exactly r
        p2 = roles.roles(fx)[g].get('r_torsion')
        b2 = fx.body(p2)
        if b2 is None:
            rep.fail('EXP', '%s:r-torsion:anchor' % g, 'in_subgroup calls no helper that multiplies the point (r-torsion test)')
            continue
        rep.fn(p2)
        mb_role = roles.roles(fx)[g].get('mul_bits')

        def tr_mb(I, fr, t, c, pth):
            # the bit-loop multiplier (decided for all scalars by C02): [k]P for the constant bit string it is given
            if mb_role and c.get('res') == mb_role and len(t['args']) == 2:
                v = fr.deref_operand(t['args'][0])
                bits = fr.operand(t['args'][1])
                if isinstance(v, Lin) and isinstance(bits, exp.Bits) and bits.v is not None:
                    fr.storev(t['dest'], v.scale(bits.v))
                    return True
            return False
        I2 = exp.Interp(fx, 'add', inline=lambda q: q.endswith('PrimeField>::char'), extra_transfer=tr_mb)
        try:
            res2 = I2.run(p2, [('byref', Lin.atom('P'))])
            # general path: is_zero([r]P); a path taken only when P is the identity must say true ([k]O = O for every k)
            kzP = ('is_zero', tt.lin_key(Lin.atom('P')))
            ok, ret, n_general = True, None, 0
            for pth2, ret, _o2 in res2:
                if isinstance(ret, tuple) and ret and ret[0] == 'diverges':
                    ok = False
                    break
                lits = tt.path_literals_add(pth2)
                if [l for l in lits if l[0] != kzP]:
                    ok = False
                    break
                sym = isinstance(ret, tuple) and ret[0] == 'bool' and ret[1][0] == 'is_zero' and isinstance(ret[1][1], Lin) and ret[1][1].atoms() <= {'P'}
                if any(l[1] for l in lits):
                    if not ((isinstance(ret, Int) and ret.v == 1) or sym):
                        ok = False
                        break
                    continue
                n_general += 1
                if not (sym and ret[1][1].t == {'P': M.R_ORDER}):
                    ok = False
                    break
            ok = ok and n_general >= 1
            rep.check(ok, 'EXP', '%s:r-torsion:multiplier' % g, 'returns is_zero([r]P) with r the scalar-field modulus (identity-only paths may answer true directly)',
                      'returns %r, expected is_zero([r]P)' % (ret,), fx.fn(p2)['span'], construct=p2)
        except (exp.NotDerivable, exp.Budget) as e:
            rep.fail('EXP', '%s:r-torsion:multiplier' % g, 'not derivable: %s' % e, fx.fn(p2)['span'])
        # is_on_curve: identity -> true; else y^2 == x^3 + b (monomial shape + b from get_coeff_b)
        p3 = roles.roles(fx)[g].get('is_on_curve')
        if p3 is None or fx.body(p3) is None:
            rep.fail('GUARD', '%s:is_on_curve:anchor' % g, 'in_subgroup calls no curve-equation helper')
            continue
        rep.fn(p3)
        coeff_b = roles.roles(fx)[g].get('get_coeff_b')

        def tr3(I, fr, t, c, pth):
            if coeff_b and c.get('res') == coeff_b:
                fr.storev(t['dest'], Lin.atom('b'))
                return True
            if c.get('name') == 'is_zero' and c.get('trait') == 'CurveAffine':
                fr.storev(t['dest'], ('bool', ('is_identity',)))
                return True
            return False
        import inline as INL
        from exp import Sum
        I3 = exp.Interp(fx, 'mul', extra_transfer=tr3, inline=lambda q: INL.is_private_helper(fx, q) and q != coeff_b)
        I3.sums = True
        I3.fork_inlined = True
        try:
            # the infinity marker is the same predicate whether read through is_zero() or directly
            selfv = Agg([Lin.atom('x'), Lin.atom('y'), ('bool', ('is_identity',))])
            res3 = I3.run(p3, [('byref', selfv)])
            want_rhs = Sum.of(Lin({'x': 3})).add(Sum.of(Lin.atom('b')))
            y2 = Lin({'y': 2})
            bad = []

            def norm(term):
                # the curve equation test in any spelling
                x_, neg_ = tt.strip_not(term)
                if isinstance(x_, tuple) and x_ and x_[0] in ('eq', 'ne') and len(x_) >= 3:
                    a_, b_ = x_[1], x_[2]
                    def is_y2(v):
                        return (isinstance(v, Lin) and v == y2) or (isinstance(v, Sum) and v == Sum.of(y2))
                    def is_rhs(v):
                        return isinstance(v, Sum) and v == want_rhs
                    if (is_y2(a_) and is_rhs(b_)) or (is_y2(b_) and is_rhs(a_)):
                        t_ = ('curve-eq',)
                        if (x_[0] == 'ne') != neg_:
                            t_ = ('not', t_)
                        return t_
                    bad.append('compares %r with %r; expected y^2 with x^3 + b' % (a_, b_))
                    return ('other-comparison',)
                if isinstance(x_, tuple) and x_ and x_[0] == 'is_identity':
                    t_ = ('is_identity',)
                    return ('not', t_) if neg_ else t_
                if isinstance(x_, tuple) and x_ and x_[0] == 'is_zero' and len(x_) >= 2 and isinstance(x_[1], Sum):
                    # the residual form: y^2 - x^3 - b == 0 (either sign)
                    want_diff = Sum.of(y2).add(want_rhs.scale(-1))
                    if x_[1] == want_diff or x_[1] == want_diff.scale(-1):
                        t_ = ('curve-eq',)
                        return ('not', t_) if neg_ else t_
                    bad.append('tests %r for zero; expected y^2 - x^3 - b' % (x_[1],))
                    return ('other-comparison',)
                return term
            res_n = []
            for pth, ret, outs in res3:
                np_ = exp.Path()
                np_.labels = [(norm(l[0]), l[1]) for l in pth.labels]
                np_.events = pth.events
                r2 = ('bool', norm(ret[1])) if isinstance(ret, tuple) and ret and ret[0] == 'bool' else ret
                res_n.append((np_, r2, outs))
            keys = [('is_identity',), ('curve-eq',)]
            for k_ in tt.predicates(res_n):
                if k_ not in keys:
                    bad.append('tests %r' % (k_,))
            for env, cons in ([] if bad else tt.table(res_n, keys)):
                want = True if env[keys[0]] else env[keys[1]]
                vals = [tt.value_under(r_[1], env) for r_ in cons]
                if len(cons) != 1 or vals[0] is None or vals[0] != want:
                    bad.append('for (identity, y^2 = x^3 + b) = %r the predicate returns %r, expected %s' % ((env[keys[0]], env[keys[1]]), vals, want))
            rep.check(not bad, 'GUARD', '%s:is_on_curve:shape' % g, 'identity -> true; otherwise y^2 == x^3 + b with b from the coefficient helper (truth table)', '; '.join(sorted(set(bad))[:3]), fx.fn(p3)['span'], construct=p3)
        except (exp.NotDerivable, exp.Budget) as e:
            rep.fail('GUARD', '%s:is_on_curve:shape' % g, 'not derivable: %s' % e, fx.fn(p3)['span'])
        # root selection in get_point_from_x
        rule_root_selection(fx, rep, g, aff)


def rule_root_selection(fx, rep, g, aff):
    """(x, greatest) -> point helper of the compressed decoder, interpreted as a whole (any shape: closure passed to
    Option::map, `?` and straight-line code, xor or equality of the two booleans):
    None iff sqrt(x^3 + b) is None; otherwise (x, y', finite) with y' the larger of {y, -y} iff `greatest`."""
    p = roles.roles(fx)[g].get('get_point_from_x')
    b = fx.body(p)
    coeff_b = roles.roles(fx)[g].get('get_coeff_b')
    if b is None:
        rep.fail('GUARD', '%s:get_point_from_x:anchor' % g, 'the compressed decoder calls no (x, greatest) -> point helper')
        return
    rep.fn(p)
    where = fx.fn(p)['span']
    base = 'bls12_381::fq::Fq' if g == 'G1' else 'bls12_381::fq2::Fq2'
    y = Lin.atom('y')
    negy = Lin({'y': 1, '-1': 1})
    bad = []
    for greatest in (0, 1):
        sq = []

        def tr(I, fr, t, c, pth):
            nm_ = c.get('name')
            if coeff_b and c.get('res') == coeff_b:
                fr.storev(t['dest'], Lin.atom('b'))
                return True
            if nm_ == 'sqrt' and c.get('trait') == 'ff::SqrtField':
                sq.append(fr.deref_operand(t['args'][0]))
                fr.storev(t['dest'], Opt(None, y, ('sqrt', t['span'])))
                return True
            if c.get('trait') == 'std::cmp::PartialOrd' and nm_ in ('lt', 'gt', 'le', 'ge'):
                fr.storev(t['dest'], ('bool', (nm_, fr.deref_operand(t['args'][0]), fr.deref_operand(t['args'][1]), c.get('self_ty'))))
                return True
            if nm_ == 'branch' and c.get('trait') == 'std::ops::Try':
                v = fr.operand(t['args'][0])
                if isinstance(v, Opt):
                    # ControlFlow: Continue(payload) when Some, Break when None
                    fr.storev(t['dest'], Opt({'some': 'none', 'none': 'some'}.get(v.tag), v.payload, ('not', v.label) if v.label else None))
                    return True
            if nm_ == 'from_residual':
                fr.storev(t['dest'], Opt('none', exp.TOP))
                return True
            return False
        import inline as INL
        I = exp.Interp(fx, 'mul', extra_transfer=tr, inline=lambda q: INL.is_private_helper(fx, q) and q != coeff_b)
        I.sums = True
        I.fork_inlined = True
        try:
            res = I.run(p, [Lin.atom('x'), Int(greatest, 1)])
        except (exp.NotDerivable, exp.Budget) as e:
            bad.append('not derivable: %s' % e)
            break
        rep.sites(I.call_sites)
        n_some = 0
        for pth, ret, _ in res:
            if isinstance(ret, tuple) and ret and ret[0] == 'diverges':
                bad.append('panic edge at %s' % (ret[1],))
                continue
            labs = [lab_name(l) for l in pth.labels]
            sq_lab = [l for l in labs if l[0] == 'sqrt']
            root_exists = bool(sq_lab and sq_lab[0][1])
            if not isinstance(ret, Opt) or ret.tag not in ('some', 'none'):
                bad.append('does not return a decided Option on path %r' % ([l[:2] for l in labs],))
                continue
            if not root_exists:
                if ret.tag != 'none':
                    bad.append('returns a point although x^3 + b has no square root')
                continue
            if ret.tag != 'some':
                bad.append('returns None although a root exists')
                continue
            n_some += 1
            pt = ret.payload
            if not (isinstance(pt, Agg) and len(pt.items) == 3):
                bad.append('does not return an affine point aggregate')
                continue
            xx, yy, inf = pt.items
            cmpl = [l for l in labs if l[0] in ('lt', 'gt', 'le', 'ge')]
            if len(cmpl) != 1:
                bad.append('selection branches on %r' % ([l[:2] for l in labs],))
                continue
            nm_, tk, x_ = cmpl[0]
            a, b_ = x_[1], x_[2]
            if nm_ in ('lt', 'le') and a == y and b_ == negy:
                y_smaller = tk
            elif nm_ in ('gt', 'ge') and a == y and b_ == negy:
                y_smaller = not tk
            elif nm_ in ('lt', 'le') and a == negy and b_ == y:
                y_smaller = not tk
            elif nm_ in ('gt', 'ge') and a == negy and b_ == y:
                y_smaller = tk
            else:
                bad.append('comparison is %s(%r, %r), expected y vs -y' % (nm_, a, b_))
                continue
            want = (negy if y_smaller else y) if greatest else (y if y_smaller else negy)
            if yy != want or xx != Lin.atom('x') or not (isinstance(inf, Int) and inf.v == 0):
                bad.append('greatest=%d, y<-y=%s: returns (x=%r, y=%r, inf=%r)' % (greatest, y_smaller, xx, yy, inf))
            if x_[3] != base:
                bad.append('comparison on type %s, the coordinate type is %s' % (x_[3], base))
        if n_some != 2 and not bad:
            bad.append('%d point-returning paths for greatest=%d (expected the two orderings of y, -y)' % (n_some, greatest))
        # the square root is taken of x^3 + b
        from exp import Sum
        want_rhs = Sum.of(Lin({'x': 3})).add(Sum.of(Lin.atom('b')))
        ok_rhs = len(sq) >= 1 and all((isinstance(v, Sum) and v == want_rhs) for v in sq)
        if not ok_rhs:
            bad.append('the square root is taken of %r, expected x^3 + b' % (sq[:1],))
    rep.check(not bad, 'GUARD', '%s:root-selection' % g, 'None iff x^3 + b has no root; otherwise (x, y\', finite) where greatest selects the lexicographically larger of y, -y and otherwise the smaller',
              '; '.join(sorted(set(bad))[:3]), where, construct=p)


def rules(fx, rep):
    rule_unchecked(fx, rep)
    rule_checked(fx, rep)
    rule_predicates(fx, rep)


def main(tier, t0):
    return common.standard_main(
        PROP, tier, t0, rules, 'other',
        'Known-bits abstract interpretation of the 4 unchecked decoders, exhaustively over the 8 flag combinations (all other input bits unknown): '
        'each combination yields exactly the outcomes of the ZCash format\'s decision table (form mismatch -> UnexpectedCompressionMode; infinity -> identity '
        'iff *all* other bits zero; sort flag on uncompressed -> UnexpectedInformation; otherwise every coordinate range-checked by Fq::from_repr in wire order, '
        'c1 before c0; compressed: get_point_from_x(x, sort bit).ok_or(NotOnCurve)); all bounds/overflow assertions decided; reads sum to the buffer length. '
        'Checked decoders: Ok only after unchecked success, is_on_curve (uncompressed) and in_subgroup on that same value, errors in the stated order. '
        'in_subgroup = is_on_curve && is_zero([r]P) (truth table; multiplier derived = r). Root selection truth table. NOT decided: that sqrt / scalar '
        'multiplication / field comparison compute what their contracts say (C01, C02, C18).',
        ['rustc MIR', 'contracts: from_repr rejects exactly values >= q; read_be reads 48 bytes big-endian; sqrt/mul/Ord contracts (C18, C02)'],
        ['flag-bit enumeration is exhaustive (8 cases x 4 decoders); remaining bits are unconstrained'])

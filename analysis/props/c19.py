"""C19 -- stream (de)serialization: exact lengths, read_exact only, flag test on bit 7,
checked decoders, error propagation, Fr / Fq12 range checks, serializer wiring."""
import itertools

import exp
from exp import Agg, Int, KBits, Lin, Opt, Ref, TOP
from facts import callee, op_place
from props import common
from props.c04 import lab_name
from construles import const_fn_value
from wire import Origin, strip, term_str

PROP = 'C19'
SERDES = 'serdes::SerDes'
POINTS = [
    ('G1', 'bls12_381::ec::g1::G1', 'bls12_381::ec::g1::G1Compressed', 'bls12_381::ec::g1::G1Uncompressed', 48, 96, True),
    ('G2', 'bls12_381::ec::g2::G2', 'bls12_381::ec::g2::G2Compressed', 'bls12_381::ec::g2::G2Uncompressed', 96, 192, True),
    ('G1Affine', 'bls12_381::ec::g1::G1Affine', 'bls12_381::ec::g1::G1Compressed', 'bls12_381::ec::g1::G1Uncompressed', 48, 96, False),
    ('G2Affine', 'bls12_381::ec::g2::G2Affine', 'bls12_381::ec::g2::G2Compressed', 'bls12_381::ec::g2::G2Uncompressed', 96, 192, False),
]


class Buf:
    """A Vec<u8> under construction: length and what filled it."""
    def __init__(self, n, first):
        self.n = n
        self.first = first       # abstract value of byte 0
        self.parts = []          # list of ('read_exact'|'zero', n)

    def __repr__(self):
        return 'Buf(%d,%r,%r)' % (self.n, self.first, self.parts)


class DeRun:
    def __init__(self, fx, path, b7, compressed):
        self.fx = fx
        self.path = path
        self.b7 = b7
        self.compressed = compressed
        self.nbuf = 0

    def transfer(self, I, fr, t, c, pth):
        fx = self.fx
        name = c.get('name')
        d = c['def']
        res = c.get('res') or d
        args = t['args']
        dest = t['dest']
        where = t['span']
        if d == 'std::vec::from_elem' or res.startswith('std::vec::from_elem'):
            n = fr.operand(args[1])
            z = fr.operand(args[0])
            if isinstance(n, Int) and isinstance(z, Int) and z.v == 0:
                b = Buf(n.v, Int(0))
                b.parts.append(('zero', n.v))
                fr.storev(dest, b)
            else:
                fr.storev(dest, TOP)
                pth.events.append(('buffer-size-unknown', where))
            return True
        if name in ('deref_mut', 'deref', 'as_mut_slice', 'as_slice') and 'std::vec::Vec' in res:
            # slice view of the Vec: keep a reference to the Vec's place
            tgt = fr.ref_place_of(args[0])
            if isinstance(tgt, dict):
                root, proj = fr.root_of(tgt)
                fr.storev(dest, Ref(root, proj))
            else:
                fr.storev(dest, TOP)
            return True
        if c.get('trait') == 'std::io::Read' and name in ('read_exact', 'read', 'read_to_end', 'read_to_string', 'read_vectored', 'read_buf', 'read_buf_exact', 'bytes', 'take'):
            # destination buffer
            v = fr.operand(args[1]) if len(args) > 1 else None
            tgt = None
            if isinstance(v, Ref):
                tgt = v
            else:
                v2 = fr.deref_operand(args[1]) if len(args) > 1 else None
                if isinstance(v2, Ref):
                    tgt = v2
            buf = fr._project(fr.store.get(tgt.root, TOP), tgt.proj) if tgt is not None else None
            # reader must be the function's reader argument
            rd = fr.res.operand_referent(args[0])
            on_reader = rd is not None and rd[0] == 'place' and rd[1]['l'] == 1
            n = buf.n if isinstance(buf, Buf) else None
            k = sum(1 for e in pth.events if e[0] == 'stream-read')
            pth.events.append(('stream-read', name, n, on_reader, where))
            if isinstance(buf, Buf):
                nb = Buf(buf.n, KBits(0x80, self.b7 << 7) if k == 0 else buf.first)
                nb.parts = [('stream', buf.n)]
                cur = fr.store.get(tgt.root)
                fr.store[tgt.root] = fr._update(cur, list(tgt.proj), nb)
            fr.storev(dest, ('io_result', k))
            return True
        if name == 'branch' and c.get('trait') == 'std::ops::Try':
            v = fr.operand(args[0])
            if isinstance(v, exp.Opt) and v.tag in ('some', 'none'):
                # a decided Result (built by a modelled combinator or collection): the standard model propagates it
                return stdmodel.result_transfer(I, fr, t, c, pth)
            fr.storev(dest, Opt(None, ('try', v), ('try', v if isinstance(v, tuple) else repr(v), where)))
            return True
        if name == 'from_residual':
            fr.storev(dest, ('residual', fr.operand(args[0])))
            return True
        if name == 'index' and 'std::vec::Vec' in res and len(args) == 2:
            base = I.value_of_ref(fr, args[0])
            if isinstance(base, Ref):
                base = fr._project(fr.store.get(base.root, TOP), base.proj)
            i = fr.operand(args[1])
            if isinstance(base, Buf) and isinstance(i, Int) and i.v == 0:
                fr.storev(dest, Ref(('byte0', id(base)), []))
                fr.store[('byte0', id(base))] = base.first
                return True
            fr.storev(dest, TOP)
            return True
        if res.startswith('std::io::Error::new') or d.startswith('std::io::Error::new'):
            fr.storev(dest, ('io_error', fr.operand(args[0]), fr.operand(args[1])))
            return True
        if name == 'append' and 'std::vec::Vec' in res:
            a = fr.deref_operand(args[0])
            b_ = fr.deref_operand(args[1])
            if isinstance(a, Buf) and isinstance(b_, Buf):
                nb = Buf(a.n + b_.n, a.first)
                nb.parts = a.parts + b_.parts
                fr.store_through(args[0], nb)
                pth.events.append(('append', a.n, b_.n, where))
            else:
                fr.store_through(args[0], TOP)
            return True
        if name == 'empty' and c.get('trait') == 'EncodedPoint':
            sz = const_fn_value(fx, fx.impl_method('EncodedPoint', c.get('self_ty'), 'size'))
            fr.storev(dest, ('enc', c.get('self_ty'), sz, None))
            return True
        if name == 'size' and c.get('trait') == 'EncodedPoint':
            sz = const_fn_value(fx, fx.impl_method('EncodedPoint', c.get('self_ty'), 'size'))
            fr.storev(dest, Int(sz) if isinstance(sz, int) else TOP)
            return True
        if name == 'as_mut' and c.get('trait') == 'std::convert::AsMut':
            tgt = fr.ref_place_of(args[0])
            if isinstance(tgt, dict):
                root, proj = fr.root_of(tgt)
                fr.storev(dest, Ref(root, proj))
            else:
                fr.storev(dest, TOP)
            return True
        if name == 'copy_from_slice':
            dv = fr.operand(args[0])
            sv = fr.operand(args[1])
            dst = fr._project(fr.store.get(dv.root, TOP), dv.proj) if isinstance(dv, Ref) else None
            src = fr._project(fr.store.get(sv.root, TOP), sv.proj) if isinstance(sv, Ref) else None
            if isinstance(dst, tuple) and dst and dst[0] == 'enc' and isinstance(src, Buf):
                pth.events.append(('copy', dst[1], dst[2], src.n, list(src.parts), where))
                cur = fr.store.get(dv.root)
                fr.store[dv.root] = fr._update(cur, list(dv.proj), ('enc', dst[1], dst[2], list(src.parts), src.first))
            else:
                pth.events.append(('copy-unrecognised', repr(dst), repr(src), where))
            return True
        if name in ('into_affine', 'into_affine_unchecked') and c.get('trait') == 'EncodedPoint':
            v = fr.deref_operand(args[0])
            pth.events.append(('decode', name, c.get('self_ty'), v, where))
            tag = None
            # decoder contract (decided by C04's decision tables): a form flag that contradicts the
            # encoding type is always rejected
            if isinstance(v, tuple) and len(v) >= 5 and isinstance(v[4], KBits) and (v[4].mask & 0x80):
                b7 = (v[4].val >> 7) & 1
                is_comp = c.get('self_ty', '').endswith('Compressed') and not c.get('self_ty', '').endswith('Uncompressed')
                if b7 != (1 if is_comp else 0):
                    tag = 'err'
            o_ = Opt(None, ('decoded', c.get('self_ty'), name), ('decode', c.get('self_ty'), name, where))
            if tag == 'err':
                fr.storev(dest, Opt('some', ('decode-error', c.get('self_ty')), ('decode', c.get('self_ty'), name, where)))
            else:
                fr.storev(dest, o_)
            return True
        if name == 'into_projective' and c.get('trait') == 'CurveAffine':
            fr.storev(dest, ('proj', fr.deref_operand(args[0])))
            return True
        return False

    def run(self):
        I = exp.Interp(self.fx, 'none', extra_transfer=self.transfer, max_paths=64)
        res = I.run(self.path, [('byref', TOP), Int(self.compressed, 1)])
        self.call_sites = I.call_sites
        return res


def outcome(ret):
    if isinstance(ret, Agg) and ret.kind and ret.kind[0].endswith('result::Result'):
        inner = ret.items[0] if ret.items else None
        if ret.kind[1] == 'Err':
            return ('Err', inner)
        return ('Ok', inner)
    if isinstance(ret, tuple) and ret and ret[0] == 'residual':
        return ('Err', ret)
    if isinstance(ret, tuple) and ret and ret[0] == 'diverges':
        return ('panic', ret[1])
    return ('?', ret)


def _serdes_interp(fx, M):
    import inline as INL
    local_serdes = set()
    for i_ in fx.impls_of(SERDES):
        for it in i_['items']:
            local_serdes.add(it['def'])
    I = exp.Interp(fx, 'none', extra_transfer=M.transfer, max_paths=96, inline=lambda q: q in local_serdes or INL.is_private_helper(fx, q))
    I.fork_inlined = True
    I.shared_keys = ('STREAM_POS', 'N_READS')
    return I


used_unchecked = set()      # deserializers that use an unchecked decoder and validate its result (filled by the rule)


def validated_unchecked_callers(fx):
    """Deserializers that call an unchecked decoder and are decided (by the deserializer tables) to apply the membership
    predicate to its result on every accepting path."""
    from props import c15
    used_unchecked.clear()
    sink = c15.core_report_sink()
    failed = set()

    class Rec:
        def __getattr__(self, k):
            return getattr(sink, k)

        def check(self, ok, *a, **kw):
            if not ok and kw.get('construct'):
                failed.add(kw['construct'])

        def fail(self, *a, **kw):
            if kw.get('construct'):
                failed.add(kw['construct'])
    rule_point_deserializers(fx, Rec())
    return set(used_unchecked) - failed


def rule_point_deserializers(fx, rep):
    """Per point type and per (bit 7 of the first stream byte, `compressed` argument): what is read, what is decoded and what is
    returned, decided over a byte-provenance model of the buffers (serdesmodel.py)."""
    import serdesmodel as SM
    n = 0
    for name, ty, cty, uty, sc, su, projective in POINTS:
        path = fx.impl_method(SERDES, ty, 'deserialize')
        if path is None or fx.body(path) is None:
            rep.fail('WIRE', '%s:deserialize:anchor' % name, 'SerDes::deserialize impl not found')
            continue
        rep.fn(path)
        n += 1
        where = fx.fn(path)['span']
        for b7, comp in itertools.product((0, 1), (0, 1)):
            inst = '%s:deserialize:bit7=%d,compressed=%d' % (name, b7, comp)
            M = SM.Model(fx, b7=b7)
            M.on_stream = lambda fr, op, local, _M=M: SM.referent(fr, op) == 'READER'
            I = _serdes_interp(fx, M)
            try:
                res = I.run(path, [('byref', 'READER'), Int(comp, 1)], extra={'STREAM_POS': Int(0), 'N_READS': Int(0)})
            except (exp.NotDerivable, exp.Budget) as e:
                rep.fail('TABLE', inst, 'not derivable: %s' % e, where, construct=path)
                continue
            rep.sites(I.call_sites)
            res = SM.expand_undecided(res)
            bad = []
            oks = 0
            want_ty = cty if comp else uty
            want_n = sc if comp else su
            for pth, ret, _ in res:
                reads = [e for e in pth.events if e[0] == 'stream-read']
                labs = [lab_name(l) for l in pth.labels]
                for e in pth.events:
                    if e[0] in ('copy-unrecognised', 'buffer-unknown', 'copy-length-mismatch', 'split-out-of-range') or e[0].startswith('assert-'):
                        bad.append('event %r' % (e[:3],))
                for e in reads:
                    if e[1] != 'read_exact':
                        bad.append('stream is read with Read::%s at %s (a short read is not an error): truncated input can be accepted' % (e[1], e[4]))
                    if not e[3]:
                        bad.append('reads from something other than the caller\'s reader at %s' % e[4])
                if isinstance(ret, tuple) and ret and ret[0] == 'diverges':
                    bad.append('panic edge %r' % (ret[1],))
                    continue
                r = SM.as_result(ret)
                oc = r[0] if r else '?'
                io_err = any(l[0] in ('try', 'io') and l[1] for l in labs)
                dec_labs = [l for l in labs if l[0] == 'decode']
                if io_err:
                    if oc != 'Err':
                        bad.append('I/O error not propagated as Err')
                    continue
                if reads and reads[0][2] is not None and reads[0][2] > sc:
                    bad.append('first read is %r bytes: more than the compressed size %d is consumed before the form flag can be known' % (reads[0][2], sc))
                if b7 != comp:
                    if oc != 'Err':
                        bad.append('a compression flag that contradicts the data yields %s (after %d reads)' % (oc, len(reads)))
                    continue
                total = sum(e[2] or 0 for e in reads)
                if total != want_n:
                    bad.append('reads %s bytes, expected %d in total' % ([e[2] for e in reads], want_n))
                    continue
                decs = [e for e in pth.events if e[0] == 'decode']
                if len(decs) != 1:
                    bad.append('%d decoder calls' % len(decs))
                    continue
                _, dname, dty, data, dwhere = decs[0]
                # the unchecked decoder may be used when the membership predicate is applied to its result before it is
                # returned: Ok exactly when the decoder accepts and in_subgroup() holds
                val_labs = [l for l in labs if l[0] == 'validated']
                validated = bool(val_labs and val_labs[-1][1])
                if dname != 'into_affine' and val_labs:
                    used_unchecked.add(path)
                if dname != 'into_affine' and not (validated or (val_labs and not val_labs[-1][1]) or (dec_labs and dec_labs[-1][1])):
                    bad.append('uses the UNCHECKED decoder %s::%s at %s: curve and subgroup checks are skipped' % (dty, dname, dwhere))
                if dty != want_ty:
                    bad.append('decodes as %s, expected %s' % (dty, want_ty))
                if not (data is not None and len(data) == want_n and all(isinstance(x, SM.SByte) and x.idx == k for k, x in enumerate(data))):
                    bad.append('decoder input is not exactly the %d stream bytes in order: %r' % (want_n, (data or [])[:4]))
                dec_err = bool(dec_labs and dec_labs[-1][1])
                if dname != 'into_affine' and val_labs and not validated:
                    dec_err = True          # the point failed the membership predicate
                if dec_err != (oc == 'Err'):
                    bad.append('decoder result %s mapped to %s' % ('Err' if dec_err else 'Ok', oc))
                if oc == 'Ok':
                    oks += 1
                    inner = r[1]
                    want_inner = ('proj', ('decoded', want_ty, dname)) if projective else ('decoded', want_ty, dname)
                    if inner != want_inner:
                        bad.append('Ok carries %r' % (inner,))
            if b7 == comp and oks != 1:
                bad.append('%d success paths' % oks)
            rep.check(not bad, 'TABLE', inst,
                      ('mismatch -> error on every path' if b7 != comp else
                       'reads exactly %d bytes with read_exact, decodes exactly those bytes with the checked %s decoder, Ok iff the decoder accepts' % (want_n, 'compressed' if comp else 'uncompressed')),
                      '; '.join(sorted(set(bad))[:4]), where, construct=path)
    rep.floor('TABLE', 'point-deserializers', n, 4)


def rule_point_serializers(fx, rep):
    import serdesmodel as SM
    n = 0
    for name, ty, cty, uty, sc, su, projective in POINTS:
        path = fx.impl_method(SERDES, ty, 'serialize')
        b = fx.body(path) if path else None
        if b is None:
            rep.fail('WIRE', '%s:serialize:anchor' % name, 'SerDes::serialize impl not found')
            continue
        rep.fn(path)
        n += 1
        where = fx.fn(path)['span']
        for comp in (0, 1):
            M = SM.Model(fx)
            M.on_stream = lambda fr, op, local, _M=M: SM.referent(fr, op) == 'WRITER'
            I = _serdes_interp(fx, M)
            try:
                res = I.run(path, [('byref', 'SELF'), ('byref', 'WRITER'), Int(comp, 1)])
            except (exp.NotDerivable, exp.Budget) as e:
                rep.fail('WIRE', '%s:serialize:compressed=%d' % (name, comp), 'not derivable: %s' % e, where)
                continue
            rep.sites(I.call_sites)
            res = SM.expand_undecided(res)
            bad = []
            want_ty = cty if comp else uty
            want_n = sc if comp else su
            src = ('affine_of', 'SELF') if projective else 'SELF'
            want = [('eb', want_ty, src, j) for j in range(want_n)]
            for pth, ret, _ in res:
                if isinstance(ret, tuple) and ret and ret[0] == 'diverges':
                    bad.append('panic edge %r' % (ret[1],))
                    continue
                ws = [e for e in pth.events if e[0] == 'stream-write']
                if len(ws) != 1:
                    bad.append('%d writes' % len(ws))
                    continue
                _, wname, data, on_writer, wwhere = ws[0]
                if wname != 'write_all':
                    bad.append('writes with Write::%s (a short write is not an error)' % wname)
                if data != want:
                    got = data[0] if data else None
                    bad.append('writes %s, expected the %d bytes of the %s encoding of %s' % (('%d bytes starting with %r' % (len(data), got)) if data is not None else 'an unknown buffer', want_n, want_ty.rsplit('::', 1)[1], 'the affine form of self' if projective else 'self'))
                if not on_writer:
                    bad.append('does not write to the caller\'s writer')
                labs = [lab_name(l) for l in pth.labels]
                r = SM.as_result(ret)
                werr = any(l[0] == 'write' and l[1] for l in labs)
                if werr and not (r and r[0] == 'Err'):
                    bad.append('write error not propagated')
                if not werr and r and r[0] == 'Err':
                    bad.append('returns Err although the write succeeded')
            rep.check(not bad, 'WIRE', '%s:serialize:compressed=%d' % (name, comp), 'writes exactly the %s point encoding (%d bytes) with one write_all to the caller\'s writer; its error is propagated' % ('compressed' if comp else 'uncompressed', want_n),
                      '; '.join(sorted(set(bad))[:3]), where, construct=path)
    rep.floor('WIRE', 'point-serializers', n, 4)


def _flat(v):
    if isinstance(v, Agg):
        out = []
        for x in v.items:
            out.extend(_flat(x))
        return out
    return [v]


def rule_scalars(fx, rep):
    """Fr (1 x 32 bytes) and Fq12 (12 x 48 bytes): stream model with two-sided read / range-check results.
    deserialize: the k-th read from the caller's reader, range-checked by from_repr of the right field, fills slot k; Ok on
    exactly one path (everything succeeded), Err on every other, no panic.  serialize: the canonical bytes of the slots in the
    same order reach the caller's writer; a failing write gives Err."""
    import serdesmodel as SM
    for ty, label, nco, width, fty, rty in (('bls12_381::fr::Fr', 'Fr', 1, 32, 'bls12_381::fr::Fr', 'bls12_381::fr::FrRepr'),
                                           ('bls12_381::fq12::Fq12', 'Fq12', 12, 48, 'bls12_381::fq::Fq', 'bls12_381::fq::FqRepr')):
        a = fx.adts.get(rty)
        limbs = a['variants'][0]['fields'][0]['ty'] if a else ''
        rep.check(limbs == '[u64; %d]' % (width // 8), 'BYTES', '%s:repr-width' % label, '%s is %d limbs = %d bytes' % (rty.rsplit('::', 1)[1], width // 8, width), 'representation is %s' % limbs)
        # ---- deserialize
        dp = fx.impl_method(SERDES, ty, 'deserialize')
        if dp is None or fx.body(dp) is None:
            rep.fail('WIRE', '%s:deserialize:anchor' % label, 'not found')
        else:
            rep.fn(dp)
            where = fx.fn(dp)['span']
            M = SM.Model(fx)
            I = _serdes_interp(fx, M)
            I.max_paths = 128
            bad = []
            try:
                res = I.run(dp, [('byref', 'READER'), exp.TOP], extra={'STREAM_POS': Int(0), 'N_READS': Int(0)})
            except (exp.NotDerivable, exp.Budget) as e:
                res = []
                bad.append('not derivable: %s' % e)
            rep.sites(I.call_sites)
            oks = 0
            for pth, ret, _ in res:
                if isinstance(ret, tuple) and ret and ret[0] == 'diverges':
                    bad.append('panic edge at %s (malformed input must yield Err)' % (ret[1],))
                    continue
                if any(e[0] in ('unwrap-fails',) or e[0].startswith('assert-') for e in pth.events):
                    bad.append('a result is unwrapped / asserted instead of being propagated')
                reads = [e for e in pth.events if e[0] == 'repr-read']
                for e in reads:
                    if not e[2]:
                        bad.append('read_be from something other than the caller\'s reader at %s' % e[4])
                    if e[3] not in (rty, '<%s as ff::PrimeField>::Repr' % fty):
                        bad.append('reads a %s, expected %s' % (e[3], rty))
                if any(e[0] == 'stream-read' for e in pth.events):
                    bad.append('raw Read call besides the big-endian coefficient reads')
                labs0 = [lab_name(l) for l in pth.labels]
                import stdmodel
                o_ = stdmodel.two_variant(ret, True)
                if o_ is not None and o_.tag is None:
                    # an undecided Result returned as it is: both of its sides are outcomes of this path
                    alts = [(('Ok', stdmodel.side(o_, 0)), lab_name((o_.label, 0))), (('Err', stdmodel.side(o_, 1)), lab_name((o_.label, 1)))]
                else:
                    alts = [(SM.as_result(ret), None)]
                for r, extra_lab in alts:
                    labs = labs0 + ([extra_lab] if extra_lab else [])
                    failed = any(l[0] in ('read', 'from_repr') and l[1] for l in labs)
                    oc = r[0] if r else '?'
                    if failed:
                        if oc != 'Err':
                            bad.append('a failed read / out-of-range coefficient is not reported as Err (returns %s)' % oc)
                        continue
                    if oc != 'Ok':
                        bad.append('all reads and range checks succeed but the result is %s' % oc)
                        continue
                    oks += 1
                    slots = _flat(r[1])
                    want = [('fe', k, fty) for k in range(nco)]
                    if slots != want:
                        bad.append('coefficient slots are filled from %s, expected read k (range-checked as %s) in slot k' % ([x[1] if isinstance(x, tuple) and len(x) > 1 else x for x in slots], fty.rsplit('::', 1)[1]))
                    if len(reads) != nco:
                        bad.append('%d reads on the success path, expected %d' % (len(reads), nco))
                    frs = [e for e in pth.events if e[0] == 'from_repr']
                    if [e[1] for e in frs] != list(range(nco)):
                        bad.append('range checks are applied to reads %s' % [e[1] for e in frs])
            if res and oks != 1:
                bad.append('%d success paths' % oks)
            rep.check(not bad, 'WIRE', '%s:deserialize' % label, '%d big-endian read(s) of %d bytes from the caller\'s reader, each range-checked by %s::from_repr, slot k <- read k; every failure -> Err; no panic' % (nco, width, fty.rsplit('::', 1)[1]),
                      '; '.join(sorted(set(bad))[:3]), where, construct=dp)
        # ---- serialize
        sp = fx.impl_method(SERDES, ty, 'serialize')
        if sp is None or fx.body(sp) is None:
            rep.fail('WIRE', '%s:serialize:anchor' % label, 'not found')
            continue
        rep.fn(sp)
        where = fx.fn(sp)['span']

        def nest(shape, prefix=''):
            if not shape:
                return 's' + prefix
            return Agg([nest(shape[1:], prefix + str(k)) for k in range(shape[0])])
        selfv = 'SELF' if nco == 1 else nest((2, 3, 2))
        srcs = ['SELF'] if nco == 1 else ['s%d%d%d' % (a_, b_, c_) for a_ in (0, 1) for b_ in (0, 1, 2) for c_ in (0, 1)]
        want = [('cb', s_, j) for s_ in srcs for j in range(width)]
        M = SM.Model(fx)
        M.on_stream = lambda fr, op, local, _M=M: SM.referent(fr, op) == 'WRITER'
        I = _serdes_interp(fx, M)
        I.max_paths = 128
        bad = []
        try:
            res = I.run(sp, [('byref', selfv), ('byref', 'WRITER'), exp.TOP])
        except (exp.NotDerivable, exp.Budget) as e:
            res = []
            bad.append('not derivable: %s' % e)
        rep.sites(I.call_sites)
        oks = 0
        for pth, ret, _ in res:
            if isinstance(ret, tuple) and ret and ret[0] == 'diverges':
                bad.append('panic edge at %s' % (ret[1],))
                continue
            labs = [lab_name(l) for l in pth.labels]
            failed = any(l[0] == 'write' and l[1] for l in labs)
            r = SM.as_result(ret)
            oc = r[0] if r else '?'
            if failed:
                if oc not in ('Err',):
                    bad.append('a failed write is not reported as Err (returns %s)' % oc)
                continue
            if oc == 'Err':
                bad.append('returns Err although every write succeeded')
                continue
            oks += 1
            out = []
            for e in pth.events:
                if e[0] == 'stream-write':
                    if not e[3]:
                        bad.append('writes to something other than the caller\'s writer at %s' % e[4])
                    if e[1] not in ('write_all', 'write_be'):
                        bad.append('writes with Write::%s (a short write is not an error)' % e[1])
                    out.extend(e[2] or [('unknown-buffer',)])
            if out != want:
                first = next((k for k, (x_, y_) in enumerate(zip(out, want)) if x_ != y_), min(len(out), len(want)))
                bad.append('the stream receives %d bytes; byte %d is %r, expected %r (coefficients in the order %s)' % (len(out), first, out[first] if first < len(out) else None, want[first] if first < len(want) else None, srcs))
        if res and oks < 1:
            bad.append('no success path')
        rep.check(not bad, 'WIRE', '%s:serialize' % label, 'the caller\'s writer receives exactly the %d x %d canonical big-endian bytes of the coefficients in reader order; write errors -> Err' % (nco, width),
                  '; '.join(sorted(set(bad))[:3]), where, construct=sp)


def rules(fx, rep):
    rule_point_deserializers(fx, rep)
    rule_point_serializers(fx, rep)
    rule_scalars(fx, rep)


def main(tier, t0):
    return common.standard_main(
        PROP, tier, t0, rules, 'other',
        'Interpretation over a byte-provenance model of the streams (serdesmodel.py): for the 4 point types x (bit 7 of the first stream byte) x (caller\'s flag), '
        'whatever buffers / helpers / impl delegation the code uses: only read_exact on the caller\'s reader; the flag test is decided by bit 7 (known bits); mismatch -> Err; '
        'match -> exactly size bytes consumed and exactly those stream bytes, in order, given to the CHECKED decoder of the right type; Ok iff the decoder accepts; no panic '
        'edge. Serializers: the caller\'s writer receives exactly the encoder\'s bytes through write_all, write errors -> Err. Fr / Fq12: read k (32 / 48 bytes) range-checked by '
        'from_repr fills slot k, every failure -> Err, exact byte stream written in reader order. NOT decided: value round trip.',
        ['rustc MIR', 'std::io::Read::read_exact / Write::write_all contracts; checked decoders (C04)'],
        ['bit-7/flag enumeration exhaustive; remaining input unconstrained'])

"""C13 -- expand_message / hash_to_field: guard, absorbed-sequence structure, block
splitting, field reduction constants and sibling agreement of the two from_okm."""
import re
import exp

import construles as C
import mathlib as M
from facts import callee, op_place, op_const
from mirutil import Resolver
from props import common
from wire import Origin, strip, term_str, is_call_to

PROP = 'C13'
XMD = '<hash_to_field::ExpandMsgXmd<HashT> as hash_to_field::ExpandMsg>::expand_message'
XOF = '<hash_to_field::ExpandMsgXof<HashT> as hash_to_field::ExpandMsg>::expand_message'
H2F = 'hash_to_field::hash_to_field'


def typenum(s):
    """Value of a typenum unsigned written out as UInt<UInt<..UTerm, B1>, B0>.. ."""
    bits = re.findall(r'typenum::(B[01])>', s)
    if 'UTerm' not in s:
        return None
    v = 0
    for b in bits:
        v = v * 2 + (1 if b == 'B1' else 0)
    return v


XMD_SCENARIOS = [
    # (OutputSize, BlockSize, len_in_bytes): SHA-256-like, SHA-512-like, SHA-384-like, SHA3-256-like sizes, and a
    # 1-/2-byte-output abstract hash so that the 255-block boundary is reached with few steps
    (32, 64, 0), (32, 64, 1), (32, 64, 31), (32, 64, 32), (32, 64, 33), (32, 64, 64), (32, 64, 65), (32, 64, 128),
    (64, 128, 48), (64, 128, 64), (64, 128, 96), (64, 128, 130), (48, 128, 100), (28, 64, 60), (32, 136, 70),
    (1, 3, 254), (1, 3, 255), (1, 3, 256), (1, 3, 300), (2, 5, 509), (2, 5, 510), (2, 5, 511),
]


def rule_xmd_semantic(fx, rep):
    """expand_message_xmd interpreted over byte strings (xmd.py): for every scenario the returned bytes equal
    RFC 9380 5.3.1 built in the same domain, or the call aborts exactly when ell > 255."""
    import xmd
    if fx.body(XMD) is None:
        rep.fail('BYTES', 'xmd:anchor', 'ExpandMsgXmd::expand_message not found')
        return
    rep.fn(XMD)
    where = fx.fn(XMD)['span']
    n = 0
    for out, block, ln in XMD_SCENARIOS:
        inst = 'xmd:out=%d,block=%d,len=%d' % (out, block, ln)
        T = xmd.Table()
        R = xmd.Run(fx, XMD, out, block, ln, T)
        try:
            res = R.run()
        except (exp.NotDerivable, exp.Budget) as e:
            rep.fail('BYTES', inst, 'not derivable: %s at %s' % (e, getattr(e, 'where', None)), where, construct=XMD)
            continue
        rep.sites(R.call_sites)
        n += 1
        oc = xmd.outcome(res)
        want = xmd.spec_xmd(out, block, ln, T)
        ell = (ln + out - 1) // out
        if want == 'abort':
            rep.check(oc[0] == 'abort', 'BYTES', inst, 'ell = %d > 255: the call aborts' % ell,
                      'a request for %d blocks (more than 255) returns %s instead of aborting' % (ell, '%d bytes' % len(oc[1]) if oc[0] == 'bytes' else oc[0]), where, construct=XMD)
        else:
            if oc[0] == 'bytes':
                ok = oc[1] == want
                why = '' if ok else xmd.describe_diff(oc[1], want, T)
            else:
                ok = False
                why = 'aborts although ell = %d <= 255' % ell if oc[0] == 'abort' else 'does not return one byte string: %r' % (oc,)
            rep.check(ok, 'BYTES', inst, '%d bytes = (b_1 || .. || b_%d)[0..%d] with b_0 = H(Z_pad(%d) || msg || I2OSP(len,2) || 0 || DST\'), b_1 = H(b_0 || 1 || DST\'), b_i = H((b_0 xor b_(i-1)) || i || DST\')' % (ln, ell, ln, block),
                      why, where, construct=XMD)
    rep.floor('BYTES', 'xmd-scenarios', n, len(XMD_SCENARIOS))


def rule_xof_semantic(fx, rep):
    import xmd
    if fx.body(XOF) is None:
        rep.fail('BYTES', 'xof:anchor', 'ExpandMsgXof::expand_message not found')
        return
    rep.fn(XOF)
    where = fx.fn(XOF)['span']
    n = 0
    for ln in (0, 1, 32, 77, 256, 1000):
        T = xmd.Table()
        R = xmd.Run(fx, XOF, 0, 0, ln, T)
        try:
            res = R.run()
        except (exp.NotDerivable, exp.Budget) as e:
            rep.fail('BYTES', 'xof:len=%d' % ln, 'not derivable: %s at %s' % (e, getattr(e, 'where', None)), where, construct=XOF)
            continue
        rep.sites(R.call_sites)
        n += 1
        oc = xmd.outcome(res)
        want = xmd.spec_xof(ln, T)
        ok = oc[0] == 'bytes' and oc[1] == want
        rep.check(ok, 'BYTES', 'xof:len=%d' % ln, 'H(msg || I2OSP(len,2) || DST || I2OSP(len(DST),1)) squeezed to len bytes',
                  xmd.describe_diff(oc[1], want, T) if oc[0] == 'bytes' else 'does not return one byte string: %r' % (oc[:1],), where, construct=XOF)
    rep.floor('BYTES', 'xof-scenarios', n, 6)


def rule_h2f_semantic(fx, rep):
    """hash_to_field::<T, X>(msg, dst, count), interpreted for several (Length, count): one expand_message(msg, dst, count * Length)
    and element k = from_ro(bytes[k*Length .. (k+1)*Length]) -- whether written as a loop with push, map/collect or chunks."""
    import stdmodel
    from exp import Agg, Int, Ref, TOP
    if fx.body(H2F) is None:
        rep.fail('WIRE', 'hash_to_field:anchor', 'hash_to_field not found')
        return
    rep.fn(H2F)
    where = fx.fn(H2F)['span']
    bad = []
    n = 0
    for L, count in ((64, 0), (64, 1), (64, 2), (128, 2), (48, 3), (48, 1)):
        calls = []

        def val(fr, op):
            v = fr.deref_operand(op)
            for _ in range(6):
                if isinstance(v, Ref):
                    v = fr._project(fr.store.get(v.root, TOP), v.proj)
            return v

        def tr(I, fr, t, c, pth):
            nm = c.get('name')
            targs = ' '.join(c.get('targs') or [])
            if nm == 'to_usize' and 'FromRO>::Length' in targs:
                fr.storev(t['dest'], Int(L))
                return True
            if nm == 'expand_message' and c.get('trait') == 'hash_to_field::ExpandMsg' and len(t['args']) == 3:
                n_ = fr.operand(t['args'][2])
                calls.append((val(fr, t['args'][0]), val(fr, t['args'][1]), n_.v if isinstance(n_, Int) else None, tuple(c.get('targs') or [])))
                if isinstance(n_, Int) and n_.v <= 4096:
                    fr.storev(t['dest'], Agg([('ob', j) for j in range(n_.v)], ('vec', 'Vec')))
                    return True
                return False
            if nm == 'from_slice' and 'GenericArray' in (c.get('res') or c['def']):
                s_ = stdmodel.seq_of(I, fr, t['args'][0])
                if isinstance(s_, Agg):
                    pth.events.append(('from_slice', len(s_.items), 'Length' in targs))
                    if len(s_.items) != L:
                        return 'panic'          # from_slice asserts the length
                    fr.storev(t['dest'], Agg(list(s_.items), ('garr', 'okm')))
                    return True
                return False
            if nm == 'from_ro' and c.get('trait') == 'hash_to_field::FromRO':
                s_ = stdmodel.seq_of(I, fr, t['args'][0])
                if isinstance(s_, Agg):
                    fr.storev(t['dest'], ('elem', tuple(s_.items), tuple(c.get('targs') or [])))
                    return True
                return False
            return False
        I = exp.Interp(fx, 'none', extra_transfer=tr)
        import inline as INL
        I.inline = lambda q: INL.is_private_helper(fx, q)
        I.fork_inlined = True
        try:
            res = I.run(H2F, [Ref('MSG', []), Ref('DST', []), Int(count)], extra={'MSG': 'MSG', 'DST': 'DST'})
        except (exp.NotDerivable, exp.Budget) as e:
            bad.append('Length %d, count %d: not derivable: %s' % (L, count, e))
            continue
        rep.sites(I.call_sites)
        n += 1
        div = [r for r in res if isinstance(r[1], tuple) and r[1] and r[1][0] == 'diverges']
        res = [r for r in res if r not in div]
        if div or len(res) != 1:
            bad.append('Length %d, count %d: %d returning paths, %d panicking' % (L, count, len(res), len(div)))
            continue
        ret = res[0][1]
        want = [tuple(('ob', k * L + j) for j in range(L)) for k in range(count)]
        got = [x[1] if isinstance(x, tuple) and x and x[0] == 'elem' else x for x in (ret.items if isinstance(ret, Agg) else [ret])]
        if not (isinstance(ret, Agg) and got == want):
            bad.append('Length %d, count %d: elements are built from %s' % (L, count, [(_span(g_) if isinstance(g_, tuple) else g_) for g_ in got][:4]))
        if not (len(calls) == 1 and calls[0][0] == 'MSG' and calls[0][1] == 'DST' and calls[0][2] == count * L):
            bad.append('Length %d, count %d: expand_message is called as %r, expected once with (msg, dst, %d)' % (L, count, [c_[:3] for c_ in calls], count * L))
        elif calls[0][3][:1] != ('X',):
            bad.append('expand_message is called on %r, not on the expander type parameter' % (calls[0][3],))
        tys = set(x[2][:1] for x in (ret.items if isinstance(ret, Agg) else []) if isinstance(x, tuple) and x and x[0] == 'elem')
        if tys - {('T',)}:
            bad.append('from_ro is called on %s, not on the element type parameter' % sorted(tys))
    rep.check(not bad and n == 6, 'WIRE', 'hash_to_field', 'one expand_message(msg, dst, count * Length); element k = from_ro(output[k*Length .. (k+1)*Length]) for 6 (Length, count) scenarios',
              '; '.join(bad[:3]), where, construct=H2F)


def _span(t_):
    idx = [x[1] for x in t_ if isinstance(x, tuple) and len(x) == 2 and x[0] == 'ob']
    return 'output[%d..%d]' % (idx[0], idx[-1] + 1) if idx and idx == list(range(idx[0], idx[0] + len(idx))) else 'non-contiguous bytes'


def rule_from_okm_semantic(fx, rep):
    """from_okm (Fq: 64 bytes, Fr: 48 bytes) interpreted over symbolic bytes: the result is fe(0.. || hi) * C + fe(0.. || lo) with
    hi || lo = okm in order, each half short enough to be below the modulus (so the unwraps cannot fail) and C = 2^(8 |lo|) mod p
    (value compared).  FromRO for Fq2 = (from_okm(okm[..64]), from_okm(okm[64..]))."""
    import stdmodel
    from exp import Agg, Int, Ref, TOP, Opt, Either, ConstField
    for ty, width, L, modulus in ((C.FQ, 48, 64, M.Q), (C.FR, 32, 48, M.R_ORDER)):
        short = ty.rsplit('::', 1)[1]
        path = fx.impl_method('hash_to_field::BaseFromRO', ty, 'from_okm')
        if not path or fx.body(path) is None:
            rep.fail('BYTES', '%s:from_okm:anchor' % short, 'not found')
            continue
        rep.fn(path)
        where = fx.fn(path)['span']
        pty = fx.body(path).local_ty(1)
        rep.check(typenum(pty) == L, 'BYTES', '%s:from_okm:length' % short, 'consumes %d bytes' % L, 'parameter type %s' % pty, where)

        def bytes_of(I, fr, op):
            v = fr.operand(op)
            for _ in range(6):
                if isinstance(v, Ref):
                    v = fr._project(fr.store.get(v.root, TOP), v.proj)
            if v is TOP:
                v = fr.deref_operand(op)
                for _ in range(6):
                    if isinstance(v, Ref):
                        v = fr._project(fr.store.get(v.root, TOP), v.proj)
            if isinstance(v, tuple) and v and v[0] == 'cursor':
                return list(v[1])
            if isinstance(v, Agg):
                return list(v.items)
            return None

        def tr(I, fr, t, c, pth):
            nm = c.get('name')
            d = c['def']
            r_ = c.get('res') or d
            a = t['args']
            if nm in ('deref', 'as_ref', 'as_slice', 'borrow') and 'GenericArray' in r_ and len(a) == 1:
                rp = stdmodel.ref_of(fr, a[0])
                fr.storev(t['dest'], Ref(rp[0], rp[1]) if rp is not None else fr.operand(a[0]))
                return True
            if r_.startswith('std::io::Cursor::<T>::new') and len(a) == 1:
                b_ = bytes_of(I, fr, a[0])
                if b_ is None:
                    return False
                fr.storev(t['dest'], ('cursor', tuple(b_)))
                return True
            if nm == 'chain' and c.get('trait') == 'std::io::Read' and len(a) == 2:
                x, y = bytes_of(I, fr, a[0]), bytes_of(I, fr, a[1])
                if x is None or y is None:
                    return False
                fr.storev(t['dest'], ('cursor', tuple(x) + tuple(y)))
                return True
            if nm == 'read_be' and c.get('trait') == 'ff::PrimeFieldRepr' and len(a) == 2:
                v = fr.operand(a[1])
                data = None
                if isinstance(v, tuple) and v and v[0] == 'cursor':
                    data = list(v[1])
                else:
                    # &[u8] (or &mut &[u8]) as a reader
                    import decode2
                    data = decode2.DecoderRun2.take_from_reader(None, I, fr, a[1], width) if isinstance(fr.deref_operand(a[1]), (Ref, Agg)) or isinstance(v, Ref) else None
                    if data is None:
                        b_ = bytes_of(I, fr, a[1])
                        data = b_
                if data is None:
                    return False
                pth.events.append(('read_be', len(data)))
                if len(data) < width:
                    fr.storev(t['dest'], Opt('some', ('short-read',), ('read_be',)))
                    return True
                fr.store_through(a[0], ('be', tuple(data[:width])))
                fr.storev(t['dest'], Opt('none', Agg([]), ('read_be',)))
                return True
            if nm == 'from_repr' and c.get('trait') == 'ff::PrimeField' and len(a) == 1:
                v = fr.operand(a[0])
                if isinstance(v, tuple) and v and v[0] == 'be':
                    z = 0
                    for b_ in v[1]:
                        if isinstance(b_, Int) and b_.v == 0:
                            z += 1
                        else:
                            break
                    in_range = (1 << (8 * (width - z))) <= modulus
                    pth.events.append(('from_repr', width - z, in_range))
                    fe = ('fe', v[1])
                    fr.storev(t['dest'], Opt('none', fe, ('from_repr',)) if in_range else Opt(None, Either(fe, ('range-error',)), ('from_repr',)))
                    return True
                return False
            if c.get('trait') == 'ff::Field' and nm in ('mul_assign', 'add_assign') and len(a) == 2:
                x = fr.deref_operand(a[0])
                y = fr.deref_operand(a[1])
                for _ in range(4):
                    if isinstance(y, Ref):
                        y = fr._project(fr.store.get(y.root, TOP), y.proj)
                if isinstance(y, ConstField):
                    y = ('const', (C.dec_fr_any if ty == C.FR else C.dec_fq_any)(y.v))
                fr.store_through(a[0], ('mul' if nm == 'mul_assign' else 'add', x, y))
                return True
            return stdmodel.result_transfer(I, fr, t, c, pth)
        okm = Agg([('o', j) for j in range(L)], ('garr', 'okm'))
        I = exp.Interp(fx, 'none', extra_transfer=tr)
        import inline as INL
        I.inline = lambda q: INL.is_private_helper(fx, q)
        I.fork_inlined = True
        bad = []
        try:
            res = I.run(path, [Ref('OKM', [])], extra={'OKM': okm})
        except (exp.NotDerivable, exp.Budget) as e:
            res = []
            bad.append('not derivable: %s' % e)
        rep.sites(I.call_sites)
        div = [r for r in res if isinstance(r[1], tuple) and r[1] and r[1][0] == 'diverges']
        oks = [r for r in res if r not in div]
        if div:
            bad.append('%d panicking path(s): an unwrap / read can fail for some input' % len(div))
        if len(oks) != 1 and not bad:
            bad.append('%d returning paths' % len(oks))
        for pth, ret, _ in oks[:1]:
            def norm_add(v):
                if isinstance(v, tuple) and v and v[0] == 'add':
                    return v[1], v[2]
                return None
            ad = norm_add(ret)
            okv = False
            why = 'returns %s' % (_short(ret),)
            if ad:
                for hi_t, lo_t in (ad, (ad[1], ad[0])):
                    if isinstance(hi_t, tuple) and hi_t and hi_t[0] == 'mul' and isinstance(hi_t[1], tuple) and hi_t[1][0] == 'fe' and isinstance(hi_t[2], tuple) and hi_t[2][0] == 'const' \
                            and isinstance(lo_t, tuple) and lo_t and lo_t[0] == 'fe':
                        hb, lb = list(hi_t[1][1]), list(lo_t[1])

                        def split(bs):
                            z = 0
                            while z < len(bs) and isinstance(bs[z], Int) and bs[z].v == 0:
                                z += 1
                            return z, bs[z:]
                        zh, hbytes = split(hb)
                        zl, lbytes = split(lb)
                        if hbytes + lbytes != [('o', j) for j in range(L)]:
                            why = 'the two halves are not okm[..h] and okm[h..] in order (most significant half must be the one that is scaled)'
                            continue
                        cval = hi_t[2][1]
                        want_c = pow(2, 8 * len(lbytes), modulus)
                        cint = cval.v if hasattr(cval, 'v') else cval
                        if cint != want_c:
                            why = 'the high half is scaled by %#x, expected 2^%d mod p' % (cint if isinstance(cint, int) else 0, 8 * len(lbytes))
                            continue
                        okv = True
            if not okv:
                bad.append(why)
        rep.check(not bad, 'BYTES', '%s:from_okm' % short, 'OS2IP(okm) mod p as fe(hi) * 2^(8|lo|) + fe(lo) with both halves below the modulus; no failing unwrap', '; '.join(bad[:3]), where, construct=path)
    # Fq2
    p2 = fx.impl_method('hash_to_field::FromRO', C.FQ2 if hasattr(C, 'FQ2') else 'bls12_381::fq2::Fq2', 'from_ro')
    if p2 and fx.body(p2) is not None:
        rep.fn(p2)

        def tr2(I, fr, t, c, pth):
            nm = c.get('name')
            if nm in ('deref', 'as_ref', 'as_slice', 'borrow') and 'GenericArray' in (c.get('res') or c['def']) and len(t['args']) == 1:
                rp = stdmodel.ref_of(fr, t['args'][0])
                fr.storev(t['dest'], Ref(rp[0], rp[1]) if rp is not None else fr.operand(t['args'][0]))
                return True
            if nm == 'from_slice' and 'GenericArray' in (c.get('res') or c['def']):
                s_ = stdmodel.seq_of(I, fr, t['args'][0])
                if isinstance(s_, Agg):
                    fr.storev(t['dest'], Agg(list(s_.items), ('garr', 'okm')))
                    return True
            if nm == 'from_okm' and c.get('trait') == 'hash_to_field::BaseFromRO':
                s_ = stdmodel.seq_of(I, fr, t['args'][0])
                if isinstance(s_, Agg):
                    fr.storev(t['dest'], ('okm', tuple(s_.items), c.get('self_ty')))
                    return True
            return False
        I = exp.Interp(fx, 'none', extra_transfer=tr2)
        bad = []
        try:
            res = I.run(p2, [Ref('OKM', [])], extra={'OKM': Agg([('o', j) for j in range(128)], ('garr', 'okm'))})
            res = [r for r in res if not (isinstance(r[1], tuple) and r[1] and r[1][0] == 'diverges')]
            ret = res[0][1] if len(res) == 1 else None
            want = [('okm', tuple(('o', j) for j in range(64)), C.FQ), ('okm', tuple(('o', j) for j in range(64, 128)), C.FQ)]
            if not (isinstance(ret, Agg) and ret.items == want):
                bad.append('returns %s' % _short(ret))
        except (exp.NotDerivable, exp.Budget) as e:
            bad.append('not derivable: %s' % e)
        rep.check(not bad, 'BYTES', 'Fq2:from_ro', 'Fq2 = (from_okm(okm[..64]), from_okm(okm[64..])): real part first', '; '.join(bad), fx.fn(p2)['span'], construct=p2)
    else:
        rep.fail('BYTES', 'Fq2:from_ro', 'FromRO for Fq2 not found')


def _short(v):
    s_ = repr(v)
    return s_ if len(s_) < 200 else s_[:200] + '...'


def rules(fx, rep):
    rule_xmd_semantic(fx, rep)
    rule_xof_semantic(fx, rep)
    rule_h2f_semantic(fx, rep)
    C.check_okm_consts(fx, rep)
    rule_from_okm_semantic(fx, rep)


def main(tier, t0):
    return common.standard_main(
        PROP, tier, t0, rules, 'other',
        'expand_message_xmd / _xof are interpreted over a byte-string domain (opaque msg/dst segments, uninterpreted hash, symbolic digest bytes, XOR) for 22 + 6 '
        'scenarios of (OutputSize, BlockSize, len): the returned bytes equal the RFC 9380 5.3 definition built in the same domain, the call aborts exactly when ell > 255 '
        '(boundary scenarios ell = 255 / 256), whatever the shape of the code (chained calls, input statements, helpers, loops or iterators); hash_to_field, from_okm, Fq2 by def-use analysis: field hashing '
        'slices consecutive Length-byte blocks; from_okm splits L bytes into two zero-padded big-endian halves, scales the FIRST by the constant '
        '2^(8 L/2) mod p (value checked) and adds the second; Fq2 = (block 0, block 1). NOT decided: byte-exact digest output as values.',
        ['rustc MIR/type information', 'digest / generic-array / ff crates meet their documented contracts (chain, result, read_be, from_repr)'],
        ['message expansion decided for the listed size scenarios (the code is parametric in the sizes); tags of at most 255 bytes (the property\'s domain)'])

"""C13 -- expand_message / hash_to_field: guard, absorbed-sequence structure, block
splitting, field reduction constants and sibling agreement of the two from_okm."""
import re
import exp

import construles as C
import mathlib as M
from facts import callee, op_place, op_const
from mirutil import Resolver
from props import common
from wire import Origin, strip, term_str, is_call_to

PROP = 'C13'
XMD = '<hash_to_field::ExpandMsgXmd<HashT> as hash_to_field::ExpandMsg>::expand_message'
XOF = '<hash_to_field::ExpandMsgXof<HashT> as hash_to_field::ExpandMsg>::expand_message'
H2F = 'hash_to_field::hash_to_field'


def typenum(s):
    """Value of a typenum unsigned written out as UInt<UInt<..UTerm, B1>, B0>.. ."""
    bits = re.findall(r'typenum::(B[01])>', s)
    if 'UTerm' not in s:
        return None
    v = 0
    for b in bits:
        v = v * 2 + (1 if b == 'B1' else 0)
    return v


def absorb_chain(t):
    """For the origin term of a finished hasher: list of absorbed argument terms
    (innermost first) and the constructor term."""
    items = []
    while t[0] == 'call' and t[1] is not None and t[1].get('name') in ('chain',) and len(t[2]) == 2:
        items.append(t[2][1])
        t = t[2][0]
    items.reverse()
    return t, items


def is_param(t, i):
    return strip(t) == ('param', i)


def const_int_term(t):
    t = strip(t)
    if t[0] == 'const' and isinstance(t[1].get('v'), int) and not isinstance(t[1].get('v'), bool):
        return t[1]['v']
    return None


def cast_of(t):
    """Strip an integer cast."""
    if t[0] == 'cast':
        return t[1]
    return t


def unwrap_overflow(t):
    """(AddWithOverflow(a,b)).0 -> ('binop','Add',a,b)"""
    if t[0] == 'proj' and t[1][0] == 'binop' and t[1][1].endswith('WithOverflow') and t[2] == (('f', 0, t[2][0][2]),):
        return ('binop', t[1][1].replace('WithOverflow', ''), t[1][2], t[1][3])
    if t[0] == 'proj' and t[1][0] == 'binop' and t[1][1].endswith('WithOverflow'):
        return ('binop', t[1][1].replace('WithOverflow', ''), t[1][2], t[1][3])
    return t


def norm(t):
    """Normalise arithmetic terms: drop overflow tuples and copies."""
    t = unwrap_overflow(t)
    if t[0] == 'binop':
        return ('binop', t[1].replace('Unchecked', ''), norm(t[2]), norm(t[3]))
    if t[0] == 'cast':
        return ('cast', norm(t[1]), t[2])
    return t


def dst_prime_tail(items):
    """The last two absorbed items must be dst (param 2) and [len(dst) as u8]."""
    if len(items) < 2:
        return False
    a, b = items[-2], items[-1]
    if not is_param(a, 2):
        return False
    b = strip(b)
    if not (b[0] == 'agg' and 'array' in b[1] and len(b[2]) == 1):
        return False
    x = cast_of(b[2][0])
    return x[0] == 'call' and x[1] and x[1].get('def', '').endswith('::len') and is_param(x[2][0], 2)


def rule_xmd(fx, rep):
    import inline as INL
    b = INL.inlined(fx, XMD, lambda q: INL.is_private_helper(fx, q))
    if b is None:
        rep.fail('GUARD', 'xmd:anchor', 'ExpandMsgXmd::expand_message not found')
        return
    rep.fn(XMD)
    o = Origin(b)
    where = fx.fn(XMD)['span']
    # ---- ell and the abort guard
    guards = []
    for bi, blk in enumerate(b.blocks):
        t = blk['term']
        if t['k'] != 'switch' or bi not in b.reachable():
            continue
        d = norm(o.operand(t['discr']))
        if d[0] == 'binop' and d[1] in ('Gt', 'Ge', 'Lt', 'Le'):
            guards.append((bi, t, d))
    ell_guard = None
    for bi, t, d in guards:
        for side, other in ((2, 3), (3, 2)):
            k = const_int_term(d[other])
            e = norm(strip(d[side]))
            if k is None:
                continue
            # e must be ceil(len / b): Div(Sub(Add(len, b), 1), b)
            if (e[0] == 'binop' and e[1] == 'Div' and e[2][0] == 'binop' and e[2][1] == 'Sub' and const_int_term(e[2][3]) == 1
                    and e[2][2][0] == 'binop' and e[2][2][1] == 'Add'):
                add = e[2][2]
                ops = [strip(add[2]), strip(add[3])]
                bsz = [x for x in ops if x[0] == 'call' and x[1] and x[1].get('name') == 'to_usize']
                ln = [x for x in ops if x == ('param', 3)]
                div = strip(e[3])
                if len(bsz) == 1 and len(ln) == 1 and div == bsz[0] and 'OutputSize' in ' '.join(bsz[0][1]['targs']):
                    ell_guard = (bi, t, d[1], side == 2, k)
    if ell_guard is None:
        rep.fail('GUARD', 'xmd:ell-guard', 'no comparison of ell = ceil(len_in_bytes / OutputSize) with a constant found before hashing', where, construct=XMD)
        return
    bi, t, op, ell_left, k = ell_guard
    # edges: value 0 = false edge
    false_bb = [bb for v, bb in t['targets'] if v == 0]
    true_bb = t['otherwise'] if false_bb else None
    if not ell_left:
        op = {'Gt': 'Lt', 'Lt': 'Gt', 'Ge': 'Le', 'Le': 'Ge'}[op]
    # when does the TRUE edge fire (in terms of ell)?   Gt k: ell>=k+1 ; Ge k: ell>=k ; Lt k: ell<=k-1 ; Le k: ell<=k
    if op in ('Gt', 'Ge'):
        abort_bb, cont_bb = true_bb, false_bb[0]
        max_ok = k if op == 'Gt' else k - 1
    else:
        abort_bb, cont_bb = false_bb[0], true_bb
        max_ok = k - 1 if op == 'Lt' else k
    rep.check(max_ok == 255, 'GUARD', 'xmd:ell-guard', 'expansion continues iff ell <= 255',
              'expansion continues for ell <= %d; RFC 9380 requires abort for ell > 255 (the block counter is one byte)' % max_ok, t['span'], construct=XMD)
    # abort edge diverges
    ab = b.blocks[abort_bb]['term']
    rep.check(ab['k'] == 'call' and ab['target'] is None, 'GUARD', 'xmd:abort-diverges', 'the abort edge panics', 'the abort edge does not diverge', t['span'])
    # the continue edge dominates every Digest call and every return
    hashing = [i for i, tt in b.calls() if (callee(tt) or {}).get('trait', '') in ('digest::Digest', 'digest::Input', 'digest::FixedOutput', 'digest::ExtendableOutput', 'digest::BlockInput', 'digest::XofReader', 'digest::Reset')]
    rep.sites(len(hashing))
    dom_ok = all(b.dominates(cont_bb, i) for i in hashing) and all(b.dominates(cont_bb, r) for r in b.return_blocks())
    rep.check(dom_ok and hashing, 'GUARD', 'xmd:guard-dominates', 'the guard dominates all %d digest calls and the return' % len(hashing),
              'hashing or a return is reachable without passing the ell guard', t['span'], construct=XMD)
    # ---- absorbed sequences
    invs = []
    for i, tt in b.calls():
        c = callee(tt)
        if c and c.get('trait') == 'digest::Digest' and c.get('name') == 'result':
            ctor, items = absorb_chain(o.operand(tt['args'][0]))
            invs.append((i, tt, ctor, items))
    rep.check(len(invs) == 3, 'WIRE', 'xmd:hash-invocations', 'three hash invocations: b_0, b_1, b_i (loop)', '%d hash invocations found' % len(invs), where)
    if len(invs) != 3:
        return
    invs.sort(key=lambda x: x[0])
    for nm, inv in zip(('b_0', 'b_1', 'b_i'), invs):
        rep.check(dst_prime_tail(inv[3]), 'WIRE', 'xmd:%s:DST_prime' % nm, 'ends with DST || I2OSP(len(DST), 1)',
                  'absorbed sequence %s does not end with dst, [dst.len() as u8]' % [term_str(x) for x in inv[3]], inv[1]['span'], construct=XMD)
        rep.check(is_call_to(inv[2], name='new') and inv[2][1].get('trait') == 'digest::Digest', 'WIRE', 'xmd:%s:fresh-hasher' % nm, 'starts from a fresh hasher', 'hasher is not fresh: %s' % term_str(inv[2]))
    b0 = invs[0][3]
    good = len(b0) == 5
    why = 'b_0 absorbs %d items' % len(b0)
    if good:
        z = strip(b0[0])
        zt = ' '.join(z[1]['targs']) if z[0] == 'call' and z[1] else ''
        zok = z[0] == 'call' and z[1].get('name') == 'default' and 'GenericArray<u8, <HashT as digest::BlockInput>::BlockSize>' in zt
        rep.check(zok, 'WIRE', 'xmd:b_0:Z_pad', 'Z_pad is a zeroed array whose length is the hash\'s input block size (type-level)',
                  'the first absorbed item is %s: its length does not follow the hash\'s block size (RFC: Z_pad = I2OSP(0, s_in_bytes))' % term_str(z), invs[0][1]['span'], construct=XMD)
        mok = is_param(b0[1], 1)
        l = strip(b0[2])
        lok = l[0] == 'agg' and 'array' in l[1] and len(l[2]) == 3
        if lok:
            hi, lo, zero = [norm(x) for x in l[2]]
            hi_ = cast_of(hi)
            lok = (hi_[0] == 'binop' and hi_[1] == 'Shr' and strip(hi_[2]) == ('param', 3) and const_int_term(hi_[3]) == 8
                   and strip(cast_of(lo)) == ('param', 3) and const_int_term(zero) == 0
                   and hi[0] == 'cast' and lo[0] == 'cast')
        rep.check(mok and lok, 'WIRE', 'xmd:b_0:msg-and-length', 'msg then I2OSP(len_in_bytes, 2) || I2OSP(0, 1)',
                  'b_0 absorbs %s after Z_pad' % [term_str(x) for x in b0[1:3]], invs[0][1]['span'], construct=XMD)
    else:
        rep.fail('WIRE', 'xmd:b_0:shape', why, invs[0][1]['span'], construct=XMD)
    # b_1: b_0 then 1
    b1 = invs[1][3]
    ok = len(b1) == 4
    if ok:
        first = b1[0]
        # peel index(RangeFull)/deref/as_ref of the b_0 result
        for _ in range(8):
            first = strip(first)
            if first[0] == 'call' and first[1] and first[1].get('name') in ('index', 'deref', 'as_ref', 'as_slice'):
                first = first[2][0]
            else:
                break
        first = strip(first)
        ok = first[0] == 'call' and first[1].get('name') == 'result' and first[4] == invs[0][0]
        one = strip(b1[1])
        ok = ok and one[0] == 'agg' and len(one[2]) == 1 and const_int_term(one[2][0]) == 1
    rep.check(ok, 'WIRE', 'xmd:b_1', 'b_1 = H(b_0 || I2OSP(1,1) || DST_prime)', 'b_1 absorbs %s' % [term_str(x) for x in b1], invs[1][1]['span'], construct=XMD)
    # b_i: xor block then (idx+1)
    bi_ = invs[2][3]
    ok = len(bi_) == 4
    why = ''
    if ok:
        ctr = strip(bi_[1])
        ok = ctr[0] == 'agg' and len(ctr[2]) == 1
        if ok:
            e = norm(cast_of(norm(ctr[2][0])))
            # (idx + 1) with idx the loop variable of 1..ell
            ok = e[0] == 'binop' and e[1] == 'Add' and const_int_term(e[3]) == 1
            why = 'block counter is %s' % term_str(e)
            if ok:
                idx = strip(e[2])
                # loop variable: payload of Range::next
                ok = idx[0] == 'proj' and idx[1][0] == 'call' and idx[1][1].get('name') == 'next'
        x = strip(bi_[0])
        xt = ' '.join(x[1]['targs']) if x[0] == 'call' and x[1] else ''
        ok = ok and x[0] == 'call' and x[1].get('name') == 'default' and 'OutputSize' in xt
    rep.check(ok, 'WIRE', 'xmd:b_i', 'b_i = H(strxor-buffer(OutputSize) || I2OSP(idx+1, 1) || DST_prime)', 'b_i absorbs %s (%s)' % ([term_str(x) for x in bi_], why), invs[2][1]['span'], construct=XMD)
    # the loop range is 1..ell
    rng = None
    ok = False
    for blk in b.blocks:
        for s in blk['stmts']:
            if s['k'] == 'assign' and s['rv']['k'] == 'agg' and s['rv']['kind'].get('adt', '').endswith('ops::Range') and len(s['rv']['ops']) == 2:
                lo = const_int_term(o.operand(s['rv']['ops'][0]))
                hi = norm(strip(o.operand(s['rv']['ops'][1])))
                if lo == 1 and hi[0] == 'binop' and hi[1] == 'Div':
                    ok = True
                    rng = s
    rep.check(ok, 'WIRE', 'xmd:loop-range', 'blocks 2..=ell are produced by a loop over 1..ell', 'loop range is not 1..ell', rng['span'] if rng else where, construct=XMD)
    # xor closure: tmp[j] = b0[j] ^ prev[j]
    clos = [p for p in fx.fns if p.startswith(XMD + '::{closure')]
    okx = False
    for cp in clos:
        cb = fx.body(cp)
        if cb is None:
            continue
        rep.fn(cp)
        for blk in cb.blocks:
            for s in blk['stmts']:
                if s['k'] == 'assign' and s['rv']['k'] == 'binop' and s['rv']['op'] == 'BitXor':
                    okx = True
        for _, tt in cb.calls():
            cc = callee(tt)
            if cc and cc.get('trait') == 'std::ops::BitXor':
                okx = True
    rep.check(okx, 'WIRE', 'xmd:strxor', 'the buffer is filled with a byte-wise XOR', 'no XOR found in the strxor closure', where)
    # final truncate to len_in_bytes
    tr = [tt for i, tt in b.calls() if (callee(tt) or {}).get('def', '').endswith('::truncate')]
    ok = len(tr) == 1 and strip(o.operand(tr[0]['args'][1])) == ('param', 3)
    rep.check(ok, 'WIRE', 'xmd:truncate', 'output truncated to len_in_bytes', 'output is not truncated to len_in_bytes', where, construct=XMD)


def rule_xof(fx, rep):
    b = fx.body(XOF)
    if b is None:
        rep.fail('WIRE', 'xof:anchor', 'ExpandMsgXof::expand_message not found')
        return
    rep.fn(XOF)
    o = Origin(b)
    fin = [(i, tt) for i, tt in b.calls() if (callee(tt) or {}).get('name') == 'vec_result']
    if len(fin) != 1:
        rep.fail('WIRE', 'xof:one-invocation', '%d XOF finalisations' % len(fin), fx.fn(XOF)['span'])
        return
    i, tt = fin[0]
    rep.sites()
    ctor, items = absorb_chain(o.operand(tt['args'][0]))
    ok = len(items) == 4 and dst_prime_tail(items) and is_param(items[0], 1)
    if ok:
        l = strip(items[1])
        ok = l[0] == 'agg' and len(l[2]) == 2
        if ok:
            hi, lo = [norm(x) for x in l[2]]
            hi_ = cast_of(hi)
            ok = (hi_[0] == 'binop' and hi_[1] == 'Shr' and strip(hi_[2]) == ('param', 3) and const_int_term(hi_[3]) == 8
                  and strip(cast_of(lo)) == ('param', 3))
    rep.check(ok, 'WIRE', 'xof:absorbed-sequence', 'H(msg || I2OSP(len, 2) || DST || I2OSP(len(DST), 1))',
              'XOF absorbs %s' % [term_str(x) for x in items], tt['span'], construct=XOF)
    rep.check(strip(o.operand(tt['args'][1])) == ('param', 3), 'WIRE', 'xof:output-length', 'squeezes len_in_bytes bytes', 'output length is %s' % term_str(o.operand(tt['args'][1])), tt['span'], construct=XOF)
    rep.check(is_call_to(ctor, name='default'), 'WIRE', 'xof:fresh-hasher', 'fresh hasher', 'hasher: %s' % term_str(ctor))


def rule_h2f(fx, rep):
    b = fx.body(H2F)
    if b is None:
        rep.fail('WIRE', 'hash_to_field:anchor', 'hash_to_field not found')
        return
    rep.fn(H2F)
    o = Origin(b)
    where = fx.fn(H2F)['span']
    calls = {}
    for i, tt in b.calls():
        c = callee(tt)
        calls.setdefault(c.get('name') if c else None, []).append((i, tt, c))
    # expand_message(msg, dst, count * L)
    em = calls.get('expand_message', [])
    ok = len(em) == 1
    if ok:
        tt = em[0][1]
        ln = norm(strip(o.operand(tt['args'][2])))
        L = None
        ok = is_param(o.operand(tt['args'][0]), 1) and is_param(o.operand(tt['args'][1]), 2) and ln[0] == 'binop' and ln[1] == 'Mul'
        if ok:
            ops = [strip(ln[2]), strip(ln[3])]
            Ls = [x for x in ops if x[0] == 'call' and x[1].get('name') == 'to_usize' and 'FromRO>::Length' in ' '.join(x[1]['targs'])]
            ok = len(Ls) == 1 and ('param', 3) in ops
            L = Ls[0] if Ls else None
    rep.check(ok, 'WIRE', 'hash_to_field:expand-call', 'expand_message(msg, dst, count * Length)', 'expand_message is not called with (msg, dst, count * <T as FromRO>::Length)', where, construct=H2F)
    # slicing idx*L .. (idx+1)*L
    ix = [x for x in calls.get('index', [])]
    ok2 = len(ix) == 1
    if ok2:
        tt = ix[0][1]
        rg = strip(o.operand(tt['args'][1]))
        ok2 = rg[0] == 'agg' and rg[1].get('adt', '').endswith('ops::Range') and len(rg[2]) == 2
        if ok2:
            lo, hi = norm(strip(rg[2][0])), norm(strip(rg[2][1]))

            def is_L(x):
                x = strip(x)
                return x[0] == 'call' and x[1].get('name') == 'to_usize'

            def is_idx(x):
                x = strip(x)
                return x[0] == 'proj' and x[1][0] == 'call' and x[1][1].get('name') == 'next'
            ok_lo = lo[0] == 'binop' and lo[1] == 'Mul' and ((is_idx(lo[2]) and is_L(lo[3])) or (is_idx(lo[3]) and is_L(lo[2])))
            ok_hi = (hi[0] == 'binop' and hi[1] == 'Mul' and any(is_L(x) for x in (hi[2], hi[3]))
                     and any((norm(strip(x))[0] == 'binop' and norm(strip(x))[1] == 'Add' and is_idx(norm(strip(x))[2]) and const_int_term(norm(strip(x))[3]) == 1) for x in (hi[2], hi[3])))
            ok2 = ok_lo and ok_hi
            src = strip(o.operand(tt['args'][0]))
            ok2 = ok2 and src[0] == 'call' and src[1].get('name') == 'expand_message'
    rep.check(ok2, 'WIRE', 'hash_to_field:block-slicing', 'element idx is built from bytes [idx*L, (idx+1)*L) of the expansion',
              'blocks are not consecutive Length-byte slices of the expand_message output', where, construct=H2F)
    # loop 0..count, from_ro on each, pushed in order
    rng = None
    for blk in b.blocks:
        for s in blk['stmts']:
            if s['k'] == 'assign' and s['rv']['k'] == 'agg' and s['rv']['kind'].get('adt', '').endswith('ops::Range') and s['rv']['kind'].get('variant_name') == 'Range':
                if strip(o.operand(s['rv']['ops'][1])) == ('param', 3):
                    rng = s
    ok3 = rng is not None and const_int_term(o.operand(rng['rv']['ops'][0])) == 0
    fr = calls.get('from_ro', [])
    pu = calls.get('push', [])
    ok3 = ok3 and len(fr) == 1 and len(pu) == 1
    if ok3:
        pushed = strip(o.operand(pu[0][1]['args'][1]))
        ok3 = pushed[0] == 'call' and pushed[1].get('name') == 'from_ro'
        arg = strip(fr[0][1]['args'][0] and o.operand(fr[0][1]['args'][0]))
        ok3 = ok3 and arg[0] == 'call' and arg[1].get('name') == 'from_slice'
    rep.check(ok3, 'WIRE', 'hash_to_field:loop', 'for idx in 0..count: push(from_ro(block idx))', 'element loop is not 0..count with one from_ro per block', where, construct=H2F)
    rep.sites(len(list(b.calls())))


def straight_line_calls(b):
    """Calls of a straight-line body in execution order (None if the body branches)."""
    out = []
    bb = 0
    seen = set()
    while True:
        if bb in seen:
            return None
        seen.add(bb)
        t = b.blocks[bb]['term']
        if t['k'] == 'call':
            out.append(t)
            if t['target'] is None:
                return out
            bb = t['target']
        elif t['k'] in ('goto', 'assert', 'drop'):
            bb = t['target']
        elif t['k'] == 'return':
            return out
        else:
            return None


def rule_from_okm(fx, rep):
    C.check_okm_consts(fx, rep)
    shapes = {}
    for ty, rbytes, L in ((C.FQ, 48, 64), (C.FR, 32, 48)):
        short = ty.rsplit('::', 1)[1]
        path = fx.impl_method('hash_to_field::BaseFromRO', ty, 'from_okm')
        b = fx.body(path) if path else None
        if b is None:
            continue
        o = Origin(b)
        r = Resolver(b)
        where = fx.fn(path)['span']
        seq = straight_line_calls(b)
        if seq is None:
            rep.fail('SHAPE', '%s:from_okm:straight-line' % short, 'from_okm has data-dependent control flow', where, construct=path)
            continue
        # parameter type length
        Lty = typenum(b.local_ty(1))
        rep.check(Lty == L, 'BYTES', '%s:from_okm:input-length' % short, 'takes %d bytes' % L, 'input length is %s, expected %d' % (Lty, L), where)
        reads = []        # (pad, kind, bound)
        cur_read = None
        vals = {}         # local of unwrap(from_repr) result -> read index
        mul_target = None
        add = None
        for t in seq:
            c = callee(t)
            nm = c.get('name') if c else None
            if nm == 'read_be':
                src = strip(o.operand(t['args'][1]))
                desc = None
                if src[0] == 'call' and src[1].get('name') == 'chain' and len(src[2]) == 2:
                    padt = strip(src[2][0])
                    datt = strip(src[2][1])
                    pad = None
                    if padt[0] == 'call' and padt[1].get('name') == 'new' and padt[2]:
                        z = strip(padt[2][0])
                        if z[0] == 'repeat' and const_int_term(z[1]) == 0:
                            pad = z[2]
                    sl = None
                    if datt[0] == 'call' and datt[1].get('name') == 'new' and datt[2]:
                        d = strip(datt[2][0])
                        if d[0] == 'call' and d[1].get('name') == 'index' and len(d[2]) == 2:
                            base = d[2][0]
                            for _ in range(6):
                                base = strip(base)
                                if base[0] == 'call' and base[1].get('name') in ('deref', 'as_ref', 'as_slice'):
                                    base = base[2][0]
                                else:
                                    break
                            rg = strip(d[2][1])
                            if strip(base) == ('param', 1) and rg[0] == 'agg' and len(rg[2]) == 1:
                                kind = rg[1].get('adt', '').rsplit('::', 1)[-1]
                                sl = (kind, const_int_term(rg[2][0]))
                    if pad is not None and sl is not None:
                        desc = (pad, sl[0], sl[1])
                reads.append(desc)
                cur_read = len(reads) - 1
            elif nm == 'from_repr':
                pass
            elif nm == 'unwrap' and t['args']:
                src = strip(o.operand(t['args'][0]))
                if src[0] == 'call' and src[1].get('name') == 'from_repr' and not t['dest']['p']:
                    vals[t['dest']['l']] = cur_read
            elif nm == 'mul_assign':
                ref = r.operand_referent(t['args'][0])
                if ref and ref[0] == 'place' and not ref[1]['p']:
                    mul_target = ref[1]['l']
            elif nm == 'add_assign':
                a = r.operand_referent(t['args'][0])
                bb_ = r.operand_referent(t['args'][1])
                add = (a[1]['l'] if a and a[0] == 'place' and not a[1]['p'] else None,
                       bb_[1]['l'] if bb_ and bb_[0] == 'place' and not bb_[1]['p'] else None)
        rep.sites(len(seq))
        half = L // 2
        ok = (len(reads) == 2 and reads[0] is not None and reads[1] is not None
              and reads[0] == (rbytes - half, 'RangeTo', half) and reads[1] == (rbytes - half, 'RangeFrom', half))
        rep.check(ok, 'BYTES', '%s:from_okm:halves' % short,
                  'first read = %d zero bytes + okm[..%d], second = %d zero bytes + okm[%d..]: two big-endian halves padded to the %d-byte repr' % (rbytes - half, half, rbytes - half, half, rbytes),
                  'reads are %r; expected (%d zero bytes, okm[..%d]) then (%d zero bytes, okm[%d..])' % (reads, rbytes - half, half, rbytes - half, half), where, construct=path)
        ret = strip(o.local(0))
        okm = mul_target is not None and vals.get(mul_target) == 0
        rep.check(okm, 'SHAPE', '%s:from_okm:high-half-scaled' % short, 'the element read from the FIRST half is the one multiplied by 2^%d' % (8 * half),
                  'the multiplication by 2^%d is applied to the element from read #%s (must be the first, most significant, half)' % (8 * half, vals.get(mul_target)), where, construct=path)
        oka = add is not None and add[0] == mul_target and vals.get(add[1]) == 1
        rep.check(oka, 'SHAPE', '%s:from_okm:add-low-half' % short, 'then the element from the second half is added', 'the sum does not add the second half to the scaled first half (%r)' % (add,), where, construct=path)
        # returned value is the accumulated element
        r0 = [s for blk in b.blocks for s in blk['stmts'] if s['k'] == 'assign' and s['place'] == {'l': 0, 'p': []}]
        okr = len(r0) == 1 and op_place(r0[0]['rv'].get('op', ['x'])) == {'l': mul_target, 'p': []}
        rep.check(okr, 'SHAPE', '%s:from_okm:returns-sum' % short, 'returns hi * 2^k + lo', 'does not return the accumulated element', where, construct=path)
        shapes[short] = (len(seq), [c_.get('name') if c_ else None for c_ in [callee(t) for t in seq]])
    rep.floor('SHAPE', 'from_okm-impls', len(shapes), 2)


def rule_fq2(fx, rep):
    path = fx.impl_method('hash_to_field::FromRO', 'bls12_381::fq2::Fq2', 'from_ro')
    b = fx.body(path) if path else None
    if b is None:
        rep.fail('WIRE', 'Fq2:from_ro:anchor', 'FromRO for Fq2 not found')
        return
    rep.fn(path)
    o = Origin(b)
    where = fx.fn(path)['span']
    rep.check(typenum(b.local_ty(1)) == 128, 'BYTES', 'Fq2:from_ro:input-length', '128 bytes', 'input length is %s' % typenum(b.local_ty(1)), where)
    t = strip(o.local(0))
    ok = t[0] == 'agg' and t[1].get('adt', '').endswith('fq2::Fq2') and len(t[2]) == 2
    parts = []
    if ok:
        for comp in t[2]:
            c = strip(comp)
            good = c[0] == 'call' and c[1].get('name') == 'from_okm' and 'fq::Fq' in (c[1].get('res') or c[1].get('self_ty') or '')
            sl = None
            if good:
                a = strip(c[2][0])
                if a[0] == 'call' and a[1].get('name') == 'from_slice':
                    d = strip(a[2][0])
                    if d[0] == 'call' and d[1].get('name') == 'index':
                        base = d[2][0]
                        for _ in range(6):
                            base = strip(base)
                            if base[0] == 'call' and base[1].get('name') in ('deref', 'as_ref', 'as_slice'):
                                base = base[2][0]
                            else:
                                break
                        rg = strip(d[2][1])
                        if strip(base) == ('param', 1) and rg[0] == 'agg' and len(rg[2]) == 1:
                            sl = (rg[1].get('adt', '').rsplit('::', 1)[-1], const_int_term(rg[2][0]))
            parts.append(sl)
    rep.check(ok and parts == [('RangeTo', 64), ('RangeFrom', 64)], 'WIRE', 'Fq2:from_ro:real-part-first',
              'c0 = from_okm(okm[..64]), c1 = from_okm(okm[64..])', 'components are built from %r' % (parts,), where, construct=path)
    # blanket FromRO for BaseFromRO forwards to from_okm
    bl = [i for i in fx.impls_of('hash_to_field::FromRO') if i['generics'] > 0]
    ok = False
    if len(bl) == 1:
        p = [it['def'] for it in bl[0]['items'] if it['name'] == 'from_ro']
        bb = fx.body(p[0]) if p else None
        if bb is not None:
            rep.fn(p[0])
            cs = [callee(tt) for _, tt in bb.calls()]
            ok = len(cs) == 1 and cs[0].get('trait') == 'hash_to_field::BaseFromRO' and cs[0].get('name') == 'from_okm'
    rep.check(ok, 'WIRE', 'FromRO:blanket-forwards', 'FromRO for base fields is from_okm on the same bytes', 'the blanket FromRO impl does not simply forward to BaseFromRO::from_okm')


XMD_SCENARIOS = [
    # (OutputSize, BlockSize, len_in_bytes): SHA-256-like, SHA-512-like, SHA-384-like, SHA3-256-like sizes, and a
    # 1-/2-byte-output abstract hash so that the 255-block boundary is reached with few steps
    (32, 64, 0), (32, 64, 1), (32, 64, 31), (32, 64, 32), (32, 64, 33), (32, 64, 64), (32, 64, 65), (32, 64, 128),
    (64, 128, 48), (64, 128, 64), (64, 128, 96), (64, 128, 130), (48, 128, 100), (28, 64, 60), (32, 136, 70),
    (1, 3, 254), (1, 3, 255), (1, 3, 256), (1, 3, 300), (2, 5, 509), (2, 5, 510), (2, 5, 511),
]


def rule_xmd_semantic(fx, rep):
    """expand_message_xmd interpreted over byte strings (xmd.py): for every scenario the returned bytes equal
    RFC 9380 5.3.1 built in the same domain, or the call aborts exactly when ell > 255."""
    import xmd
    if fx.body(XMD) is None:
        rep.fail('BYTES', 'xmd:anchor', 'ExpandMsgXmd::expand_message not found')
        return
    rep.fn(XMD)
    where = fx.fn(XMD)['span']
    n = 0
    for out, block, ln in XMD_SCENARIOS:
        inst = 'xmd:out=%d,block=%d,len=%d' % (out, block, ln)
        T = xmd.Table()
        R = xmd.Run(fx, XMD, out, block, ln, T)
        try:
            res = R.run()
        except (exp.NotDerivable, exp.Budget) as e:
            rep.fail('BYTES', inst, 'not derivable: %s at %s' % (e, getattr(e, 'where', None)), where, construct=XMD)
            continue
        rep.sites(R.call_sites)
        n += 1
        oc = xmd.outcome(res)
        want = xmd.spec_xmd(out, block, ln, T)
        ell = (ln + out - 1) // out
        if want == 'abort':
            rep.check(oc[0] == 'abort', 'BYTES', inst, 'ell = %d > 255: the call aborts' % ell,
                      'a request for %d blocks (more than 255) returns %s instead of aborting' % (ell, '%d bytes' % len(oc[1]) if oc[0] == 'bytes' else oc[0]), where, construct=XMD)
        else:
            if oc[0] == 'bytes':
                ok = oc[1] == want
                why = '' if ok else xmd.describe_diff(oc[1], want, T)
            else:
                ok = False
                why = 'aborts although ell = %d <= 255' % ell if oc[0] == 'abort' else 'does not return one byte string: %r' % (oc,)
            rep.check(ok, 'BYTES', inst, '%d bytes = (b_1 || .. || b_%d)[0..%d] with b_0 = H(Z_pad(%d) || msg || I2OSP(len,2) || 0 || DST\'), b_1 = H(b_0 || 1 || DST\'), b_i = H((b_0 xor b_(i-1)) || i || DST\')' % (ln, ell, ln, block),
                      why, where, construct=XMD)
    rep.floor('BYTES', 'xmd-scenarios', n, len(XMD_SCENARIOS))


def rule_xof_semantic(fx, rep):
    import xmd
    if fx.body(XOF) is None:
        rep.fail('BYTES', 'xof:anchor', 'ExpandMsgXof::expand_message not found')
        return
    rep.fn(XOF)
    where = fx.fn(XOF)['span']
    n = 0
    for ln in (0, 1, 32, 77, 256, 1000):
        T = xmd.Table()
        R = xmd.Run(fx, XOF, 0, 0, ln, T)
        try:
            res = R.run()
        except (exp.NotDerivable, exp.Budget) as e:
            rep.fail('BYTES', 'xof:len=%d' % ln, 'not derivable: %s at %s' % (e, getattr(e, 'where', None)), where, construct=XOF)
            continue
        rep.sites(R.call_sites)
        n += 1
        oc = xmd.outcome(res)
        want = xmd.spec_xof(ln, T)
        ok = oc[0] == 'bytes' and oc[1] == want
        rep.check(ok, 'BYTES', 'xof:len=%d' % ln, 'H(msg || I2OSP(len,2) || DST || I2OSP(len(DST),1)) squeezed to len bytes',
                  xmd.describe_diff(oc[1], want, T) if oc[0] == 'bytes' else 'does not return one byte string: %r' % (oc[:1],), where, construct=XOF)
    rep.floor('BYTES', 'xof-scenarios', n, 6)


def rule_h2f_semantic(fx, rep):
    """hash_to_field::<T, X>(msg, dst, count), interpreted for several (Length, count): one expand_message(msg, dst, count * Length)
    and element k = from_ro(bytes[k*Length .. (k+1)*Length]) -- whether written as a loop with push, map/collect or chunks."""
    import stdmodel
    from exp import Agg, Int, Ref, TOP
    if fx.body(H2F) is None:
        rep.fail('WIRE', 'hash_to_field:anchor', 'hash_to_field not found')
        return
    rep.fn(H2F)
    where = fx.fn(H2F)['span']
    bad = []
    n = 0
    for L, count in ((64, 0), (64, 1), (64, 2), (128, 2), (48, 3), (48, 1)):
        calls = []

        def val(fr, op):
            v = fr.deref_operand(op)
            for _ in range(6):
                if isinstance(v, Ref):
                    v = fr._project(fr.store.get(v.root, TOP), v.proj)
            return v

        def tr(I, fr, t, c, pth):
            nm = c.get('name')
            targs = ' '.join(c.get('targs') or [])
            if nm == 'to_usize' and 'FromRO>::Length' in targs:
                fr.storev(t['dest'], Int(L))
                return True
            if nm == 'expand_message' and c.get('trait') == 'hash_to_field::ExpandMsg' and len(t['args']) == 3:
                n_ = fr.operand(t['args'][2])
                calls.append((val(fr, t['args'][0]), val(fr, t['args'][1]), n_.v if isinstance(n_, Int) else None, tuple(c.get('targs') or [])))
                if isinstance(n_, Int) and n_.v <= 4096:
                    fr.storev(t['dest'], Agg([('ob', j) for j in range(n_.v)], ('vec', 'Vec')))
                    return True
                return False
            if nm == 'from_slice' and 'GenericArray' in (c.get('res') or c['def']):
                s_ = stdmodel.seq_of(I, fr, t['args'][0])
                if isinstance(s_, Agg):
                    pth.events.append(('from_slice', len(s_.items), 'Length' in targs))
                    if len(s_.items) != L:
                        return 'panic'          # from_slice asserts the length
                    fr.storev(t['dest'], Agg(list(s_.items), ('garr', 'okm')))
                    return True
                return False
            if nm == 'from_ro' and c.get('trait') == 'hash_to_field::FromRO':
                s_ = stdmodel.seq_of(I, fr, t['args'][0])
                if isinstance(s_, Agg):
                    fr.storev(t['dest'], ('elem', tuple(s_.items), tuple(c.get('targs') or [])))
                    return True
                return False
            return False
        I = exp.Interp(fx, 'none', extra_transfer=tr)
        import inline as INL
        I.inline = lambda q: INL.is_private_helper(fx, q)
        I.fork_inlined = True
        try:
            res = I.run(H2F, [Ref('MSG', []), Ref('DST', []), Int(count)], extra={'MSG': 'MSG', 'DST': 'DST'})
        except (exp.NotDerivable, exp.Budget) as e:
            bad.append('Length %d, count %d: not derivable: %s' % (L, count, e))
            continue
        rep.sites(I.call_sites)
        n += 1
        div = [r for r in res if isinstance(r[1], tuple) and r[1] and r[1][0] == 'diverges']
        res = [r for r in res if r not in div]
        if div or len(res) != 1:
            bad.append('Length %d, count %d: %d returning paths, %d panicking' % (L, count, len(res), len(div)))
            continue
        ret = res[0][1]
        want = [tuple(('ob', k * L + j) for j in range(L)) for k in range(count)]
        got = [x[1] if isinstance(x, tuple) and x and x[0] == 'elem' else x for x in (ret.items if isinstance(ret, Agg) else [ret])]
        if not (isinstance(ret, Agg) and got == want):
            bad.append('Length %d, count %d: elements are built from %s' % (L, count, [(_span(g_) if isinstance(g_, tuple) else g_) for g_ in got][:4]))
        if not (len(calls) == 1 and calls[0][0] == 'MSG' and calls[0][1] == 'DST' and calls[0][2] == count * L):
            bad.append('Length %d, count %d: expand_message is called as %r, expected once with (msg, dst, %d)' % (L, count, [c_[:3] for c_ in calls], count * L))
        elif calls[0][3][:1] != ('X',):
            bad.append('expand_message is called on %r, not on the expander type parameter' % (calls[0][3],))
        tys = set(x[2][:1] for x in (ret.items if isinstance(ret, Agg) else []) if isinstance(x, tuple) and x and x[0] == 'elem')
        if tys - {('T',)}:
            bad.append('from_ro is called on %s, not on the element type parameter' % sorted(tys))
    rep.check(not bad and n == 6, 'WIRE', 'hash_to_field', 'one expand_message(msg, dst, count * Length); element k = from_ro(output[k*Length .. (k+1)*Length]) for 6 (Length, count) scenarios',
              '; '.join(bad[:3]), where, construct=H2F)


def _span(t_):
    idx = [x[1] for x in t_ if isinstance(x, tuple) and len(x) == 2 and x[0] == 'ob']
    return 'output[%d..%d]' % (idx[0], idx[-1] + 1) if idx and idx == list(range(idx[0], idx[0] + len(idx))) else 'non-contiguous bytes'


def rule_from_okm_semantic(fx, rep):
    """from_okm (Fq: 64 bytes, Fr: 48 bytes) interpreted over symbolic bytes: the result is fe(0.. || hi) * C + fe(0.. || lo) with
    hi || lo = okm in order, each half short enough to be below the modulus (so the unwraps cannot fail) and C = 2^(8 |lo|) mod p
    (value compared).  FromRO for Fq2 = (from_okm(okm[..64]), from_okm(okm[64..]))."""
    import stdmodel
    from exp import Agg, Int, Ref, TOP, Opt, Either, ConstField
    for ty, width, L, modulus in ((C.FQ, 48, 64, M.Q), (C.FR, 32, 48, M.R_ORDER)):
        short = ty.rsplit('::', 1)[1]
        path = fx.impl_method('hash_to_field::BaseFromRO', ty, 'from_okm')
        if not path or fx.body(path) is None:
            rep.fail('BYTES', '%s:from_okm:anchor' % short, 'not found')
            continue
        rep.fn(path)
        where = fx.fn(path)['span']
        pty = fx.body(path).local_ty(1)
        rep.check(typenum(pty) == L, 'BYTES', '%s:from_okm:length' % short, 'consumes %d bytes' % L, 'parameter type %s' % pty, where)

        def bytes_of(I, fr, op):
            v = fr.operand(op)
            for _ in range(6):
                if isinstance(v, Ref):
                    v = fr._project(fr.store.get(v.root, TOP), v.proj)
            if v is TOP:
                v = fr.deref_operand(op)
                for _ in range(6):
                    if isinstance(v, Ref):
                        v = fr._project(fr.store.get(v.root, TOP), v.proj)
            if isinstance(v, tuple) and v and v[0] == 'cursor':
                return list(v[1])
            if isinstance(v, Agg):
                return list(v.items)
            return None

        def tr(I, fr, t, c, pth):
            nm = c.get('name')
            d = c['def']
            r_ = c.get('res') or d
            a = t['args']
            if nm in ('deref', 'as_ref', 'as_slice', 'borrow') and 'GenericArray' in r_ and len(a) == 1:
                rp = stdmodel.ref_of(fr, a[0])
                fr.storev(t['dest'], Ref(rp[0], rp[1]) if rp is not None else fr.operand(a[0]))
                return True
            if r_.startswith('std::io::Cursor::<T>::new') and len(a) == 1:
                b_ = bytes_of(I, fr, a[0])
                if b_ is None:
                    return False
                fr.storev(t['dest'], ('cursor', tuple(b_)))
                return True
            if nm == 'chain' and c.get('trait') == 'std::io::Read' and len(a) == 2:
                x, y = bytes_of(I, fr, a[0]), bytes_of(I, fr, a[1])
                if x is None or y is None:
                    return False
                fr.storev(t['dest'], ('cursor', tuple(x) + tuple(y)))
                return True
            if nm == 'read_be' and c.get('trait') == 'ff::PrimeFieldRepr' and len(a) == 2:
                v = fr.operand(a[1])
                data = None
                if isinstance(v, tuple) and v and v[0] == 'cursor':
                    data = list(v[1])
                else:
                    # &[u8] (or &mut &[u8]) as a reader
                    import decode2
                    data = decode2.DecoderRun2.take_from_reader(None, I, fr, a[1], width) if isinstance(fr.deref_operand(a[1]), (Ref, Agg)) or isinstance(v, Ref) else None
                    if data is None:
                        b_ = bytes_of(I, fr, a[1])
                        data = b_
                if data is None:
                    return False
                pth.events.append(('read_be', len(data)))
                if len(data) < width:
                    fr.storev(t['dest'], Opt('some', ('short-read',), ('read_be',)))
                    return True
                fr.store_through(a[0], ('be', tuple(data[:width])))
                fr.storev(t['dest'], Opt('none', Agg([]), ('read_be',)))
                return True
            if nm == 'from_repr' and c.get('trait') == 'ff::PrimeField' and len(a) == 1:
                v = fr.operand(a[0])
                if isinstance(v, tuple) and v and v[0] == 'be':
                    z = 0
                    for b_ in v[1]:
                        if isinstance(b_, Int) and b_.v == 0:
                            z += 1
                        else:
                            break
                    in_range = (1 << (8 * (width - z))) <= modulus
                    pth.events.append(('from_repr', width - z, in_range))
                    fe = ('fe', v[1])
                    fr.storev(t['dest'], Opt('none', fe, ('from_repr',)) if in_range else Opt(None, Either(fe, ('range-error',)), ('from_repr',)))
                    return True
                return False
            if c.get('trait') == 'ff::Field' and nm in ('mul_assign', 'add_assign') and len(a) == 2:
                x = fr.deref_operand(a[0])
                y = fr.deref_operand(a[1])
                for _ in range(4):
                    if isinstance(y, Ref):
                        y = fr._project(fr.store.get(y.root, TOP), y.proj)
                if isinstance(y, ConstField):
                    y = ('const', (C.dec_fr_any if ty == C.FR else C.dec_fq_any)(y.v))
                fr.store_through(a[0], ('mul' if nm == 'mul_assign' else 'add', x, y))
                return True
            return stdmodel.result_transfer(I, fr, t, c, pth)
        okm = Agg([('o', j) for j in range(L)], ('garr', 'okm'))
        I = exp.Interp(fx, 'none', extra_transfer=tr)
        import inline as INL
        I.inline = lambda q: INL.is_private_helper(fx, q)
        I.fork_inlined = True
        bad = []
        try:
            res = I.run(path, [Ref('OKM', [])], extra={'OKM': okm})
        except (exp.NotDerivable, exp.Budget) as e:
            res = []
            bad.append('not derivable: %s' % e)
        rep.sites(I.call_sites)
        div = [r for r in res if isinstance(r[1], tuple) and r[1] and r[1][0] == 'diverges']
        oks = [r for r in res if r not in div]
        if div:
            bad.append('%d panicking path(s): an unwrap / read can fail for some input' % len(div))
        if len(oks) != 1 and not bad:
            bad.append('%d returning paths' % len(oks))
        for pth, ret, _ in oks[:1]:
            def norm_add(v):
                if isinstance(v, tuple) and v and v[0] == 'add':
                    return v[1], v[2]
                return None
            ad = norm_add(ret)
            okv = False
            why = 'returns %s' % (_short(ret),)
            if ad:
                for hi_t, lo_t in (ad, (ad[1], ad[0])):
                    if isinstance(hi_t, tuple) and hi_t and hi_t[0] == 'mul' and isinstance(hi_t[1], tuple) and hi_t[1][0] == 'fe' and isinstance(hi_t[2], tuple) and hi_t[2][0] == 'const' \
                            and isinstance(lo_t, tuple) and lo_t and lo_t[0] == 'fe':
                        hb, lb = list(hi_t[1][1]), list(lo_t[1])

                        def split(bs):
                            z = 0
                            while z < len(bs) and isinstance(bs[z], Int) and bs[z].v == 0:
                                z += 1
                            return z, bs[z:]
                        zh, hbytes = split(hb)
                        zl, lbytes = split(lb)
                        if hbytes + lbytes != [('o', j) for j in range(L)]:
                            why = 'the two halves are not okm[..h] and okm[h..] in order (most significant half must be the one that is scaled)'
                            continue
                        cval = hi_t[2][1]
                        want_c = pow(2, 8 * len(lbytes), modulus)
                        cint = cval.v if hasattr(cval, 'v') else cval
                        if cint != want_c:
                            why = 'the high half is scaled by %#x, expected 2^%d mod p' % (cint if isinstance(cint, int) else 0, 8 * len(lbytes))
                            continue
                        okv = True
            if not okv:
                bad.append(why)
        rep.check(not bad, 'BYTES', '%s:from_okm' % short, 'OS2IP(okm) mod p as fe(hi) * 2^(8|lo|) + fe(lo) with both halves below the modulus; no failing unwrap', '; '.join(bad[:3]), where, construct=path)
    # Fq2
    p2 = fx.impl_method('hash_to_field::FromRO', C.FQ2 if hasattr(C, 'FQ2') else 'bls12_381::fq2::Fq2', 'from_ro')
    if p2 and fx.body(p2) is not None:
        rep.fn(p2)

        def tr2(I, fr, t, c, pth):
            nm = c.get('name')
            if nm in ('deref', 'as_ref', 'as_slice', 'borrow') and 'GenericArray' in (c.get('res') or c['def']) and len(t['args']) == 1:
                rp = stdmodel.ref_of(fr, t['args'][0])
                fr.storev(t['dest'], Ref(rp[0], rp[1]) if rp is not None else fr.operand(t['args'][0]))
                return True
            if nm == 'from_slice' and 'GenericArray' in (c.get('res') or c['def']):
                s_ = stdmodel.seq_of(I, fr, t['args'][0])
                if isinstance(s_, Agg):
                    fr.storev(t['dest'], Agg(list(s_.items), ('garr', 'okm')))
                    return True
            if nm == 'from_okm' and c.get('trait') == 'hash_to_field::BaseFromRO':
                s_ = stdmodel.seq_of(I, fr, t['args'][0])
                if isinstance(s_, Agg):
                    fr.storev(t['dest'], ('okm', tuple(s_.items), c.get('self_ty')))
                    return True
            return False
        I = exp.Interp(fx, 'none', extra_transfer=tr2)
        bad = []
        try:
            res = I.run(p2, [Ref('OKM', [])], extra={'OKM': Agg([('o', j) for j in range(128)], ('garr', 'okm'))})
            res = [r for r in res if not (isinstance(r[1], tuple) and r[1] and r[1][0] == 'diverges')]
            ret = res[0][1] if len(res) == 1 else None
            want = [('okm', tuple(('o', j) for j in range(64)), C.FQ), ('okm', tuple(('o', j) for j in range(64, 128)), C.FQ)]
            if not (isinstance(ret, Agg) and ret.items == want):
                bad.append('returns %s' % _short(ret))
        except (exp.NotDerivable, exp.Budget) as e:
            bad.append('not derivable: %s' % e)
        rep.check(not bad, 'BYTES', 'Fq2:from_ro', 'Fq2 = (from_okm(okm[..64]), from_okm(okm[64..])): real part first', '; '.join(bad), fx.fn(p2)['span'], construct=p2)
    else:
        rep.fail('BYTES', 'Fq2:from_ro', 'FromRO for Fq2 not found')


def _short(v):
    s_ = repr(v)
    return s_ if len(s_) < 200 else s_[:200] + '...'


def rules(fx, rep):
    rule_xmd_semantic(fx, rep)
    rule_xof_semantic(fx, rep)
    rule_h2f_semantic(fx, rep)
    C.check_okm_consts(fx, rep)
    rule_from_okm_semantic(fx, rep)


def main(tier, t0):
    return common.standard_main(
        PROP, tier, t0, rules, 'other',
        'expand_message_xmd / _xof are interpreted over a byte-string domain (opaque msg/dst segments, uninterpreted hash, symbolic digest bytes, XOR) for 22 + 6 '
        'scenarios of (OutputSize, BlockSize, len): the returned bytes equal the RFC 9380 5.3 definition built in the same domain, the call aborts exactly when ell > 255 '
        '(boundary scenarios ell = 255 / 256), whatever the shape of the code (chained calls, input statements, helpers, loops or iterators); hash_to_field, from_okm, Fq2 by def-use analysis: field hashing '
        'slices consecutive Length-byte blocks; from_okm splits L bytes into two zero-padded big-endian halves, scales the FIRST by the constant '
        '2^(8 L/2) mod p (value checked) and adds the second; Fq2 = (block 0, block 1). NOT decided: byte-exact digest output as values.',
        ['rustc MIR/type information', 'digest / generic-array / ff crates meet their documented contracts (chain, result, read_be, from_repr)'],
        ['message expansion decided for the listed size scenarios (the code is parametric in the sizes); tags of at most 255 bytes (the property\'s domain)'])

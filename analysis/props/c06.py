"""C06 -- hash_to_curve / encode_to_curve: composition wiring of the RFC 9380 suites."""
import construles as C
from facts import callee
from props import common
from wire import Origin, strip, term_str

PROP = 'C06'
H2C = 'hash_to_curve::HashToCurve'


def const_int_term(t):
    t = strip(t)
    if t[0] == 'const' and isinstance(t[1].get('v'), int) and not isinstance(t[1].get('v'), bool):
        return t[1]['v']
    return None


def rule_hash_wiring(fx, rep):
    impls = fx.impls_of(H2C)
    rep.check(len(impls) == 1 and impls[0]['generics'] > 0, 'WIRE', 'HashToCurve:single-blanket-impl', 'one blanket impl', '%d impls' % len(impls))
    if not impls:
        return
    meths = {it['name']: it['def'] for it in impls[0]['items']}
    import exp
    import inline as INL
    from exp import Agg, Int, Ref, TOP
    for name, count, mapfn in (('hash_to_curve', 2, 'map2_to_curve'), ('encode_to_curve', 1, 'map_to_curve')):
        p = meths.get(name)
        b = fx.body(p) if p else None
        if b is None:
            rep.fail('WIRE', '%s:anchor' % name, 'body not found')
            continue
        rep.fn(p)
        where = fx.fn(p)['span']
        calls = []

        def val(fr, op):
            v = fr.deref_operand(op)
            for _ in range(6):
                if isinstance(v, Ref):
                    v = fr._project(fr.store.get(v.root, TOP), v.proj)
            return v

        def tr(I, fr, t, c, pth):
            nm = c.get('name')
            r_ = c.get('res') or c['def']
            if nm == 'as_ref' and c.get('trait') == 'std::convert::AsRef':
                fr.storev(t['dest'], val(fr, t['args'][0]))
                return True
            if r_ == 'hash_to_field::hash_to_field' and len(t['args']) == 3:
                n_ = fr.operand(t['args'][2])
                calls.append(('h2f', val(fr, t['args'][0]), val(fr, t['args'][1]), n_.v if isinstance(n_, Int) else None, tuple(c.get('res_targs') or c.get('targs') or [])))
                k_ = len([x for x in calls if x[0] == 'h2f'])
                fr.storev(t['dest'], Agg([('u', k_, j_) for j_ in range(n_.v)], ('vec', 'Vec')) if isinstance(n_, Int) and n_.v <= 8 else TOP)
                return True
            if c.get('trait') == 'map_to_curve::MapToCurve' and nm in ('map_to_curve', 'map2_to_curve'):
                calls.append((nm, tuple(val(fr, a_) for a_ in t['args']), tuple(c.get('targs') or [])))
                fr.storev(t['dest'], ('mapped', len(calls)))
                return True
            return False
        I = exp.Interp(fx, 'none', extra_transfer=tr, inline=lambda q: INL.is_private_helper(fx, q))
        I.fork_inlined = True
        try:
            res = I.run(p, ['MSG', 'DST'])
        except (exp.NotDerivable, exp.Budget) as e:
            rep.fail('WIRE', '%s:map-call' % name, 'not derivable: %s' % e, where, construct=p)
            continue
        rep.sites(I.call_sites)
        res = [r for r in res if not (isinstance(r[1], tuple) and r[1] and r[1][0] == 'diverges')]
        h = [x for x in calls if x[0] == 'h2f']
        m = [x for x in calls if x[0] != 'h2f']
        ok = len(res) == 1 and len(m) == 1 and m[0][0] == mapfn and res[0][1] == ('mapped', len(calls))
        rep.check(ok, 'WIRE', '%s:map-call' % name, 'returns MapToCurve::%s of %d field elements' % (mapfn, count),
                  'calls %s and returns %r' % ([x[0] for x in calls], [r[1] for r in res]), where, construct=p)
        if not ok:
            continue
        rep.check(list(m[0][2][:2]) == ['PtT', 'PtT'], 'WIRE', '%s:map-type' % name, 'maps into the hashed-to group itself', 'map call instantiated at %s' % (m[0][2],), where)
        want_elems = tuple(('u', 1, j_) for j_ in range(count))
        rep.check(m[0][1] == want_elems, 'WIRE', '%s:elements' % name, 'passes field elements %s of one hash_to_field result (distinct, in order)' % list(range(count)),
                  'passes %r, expected elements %s of the hash_to_field output (each hashed element must be used exactly once)' % (m[0][1], list(range(count))), where, construct=p)
        okh = len(h) == 1 and h[0][1] == 'MSG' and h[0][2] == 'DST' and h[0][3] == count and len(h[0][4]) == 2 and h[0][4][0] == '<PtT as CurveProjective>::Base' and h[0][4][1] == 'X'
        rep.check(okh, 'WIRE', '%s:hash_to_field-call' % name, 'hash_to_field::<Base, X>(msg, dst, %d)' % count,
                  'hash_to_field is called as %r' % (h,), where, construct=p)


def rules(fx, rep):
    from props import c13, c14, c15, c16, c17
    rule_hash_wiring(fx, rep)
    c14.map_rules(fx, rep)
    sswu = C.check_sswu_consts(fx, rep)
    C.check_iso_tables(fx, rep, sswu)
    c17.rules(fx, rep)
    c13.rule_h2f_semantic(fx, rep)
    C.check_okm_consts(fx, rep)
    c13.rule_from_okm_semantic(fx, rep)
    c13.rule_xmd_semantic(fx, rep)
    c13.rule_xof_semantic(fx, rep)


def main(tier, t0):
    return common.standard_main(
        PROP, tier, t0, rules, 'other',
        'Composition wiring of the suites: hash_to_curve requests exactly 2 elements of the group\'s base field with the caller\'s expander from (msg, dst) and '
        'passes elements 0 and 1 to map2_to_curve; encode_to_curve requests 1 and passes element 0 to map_to_curve; the map layer is SSWU -> isogeny -> (+ on the '
        'target curve) -> clear_h for G1 and G2 (typestate, C14); every constant table of the pipeline (Z, A\', B\', isogeny coefficients, h_eff via the chains, '
        '2^256 / 2^192) is the RFC value; hash_to_field / expand_message structure (C13). The result therefore depends only on (msg, dst) (the crate is pure: C20). '
        'NOT decided: bit-exact agreement of outputs with RFC 9380 vectors (needs the numeric internals of every stage).',
        ['rustc MIR', 'stage contracts C13, C15, C16, C17'],
        ['composition and constants only'])

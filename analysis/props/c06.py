"""C06 -- hash_to_curve / encode_to_curve: composition wiring of the RFC 9380 suites."""
import construles as C
from facts import callee
from props import common
from wire import Origin, strip, term_str

PROP = 'C06'
H2C = 'hash_to_curve::HashToCurve'


def const_int_term(t):
    t = strip(t)
    if t[0] == 'const' and isinstance(t[1].get('v'), int) and not isinstance(t[1].get('v'), bool):
        return t[1]['v']
    return None


def rule_hash_wiring(fx, rep):
    impls = fx.impls_of(H2C)
    rep.check(len(impls) == 1 and impls[0]['generics'] > 0, 'WIRE', 'HashToCurve:single-blanket-impl', 'one blanket impl', '%d impls' % len(impls))
    if not impls:
        return
    meths = {it['name']: it['def'] for it in impls[0]['items']}
    for name, count, mapfn in (('hash_to_curve', 2, 'map2_to_curve'), ('encode_to_curve', 1, 'map_to_curve')):
        p = meths.get(name)
        b = fx.body(p) if p else None
        if b is None:
            rep.fail('WIRE', '%s:anchor' % name, 'body not found')
            continue
        rep.fn(p)
        where = fx.fn(p)['span']
        o = Origin(b)
        t = o.local(0)
        rep.sites(len(list(b.calls())))
        ok = t[0] == 'call' and t[1].get('trait') == 'map_to_curve::MapToCurve' and t[1].get('name') == mapfn and len(t[2]) == count
        if not ok:
            rep.fail('WIRE', '%s:map-call' % name, 'result is %s, expected MapToCurve::%s of %d field elements' % (term_str(t), mapfn, count), where, construct=p)
            continue
        targs = t[1].get('targs') or []
        rep.check(targs[:2] == ['PtT', 'PtT'], 'WIRE', '%s:map-type' % name, 'maps into the hashed-to group itself', 'map call instantiated at %s' % targs, where)
        idxs = []
        srcs = []
        for a in t[2]:
            x = strip(a)
            good = x[0] == 'call' and x[1].get('name') == 'index' and len(x[2]) == 2
            if not good:
                idxs.append(None)
                continue
            idxs.append(const_int_term(x[2][1]))
            srcs.append(strip(x[2][0]))
        rep.check(idxs == list(range(count)), 'WIRE', '%s:elements' % name, 'passes field elements %s (distinct, in order)' % list(range(count)),
                  'passes elements with indices %s, expected %s (each hashed element must be used exactly once)' % (idxs, list(range(count))), where, construct=p)
        ok = bool(srcs) and all(s == srcs[0] for s in srcs) and srcs[0][0] == 'call' and (srcs[0][1].get('res') or srcs[0][1]['def']) == 'hash_to_field::hash_to_field'
        if ok:
            h = srcs[0]
            hargs = h[2]
            ok = strip(hargs[0]) == ('param', 1) and strip(hargs[1]) == ('param', 2) and const_int_term(hargs[2]) == count
            ht = h[1].get('targs') or []
            ok = ok and len(ht) == 2 and ht[0] == '<PtT as CurveProjective>::Base' and ht[1] == 'X'
            rep.check(ok, 'WIRE', '%s:hash_to_field-call' % name, 'hash_to_field::<Base, X>(msg, dst, %d)' % count,
                      'hash_to_field is called as %s with type arguments %s' % (term_str(h), ht), where, construct=p)
        else:
            rep.fail('WIRE', '%s:hash_to_field-call' % name, 'the mapped elements do not come from one hash_to_field call', where, construct=p)


def rules(fx, rep):
    from props import c13, c14, c15, c16, c17
    rule_hash_wiring(fx, rep)
    c14.map_rules(fx, rep)
    sswu = C.check_sswu_consts(fx, rep)
    C.check_iso_tables(fx, rep, sswu)
    c17.rules(fx, rep)
    c13.rule_h2f(fx, rep)
    c13.rule_from_okm(fx, rep)
    c13.rule_fq2(fx, rep)
    c13.rule_xmd_semantic(fx, rep)
    c13.rule_xof_semantic(fx, rep)


def main(tier, t0):
    return common.standard_main(
        PROP, tier, t0, rules, 'other',
        'Composition wiring of the suites: hash_to_curve requests exactly 2 elements of the group\'s base field with the caller\'s expander from (msg, dst) and '
        'passes elements 0 and 1 to map2_to_curve; encode_to_curve requests 1 and passes element 0 to map_to_curve; the map layer is SSWU -> isogeny -> (+ on the '
        'target curve) -> clear_h for G1 and G2 (typestate, C14); every constant table of the pipeline (Z, A\', B\', isogeny coefficients, h_eff via the chains, '
        '2^256 / 2^192) is the RFC value; hash_to_field / expand_message structure (C13). The result therefore depends only on (msg, dst) (the crate is pure: C20). '
        'NOT decided: bit-exact agreement of outputs with RFC 9380 vectors (needs the numeric internals of every stage).',
        ['rustc MIR', 'stage contracts C13, C15, C16, C17'],
        ['composition and constants only'])

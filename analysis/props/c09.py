"""C09 -- tower fields: component-wise linear operations, Frobenius wiring and tables."""
import itertools

import construles as C
import exp
import inline as INL
import mathlib as M
from facts import callee, op_place
from mirutil import Resolver, const_payload, project_value
from props import common
from wire import Origin, strip, term_str

PROP = 'C09'
FIELD = 'ff::Field'
TOWER = [('bls12_381::fq2::Fq2', 'bls12_381::fq::Fq'), ('bls12_381::fq6::Fq6', 'bls12_381::fq2::Fq2'),
         ('bls12_381::fq12::Fq12', 'bls12_381::fq6::Fq6')]


def ncomp(fx, ty):
    a = fx.adts.get(ty)
    return len(a['variants'][0]['fields']) if a else 0


def comp_of(ref, root_local):
    """Component index when `ref` designates field i of *param root_local, else None."""
    if ref is None or ref[0] not in ('place', 'placeval'):
        return None
    p = ref[1]
    if p['l'] != root_local:
        return None
    pr = p['p']
    if len(pr) == 2 and pr[0][0] == 'deref' and pr[1][0] == 'f':
        return pr[1][1]
    return None


def short(ty):
    return ty.rsplit('::', 1)[1]


def real_calls(body):
    return [(bi, t) for bi, t in body.calls()]


class LinV:
    """Element of the free Z-module over named atoms ('1' = the unit of the component field)."""
    __slots__ = ('t',)

    def __init__(self, t):
        self.t = {k: v for k, v in t.items() if v}

    def comb(self, o, a, b):
        d = {k: a * v for k, v in self.t.items()}
        for k, v in o.t.items():
            d[k] = d.get(k, 0) + b * v
        return LinV(d)

    def __eq__(self, o):
        return isinstance(o, LinV) and self.t == o.t

    def __hash__(self):
        return hash(frozenset(self.t.items()))

    def __repr__(self):
        return ' + '.join('%s%s' % ('' if v == 1 else '%d*' % v, k) for k, v in sorted(self.t.items())) or '0'


def tower_value(fx, ty, prefix, idx=''):
    """The element of `ty` with one atom per Fq coefficient (atoms prefix+index path)."""
    comp = dict(TOWER).get(ty)
    if comp is None:
        return LinV({prefix + idx: 1})
    return exp.Agg([tower_value(fx, comp, prefix, idx + str(i)) for i in range(ncomp(fx, ty))])


def tower_const(fx, ty, one):
    comp = dict(TOWER).get(ty)
    if comp is None:
        return LinV({'1': 1} if one else {})
    return exp.Agg([tower_const(fx, comp, one and i == 0) for i in range(ncomp(fx, ty))])


def tower_leaves(v, idx=''):
    if isinstance(v, exp.Agg):
        out = []
        for i, x in enumerate(v.items):
            out += tower_leaves(x, idx + str(i))
        return out
    return [(idx, v)]


def _lin_map(v, w, a, b):
    if isinstance(v, LinV) and (w is None or isinstance(w, LinV)):
        return v.comb(w if w is not None else LinV({}), a, b)
    if isinstance(v, exp.Agg) and (w is None or (isinstance(w, exp.Agg) and len(w.items) == len(v.items))):
        items = [_lin_map(x, None if w is None else w.items[i], a, b) for i, x in enumerate(v.items)]
        return None if any(x is None for x in items) else exp.Agg(items, v.kind)
    if isinstance(v, LinV) and isinstance(w, exp.Agg) or isinstance(v, exp.Agg) and isinstance(w, LinV):
        return None
    return None


def linear_transfer(I, fr, t, c, pth):
    """ff::Field's linear operations on vectors of the free module (any level of the tower)."""
    if c.get('trait') != FIELD:
        return False
    nm = c.get('name')
    args = t['args']
    if nm in ('add_assign', 'sub_assign') and len(args) == 2:
        a, b = fr.deref_operand(args[0]), fr.deref_operand(args[1])
        r = _lin_map(a, b, 1, 1 if nm == 'add_assign' else -1)
    elif nm in ('double', 'negate') and len(args) == 1:
        a = fr.deref_operand(args[0])
        r = _lin_map(a, None, 2 if nm == 'double' else -1, 0)
    elif nm in ('zero', 'one') and not args:
        fr.storev(t['dest'], tower_const(I.facts, c.get('self_ty'), nm == 'one'))
        return True
    else:
        return False
    if r is None:
        return False
    fr.store_through(args[0], r)
    return True


def rule_componentwise(fx, rep):
    n_inst = 0
    for ty, comp in TOWER:
        n = ncomp(fx, ty)
        s = short(ty)
        for op, arity in (('add_assign', 2), ('sub_assign', 2), ('double', 1), ('negate', 1)):
            path = fx.impl_method(FIELD, ty, op)
            b = fx.body(path) if path else None
            inst = '%s::%s' % (s, op)
            if b is None:
                rep.fail('SHAPE', inst, 'impl of Field::%s for %s not found' % (op, ty))
                continue
            rep.fn(path)
            n_inst += 1
            # interpretation in the free Z-module over the components: the component operations are linear maps, so
            # "a + a", "double", "0 - a", "negate" ... all normalise to the same vector whatever calls compute them
            bad = []
            I = exp.Interp(fx, 'none', extra_transfer=linear_transfer, inline=lambda q: INL.is_private_helper(fx, q))
            I.fork_inlined = True
            selfv, otherv = tower_value(fx, ty, 'c'), tower_value(fx, ty, 'd')
            try:
                res = I.run(path, [('byref', selfv)] + ([('byref', otherv)] if arity == 2 else []))
            except (exp.NotDerivable, exp.Budget) as e:
                res = []
                bad.append('not derivable: %s' % e)
            rep.sites(I.call_sites)
            res = [r_ for r_ in res if not (isinstance(r_[1], tuple) and r_[1] and r_[1][0] == 'diverges')]
            if not bad and len(res) != 1:
                bad.append('%d paths: the operation branches on data' % len(res))
            for pth, ret, outs in res[:1]:
                o = outs.get(1)
                got = dict(tower_leaves(o)) if isinstance(o, exp.Agg) else None
                if got is None or set(got) != set(i_ for i_, _ in tower_leaves(selfv)) or not all(isinstance(x, LinV) for x in got.values()):
                    bad.append('self becomes %r' % (o,))
                    continue
                for i, x in sorted(got.items()):
                    want = {'add_assign': {'c%s' % i: 1, 'd%s' % i: 1}, 'sub_assign': {'c%s' % i: 1, 'd%s' % i: -1},
                            'double': {'c%s' % i: 2}, 'negate': {'c%s' % i: -1}}[op]
                    if x.t != want:
                        bad.append('coefficient c%s becomes %s, expected %s' % (i, x, LinV(want)))
                if arity == 2 and isinstance(outs.get(2), exp.Agg) and tower_leaves(outs.get(2)) != tower_leaves(otherv):
                    bad.append('the other operand is modified')
            rep.check(not bad, 'SHAPE', inst, 'component-wise: component i of the result is the %s of the i-th components (decided in the free module over the components)' % op,
                      '; '.join(bad[:3]), fx.fn(path)['span'], construct=path)
        # is_zero: conjunction over all components
        path = fx.impl_method(FIELD, ty, 'is_zero')
        b = fx.body(path) if path else None
        inst = '%s::is_zero' % s
        if b is None:
            rep.fail('SHAPE', inst, 'impl of Field::is_zero for %s not found' % ty)
        else:
            rep.fn(path)
            n_inst += 1
            ok, why = conj_shape(fx, path, n, comp, ty)
            rep.check(ok, 'SHAPE', inst, 'is_zero is the conjunction of is_zero over all %d components' % n, why, fx.fn(path)['span'], construct=path)
        # zero / one
        for op in ('zero', 'one'):
            path = fx.impl_method(FIELD, ty, op)
            b = fx.body(path) if path else None
            inst = '%s::%s' % (s, op)
            if b is None:
                rep.fail('SHAPE', inst, 'impl of Field::%s for %s not found' % (op, ty))
                continue
            rep.fn(path)
            n_inst += 1
            I = exp.Interp(fx, 'none', extra_transfer=linear_transfer, inline=lambda q: INL.is_private_helper(fx, q))
            good, why = True, ''
            try:
                res = I.run(path, [])
                rep.sites(I.call_sites)
                ret = res[0][1] if len(res) == 1 else None
                want = tower_const(fx, ty, op == 'one')
                if not (isinstance(ret, exp.Agg) and tower_leaves(ret) == tower_leaves(want)):
                    good, why = False, '%s() returns %r, expected %r' % (op, ret, want)
            except (exp.NotDerivable, exp.Budget) as e:
                good, why = False, 'not derivable: %s' % e
            rep.check(good, 'SHAPE', inst, '%s() = (%s, 0, ..)' % (op, '1' if op == 'one' else '0'), why, fx.fn(path)['span'], construct=path)
    rep.floor('SHAPE', 'component-wise-ops', n_inst, 21)


def conj_shape(fx, path, n, comp, ty=None):
    """Decide that a bool function returns AND over all Fq coefficients of `self` of "is zero": the element is a tree of
    coefficient atoms, an is_zero call on any sub-tree is the conjunction over its leaves, and every path of the function
    (whatever order, nesting or helper it uses) must return true exactly when all leaves are zero."""
    import tt
    selfv = tower_value(fx, ty, 'c')
    ALL = frozenset(i_ for i_, _ in tower_leaves(selfv))

    def transfer(I, fr, t, c, pth):
        if c.get('trait') == FIELD and c.get('name') == 'is_zero' and len(t['args']) == 1:
            v = fr.deref_operand(t['args'][0])
            lv = tower_leaves(v)
            if not lv or not all(isinstance(x, LinV) and len(x.t) == 1 and list(x.t.values()) == [1] for _, x in lv):
                return False
            fr.storev(t['dest'], ('bool', ('all-zero', frozenset(list(x.t)[0][1:] for _, x in lv))))
            return True
        return linear_transfer(I, fr, t, c, pth)
    I = exp.Interp(fx, 'none', extra_transfer=transfer, max_paths=256, inline=lambda q: INL.is_private_helper(fx, q))
    I.fork_inlined = True
    try:
        res = I.run(path, [('byref', selfv)])
    except (exp.NotDerivable, exp.Budget) as e:
        return False, 'not derivable: %s' % e
    for pth, ret, _ in res:
        s_true, n_false = set(), 0
        for lab, taken in pth.labels:
            x, neg = tt.strip_not(lab)
            if not (isinstance(x, tuple) and x and x[0] == 'all-zero'):
                return False, 'branches on something that is not a zero test of coefficients of self: %r' % (lab,)
            if (taken != 0) != neg:
                s_true |= x[1]
            else:
                n_false += 1
        if isinstance(ret, exp.Int):
            if ret.v and (s_true != ALL or n_false):
                return False, 'returns true although only the coefficients %s were found to be zero (all of %s must be)' % (sorted(s_true), sorted(ALL))
            if not ret.v and not n_false:
                return False, 'returns false on a path that zero satisfies'
            continue
        if isinstance(ret, tuple) and ret and ret[0] == 'bool':
            x, neg = tt.strip_not(ret[1])
            if isinstance(x, tuple) and x and x[0] == 'all-zero' and not neg:
                if n_false:
                    continue        # already known non-zero ... then the result must be false: a zero test of more coefficients may still say true
                if s_true | x[1] != ALL:
                    return False, 'tests the coefficients %s, expected all of %s' % (sorted(s_true | x[1]), sorted(ALL))
                continue
        return False, 'returns %r' % (ret,)
    # paths with a failed zero test must return false (a later symbolic test could say true)
    for pth, ret, _ in res:
        failed = [1 for lab, taken in pth.labels if ((taken != 0) == tt.strip_not(lab)[1])]
        if failed and not (isinstance(ret, exp.Int) and not ret.v):
            return False, 'may return true after a coefficient was found non-zero'
    return True, ''


def _is_one(m):
    try:
        return (isinstance(m, M.F1) and m == M.F1(1)) or (isinstance(m, M.F2) and m == M.F2(1, 0))
    except Exception:
        return False


def canon_leaf(v, prime_leaf):
    """(leaf, conjugated?, non-trivial multipliers) of a value built from one leaf by Frobenius maps with concrete
    powers and multiplications by constants: the Frobenius of Fq is the identity, that of Fq2 has period 2, and
    multiplying by 1 changes nothing.  None when the value is not of that form."""
    prod = M.F2(1, 0)
    while isinstance(v, tuple) and v and v[0] == 'mul':
        if not isinstance(v[2], (M.F1, M.F2)):
            return None
        prod = prod * (v[2] if isinstance(v[2], M.F2) else M.F2(v[2].v, 0))
        v = v[1]
    mults = prod
    conj = 0
    while isinstance(v, tuple) and v and v[0] == 'frob':
        if not isinstance(v[2], int):
            return None
        conj ^= (0 if prime_leaf else v[2] & 1)
        v = v[1]
    if not isinstance(v, str):
        return None
    return (v, conj, mults)


def rule_frobenius(fx, rep):
    """frobenius_map(power) interpreted for every power 0 .. 2*period (+1): every component is first mapped by its own
    Frobenius with the caller's power, then component i is multiplied by exactly gamma_i(power) = (u+1)^((q^power - 1)/d)
    (value compared), whatever loops / locals / table indexing the body uses."""
    import exp
    from exp import Agg, Int, Ref, TOP, ConstField
    spec = {
        'Fq2': (2, lambda a: Agg([a('c0'), a('c1')]), {(1,): 'fq2_c1'}, False),
        'Fq6': (6, lambda a: Agg([a('c0'), a('c1'), a('c2')]), {(1,): 'fq6_c1', (2,): 'fq6_c2'}, True),
        'Fq12': (12, lambda a: Agg([Agg([a('c00'), a('c01'), a('c02')]), Agg([a('c10'), a('c11'), a('c12')])]), {(1, 0): 'fq12_c1', (1, 1): 'fq12_c1', (1, 2): 'fq12_c1'}, True),
    }
    audited = set()
    n_fn = 0
    for ty, comp in TOWER:
        s = short(ty)
        path = fx.impl_method(FIELD, ty, 'frobenius_map')
        if not path or fx.body(path) is None:
            rep.fail('SHAPE', '%s::frobenius_map' % s, 'impl not found')
            continue
        rep.fn(path)
        n_fn += 1
        period, mk, kinds, recursive = spec[s]
        bad = []
        for k in list(range(0, 2 * period + 2)):
            def leafmap(v, f):
                if isinstance(v, Agg):
                    return Agg([leafmap(x, f) for x in v.items], v.kind)
                return f(v)

            def target(fr, op):
                import stdmodel
                v = fr.operand(op)
                for _ in range(6):
                    if isinstance(v, Ref):
                        nxt = fr._project(fr.store.get(v.root, TOP), v.proj)
                        if isinstance(nxt, Ref):
                            v = nxt
                            continue
                    break
                if isinstance(v, Ref):
                    return v
                rp = stdmodel.ref_of(fr, op)
                return Ref(rp[0], rp[1]) if rp is not None else None

            def tr(I, fr, t, c, pth):
                nm = c.get('name')
                if c.get('trait') == FIELD and nm == 'frobenius_map' and len(t['args']) == 2:
                    pw = fr.operand(t['args'][1])
                    r_ = target(fr, t['args'][0])
                    if r_ is None:
                        return False
                    cur = fr._project(fr.store.get(r_.root, TOP), r_.proj)
                    # the power handed to the component's own Frobenius: the caller's power or one that agrees with it
                    # modulo the period of the component's field (2 for Fq2, 6 for Fq6)
                    sub_period = 6 if (c.get('self_ty') or '').endswith('Fq6') else (2 if (c.get('self_ty') or '').endswith('Fq2') else None)
                    okp = isinstance(pw, Int) and (pw.v == k or (sub_period is not None and (pw.v - k) % sub_period == 0))
                    new = leafmap(cur, lambda a_: ('frob', a_, k if okp else ('power', repr(pw))))
                    fr.store[r_.root] = fr._update(fr.store.get(r_.root), list(r_.proj), new) if r_.proj else new
                    return True
                if c.get('trait') == FIELD and nm == 'negate' and len(t['args']) == 1:
                    r_ = target(fr, t['args'][0])
                    if r_ is None:
                        return False
                    cur = fr._project(fr.store.get(r_.root, TOP), r_.proj)
                    new = leafmap(cur, lambda a_: ('mul', a_, M.F1(-1)))
                    fr.store[r_.root] = fr._update(fr.store.get(r_.root), list(r_.proj), new) if r_.proj else new
                    return True
                if c.get('trait') == FIELD and nm == 'mul_assign' and len(t['args']) == 2:
                    r_ = target(fr, t['args'][0])
                    m_ = fr.deref_operand(t['args'][1])
                    for _ in range(4):
                        if isinstance(m_, Ref):
                            m_ = fr._project(fr.store.get(m_.root, TOP), m_.proj)
                    if r_ is None:
                        return False
                    cur = fr._project(fr.store.get(r_.root, TOP), r_.proj)
                    mv = C.dec_field_any(m_.v) if isinstance(m_, ConstField) else ('non-constant', repr(m_)[:60])
                    new = ('mul', cur, mv)
                    fr.store[r_.root] = fr._update(fr.store.get(r_.root), list(r_.proj), new) if r_.proj else new
                    return True
                return False
            I = exp.Interp(fx, 'none', extra_transfer=tr)
            try:
                res = I.run(path, [('byref', mk(lambda n_: n_)), Int(k)])
            except (exp.NotDerivable, exp.Budget) as e:
                bad.append('power %d: not derivable: %s' % (k, e))
                break
            rep.sites(I.call_sites)
            res = [r for r in res if not (isinstance(r[1], tuple) and r[1] and r[1][0] == 'diverges')]
            if len(res) != 1:
                bad.append('power %d: %d paths (a table access can go out of range?)' % (k, len(res)))
                continue
            out = res[0][2].get(1)

            def want_leaf(pathidx, name):
                base = ('frob', name, k) if recursive else name
                kind = kinds.get(pathidx)
                if kind:
                    return ('mul', base, C.frobenius_expected(kind, k % period)), kind
                return base, None

            def walk(v, shape, idx):
                if isinstance(shape, Agg):
                    if not (isinstance(v, Agg) and len(v.items) == len(shape.items)):
                        bad.append('power %d: component %s has the wrong shape' % (k, idx))
                        return
                    for i_, (a_, b_) in enumerate(zip(v.items, shape.items)):
                        walk(a_, b_, idx + (i_,))
                    return
                want, kind = want_leaf(idx, shape)
                cv, cw = canon_leaf(v, not recursive), canon_leaf(want, not recursive)
                ok = (v == want) or (cv is not None and cv == cw)
                if not ok and kind and isinstance(v, tuple) and v and v[0] == 'mul' and v[1] == want[1]:
                    bad.append('power %d: component c%s is multiplied by a value that is not (u+1)^((q^%d - 1)/d)' % (k, ''.join(map(str, idx)), k))
                elif not ok:
                    bad.append('power %d: component c%s becomes %s, expected %s' % (k, ''.join(map(str, idx)), _show(v), _show(want)))
                elif kind:
                    audited.add((kind, k % period))
            walk(out, mk(lambda n_: n_), ())
        rep.check(not bad, 'SHAPE', '%s::frobenius_map' % s, 'for powers 0..%d: components mapped by their own Frobenius with the caller\'s power, then multiplied by exactly gamma_i(power)' % (2 * period + 1),
                  '; '.join(sorted(set(bad))[:3]), fx.fn(path)['span'], construct=path)
    rep.floor('SHAPE', 'frobenius-maps', n_fn, 3)
    rep.check(len(audited) >= 26, 'CONST', 'frobenius-coefficients-count', '%d coefficients audited through their use sites (2 + 6 + 6 + 12)' % len(audited),
              'only %d Frobenius coefficients reached (26 expected)' % len(audited))


def _show(v):
    if isinstance(v, tuple) and v and v[0] == 'mul':
        return '%s * <%s>' % (_show(v[1]), 'gamma' if not isinstance(v[2], tuple) else v[2][0])
    if isinstance(v, tuple) and v and v[0] == 'frob':
        return 'frob^%s(%s)' % (v[2], _show(v[1]))
    return str(v)


def rule_misc(fx, rep):
    # conjugate negates exactly c1
    path = 'bls12_381::fq12::Fq12::conjugate'
    b = fx.body(path)
    if b is None:
        rep.fail('SHAPE', 'Fq12::conjugate', 'Fq12::conjugate not found')
    else:
        rep.fn(path)
        ty12 = TOWER[2][0]
        selfv = tower_value(fx, ty12, 'c')
        I = exp.Interp(fx, 'none', extra_transfer=linear_transfer, inline=lambda q: INL.is_private_helper(fx, q))
        ok, why = True, ''
        try:
            res = I.run(path, [('byref', selfv)])
            rep.sites(I.call_sites)
            o = res[0][2].get(1) if len(res) == 1 else None
            got = dict(tower_leaves(o)) if isinstance(o, exp.Agg) else {}
            for i_, x in tower_leaves(selfv):
                want = LinV({'c' + i_: (-1 if i_.startswith('1') else 1)})
                if got.get(i_) != want:
                    ok, why = False, 'coefficient c%s becomes %s, expected %s' % (i_, got.get(i_), want)
                    break
        except (exp.NotDerivable, exp.Budget) as e:
            ok, why = False, 'not derivable: %s' % e
        rep.check(ok, 'SHAPE', 'Fq12::conjugate', 'c0 unchanged, c1 negated (decided in the free module over the coefficients)', why, fx.fn(path)['span'], construct=path)
    # Fq6::mul_by_nonresidue = (xi*c2, c0, c1) by copy provenance
    path = 'bls12_381::fq6::Fq6::mul_by_nonresidue'
    b = fx.body(path)
    if b is None:
        rep.fail('SHAPE', 'Fq6::mul_by_nonresidue', 'not found')
    else:
        rep.fn(path)

        def transfer(I, fr, t, c, pth):
            d = c['def']
            if d == 'std::mem::swap':
                a = fr.deref_operand(t['args'][0])
                bb = fr.deref_operand(t['args'][1])
                fr.store_through(t['args'][0], bb)
                fr.store_through(t['args'][1], a)
                return True
            if (c.get('res') or d) == 'bls12_381::fq2::Fq2::mul_by_nonresidue':
                a = fr.deref_operand(t['args'][0])
                fr.store_through(t['args'][0], ('nonres', a))
                return True
            return False
        I = exp.Interp(fx, 'none', extra_transfer=transfer)
        init = exp.Agg(['c0', 'c1', 'c2'])
        try:
            res = I.run(path, [('byref', init)])
            outs = [o_[1] for _, _, o_ in res for o_ in [(_, o_.get(1))]]
            good = len(res) == 1 and isinstance(res[0][2].get(1), exp.Agg) and res[0][2][1].items == [('nonres', 'c2'), 'c0', 'c1']
            got = res[0][2].get(1) if res else None
        except (exp.NotDerivable, exp.Budget) as e:
            good, got = False, e
        rep.check(good, 'SHAPE', 'Fq6::mul_by_nonresidue', 'v*(c0,c1,c2) = (xi*c2, c0, c1) by copy provenance',
                  'result components are %r, expected (xi*c2, c0, c1)' % (got,), fx.fn(path)['span'], construct=path)
    # inverse: None only through the base inverse's None
    for ty, comp in TOWER:
        s = short(ty)
        path = fx.impl_method(FIELD, ty, 'inverse')
        b = fx.body(path) if path else None
        if b is None:
            rep.fail('GUARD', '%s::inverse' % s, 'impl not found')
            continue
        rep.fn(path)

        ncomp_ = ncomp(fx, ty)
        rsv = Resolver(b)

        def transfer(I, fr, t, c, pth, rsv=rsv):
            if c.get('trait') == FIELD and c.get('name') == 'inverse':
                fr.storev(t['dest'], exp.Opt(None, exp.TOP, ('inverse', t['span'])))
                return True
            if c.get('trait') == FIELD and c.get('name') == 'is_zero':
                ref = rsv.operand_referent(t['args'][0])
                i = comp_of(ref, 1)
                whole = ref is not None and ref[0] == 'place' and ref[1]['l'] == 1 and ref[1]['p'] == [['deref']]
                from facts import op_place
                p0 = op_place(t['args'][0])
                if p0 is not None and not p0['p'] and p0['l'] == 1:
                    whole = True
                fr.storev(t['dest'], ('bool', ('zero-test', 'self' if whole else i)))
                return True
            if c['def'].startswith('std::option::Option::<T>::map'):
                v = fr.operand(t['args'][0])
                if isinstance(v, exp.Opt):
                    fr.storev(t['dest'], exp.Opt(v.tag, exp.TOP, v.label))
                    return True
            import stdmodel
            return stdmodel.result_transfer(I, fr, t, c, pth)
        I = exp.Interp(fx, 'none', extra_transfer=transfer)
        try:
            res = I.run(path, [('byref', exp.TOP)])
        except (exp.NotDerivable, exp.Budget) as e:
            rep.fail('GUARD', '%s::inverse' % s, 'not derivable: %s' % e, fx.fn(path)['span'])
            continue
        ok = True
        why = ''
        for pth, ret, _ in res:
            if not isinstance(ret, exp.Opt) or not (ret.label and ret.label[0] == 'inverse'):
                # explicit Some/None on a forked path
                import tt as TT
                labs = []
                for l_, tk_ in pth.labels:
                    x_, neg_ = TT.strip_not(l_)
                    if isinstance(x_, tuple) and x_ and x_[0] == 'inverse':
                        # (label, variant): variant 1 = Some; a `?` turns Some into Continue (variant 0), recorded as not(label)
                        labs.append((1 if tk_ != 0 else 0) ^ (1 if neg_ else 0))
                if isinstance(ret, exp.Opt) and ret.tag in ('some', 'none') and labs and len(set(labs)) == 1 and ((labs[0] == 1) == (ret.tag == 'some')):
                    continue
                # an explicit zero guard: None under a condition that says the whole element is zero
                zt = {}
                for lab, v in pth.labels:
                    x, neg = lab, False
                    while isinstance(x, tuple) and x and x[0] == 'not':
                        neg = not neg
                        x = x[1]
                    if isinstance(x, tuple) and x and x[0] == 'zero-test':
                        zt[x[1]] = ((v != 0) != neg)
                if isinstance(ret, exp.Opt) and ret.tag == 'none' and (zt.get('self') is True or all(zt.get(i) is True for i in range(ncomp_))):
                    continue
                ok = False
                why = 'a path returns %s under %r: failure is not tied to the base-field inversion' % (('Option(tag=%r, label=%r)' % (ret.tag, ret.label)) if isinstance(ret, exp.Opt) else repr(ret), pth.labels)
        rep.check(ok, 'GUARD', '%s::inverse' % s, 'None exactly when the inversion of the norm-like element in the subfield is None', why, fx.fn(path)['span'], construct=path)


def rules(fx, rep):
    rule_componentwise(fx, rep)
    rule_frobenius(fx, rep)
    rule_misc(fx, rep)
    from props import c09ring
    c09ring.rules(fx, rep)


def main(tier, t0):
    return common.standard_main(
        PROP, tier, t0, rules, 'other',
        'The linear part of the tower decided by abstract interpretation in the free Z-module over the Fq coefficients: the 12 add/sub/double/negate impls '
        'map coefficient c_i to c_i + d_i / c_i - d_i / 2 c_i / -c_i whatever calls compute it; is_zero returns true exactly when all coefficients are zero '
        '(every path, any nesting); zero/one are (0|1, 0, ..); frobenius_map (interpreted for powers 0..2*period+1) maps every component with the '
        'caller\'s power and multiplies component c_i by exactly gamma_i(power) (values compared; identity powers and unit multipliers normalised); all 26 Frobenius coefficients equal '
        '(u+1)^((q^k-1)/d) (arithmetic on extracted constants); conjugate negates exactly the c1 coefficients; Fq6::mul_by_nonresidue is the rotation '
        '(xi*c2, c0, c1) by copy provenance; inverse() fails only through the subfield inversion. Multiplicative part (RING): mul_assign, square, inverse at the three '
        'levels, mul_by_nonresidue, norm, mul_by_1 / mul_by_01 / mul_by_014 interpreted in the polynomial ring over Fq in the operand coefficients, each call to a tower '
        'operation replaced by its ring specification: every path equals the quotient-ring product coefficient by coefficient (fast paths under their zero assumptions). '
        'NOT decided: the Fq operations themselves (generated Montgomery arithmetic, trusted).',
        ['rustc MIR + const evaluation', 'component operations meet their contracts (induction down to the derive-generated Fq)'],
        ['decided relative to the prime-field contracts; every tower function is an obligation'])

"""C20 -- determinism and thread-safety: effect (purity) analysis of the whole crate."""
import roles
import json
import os
import re
import subprocess
import time

import core
from facts import callee, op_place
from mirutil import Resolver
from props import common
from wire import Origin, strip, term_str

PROP = 'C20'

DENY_PREFIX = (
    'std::thread', 'std::sync', 'std::time', 'std::env', 'std::fs', 'std::net', 'std::process', 'std::os',
    'std::collections::hash_map::RandomState', 'std::hash::RandomState', 'std::collections::hash::map::RandomState',
    'rand::thread_rng', 'rand::random', 'rand::weak_rng', 'rand::os', 'rand::OsRng', 'rand::ThreadRng', 'rand::StdRng',
    'rand::rngs', 'getrandom', 'std::io::stdin', 'std::io::stdout', 'std::io::stderr', 'std::io::stdio',
    'core::ptr::read_volatile', 'core::ptr::write_volatile', 'std::ptr::read_volatile', 'std::ptr::write_volatile',
    'std::alloc::alloc', 'std::alloc::dealloc', 'std::alloc::realloc', 'alloc::alloc',
    'core::sync', 'std::cell', 'core::cell', 'std::rc', 'std::panic::catch_unwind', 'std::backtrace',
    'core::intrinsics::atomic', 'std::intrinsics::atomic', 'core::arch', 'std::arch',
)
INTERIOR = ('UnsafeCell', 'Cell<', 'RefCell', 'Mutex', 'RwLock', 'Atomic', 'OnceCell', 'OnceLock', 'LazyLock', 'Lazy<', 'Rc<', 'Arc<', 'Condvar', 'mpsc', '*mut ', '*const ')
WRITE_ONCE = ('OnceLock', 'LazyLock', 'OnceCell', 'Lazy<', 'std::sync::Once')
UNSAFE_FN_ALLOW = {
    'bls12_381::fq::transmute', 'bls12_381::fr::transmute',
    'CurveProjective::as_tuple_mut', 'CurveAffine::as_tuple_mut',
    'bls12_381::ec::g1::transmute_affine', 'bls12_381::ec::g1::transmute_projective',
    'bls12_381::ec::g2::transmute_affine', 'bls12_381::ec::g2::transmute_projective',
    '<bls12_381::ec::g1::G1Affine as CurveAffine>::as_tuple_mut', '<bls12_381::ec::g1::G1 as CurveProjective>::as_tuple_mut',
    '<bls12_381::ec::g2::G2Affine as CurveAffine>::as_tuple_mut', '<bls12_381::ec::g2::G2 as CurveProjective>::as_tuple_mut',
}
# external code the crate may call: crates whose API is deterministic and free of shared state (the
# DENY_PREFIX list above still applies inside core/alloc), and for the `std` facade only these modules
PURE_CRATES = {'core', 'alloc', 'digest', 'ff_zeroize', 'generic_array', 'typenum', 'zeroize', 'byteorder',
               'rand_core', 'rand_xorshift', 'sha2', 'sha3', 'block_buffer', 'subtle'}
STD_ALLOW = ('std::f64', 'std::f32', 'std::io::', 'std::rt::begin_panic', 'std::rt::panic', 'std::panicking', 'std::error::', 'std::ascii', 'std::path', 'std::ffi')
RNG_TRAITS = ('rand_core::RngCore', 'rand::Rng', 'rand_core::CryptoRng')


def rules(fx, rep):
    # ---- global state
    bad_statics = []
    for s in fx.statics:
        once = any(w in s['ty'] for w in WRITE_ONCE)
        if s['mutable'] or s['thread_local'] or (not s['freeze'] and not once):
            bad_statics.append('%s: %s%s%s at %s' % (s['path'], 'static mut ' if s['mutable'] else '', 'thread_local ' if s['thread_local'] else '', s['ty'], s['span']))
    rep.check(not bad_statics, 'PURE', 'no-mutable-global-state', '%d statics, none mutable / thread-local / interior-mutable' % len(fx.statics),
              'global mutable state: %s' % '; '.join(bad_statics[:3]))
    for s in fx.statics:
        if any(w in s['ty'] for w in WRITE_ONCE):
            rep.notes.append('write-once static %s admitted (deterministic if its initialiser is pure)' % s['path'])
    tls = []
    for b in fx.bodies():
        for blk in b.blocks:
            for s in blk['stmts']:
                if s['k'] == 'assign' and s['rv']['k'] == 'tls':
                    tls.append((b.path, s['span']))
    rep.check(not tls, 'PURE', 'no-thread-local-access', 'no thread-local reference in any body', 'thread-local accessed in %s' % tls[:3])
    # ---- data types: no interior mutability
    n_adt = 0
    bad = []
    for p, a in sorted(fx.adts.items()):
        n_adt += 1
        if a['mono']:
            if not a['freeze']:
                bad.append('%s is not Freeze (contains interior mutability)' % p)
        for v in a['variants']:
            for f in v['fields']:
                if any(w in f['ty'] for w in INTERIOR):
                    bad.append('%s.%s: %s' % (p, f['name'], f['ty']))
    rep.check(not bad, 'PURE', 'no-interior-mutability', 'all %d data types are free of UnsafeCell / raw pointers / locks / atomics (compiler Freeze query + field types)' % n_adt,
              'shared mutable state possible: %s' % '; '.join(bad[:4]))
    rep.floor('PURE', 'data-types', n_adt, 23)
    # ---- unsafe inventory
    ui = [i for i in fx.impls if i.get('safety') == 'Unsafe' and not (i.get('expn') or '').startswith('Macro(Derive')]
    rep.check(not ui, 'PURE', 'no-unsafe-impl', 'no hand-written unsafe impl (Send/Sync are auto-derived from field types)', 'unsafe impls: %s' % [(i['trait'], i['self_ty'], i['span']) for i in ui][:3])
    derived_unsafe = sorted(set(i['trait'] for i in fx.impls if i.get('safety') == 'Unsafe'))
    rep.check(set(derived_unsafe) <= {'std::clone::TrivialClone'}, 'PURE', 'derive-generated-unsafe-impls', 'only the compiler\'s TrivialClone marker from #[derive(Clone)]', 'unsafe impls of %s' % derived_unsafe)
    ub = [u for u in fx.unsafe_blocks if u['source'] == 'UserProvided']
    evalr = roles.roles(fx).get('iso_evaluator')
    # every hand-written unsafe block lives in the isogeny evaluator and is a coordinate write-back: one as_tuple_mut() of
    # the evaluator's own exclusive reference per block, nothing else (the same decision as C16's evaluator rule)
    from props import c16
    foreign = [(u['owner'], u['span']) for u in ub if u['owner'] != evalr]
    probs, n_ub = (c16.evaluator_unsafe_problems(fx, evalr) if evalr is not None else (['isogeny evaluator not found'], 0))
    rep.check(not foreign and not probs, 'PURE', 'unsafe-blocks', 'unsafe blocks (%d) only in the isogeny evaluator, each one write-back through as_tuple_mut of its own &mut argument' % n_ub,
              ('unsafe blocks outside the evaluator: %s' % foreign) if foreign else '; '.join(probs[:3]))
    b = fx.body(evalr) if evalr is not None else None
    if b is not None:
        unsafe_callees = [t for _, t in b.calls() if (fx.fn((callee(t) or {}).get('res') or (callee(t) or {}).get('def') or '') or {}).get('unsafe')]
        atm_ = [t for _, t in b.calls() if (callee(t) or {}).get('name') == 'as_tuple_mut']
        rep.check(len(unsafe_callees) == len(atm_), 'PURE', 'unsafe-block-content', 'the only unsafe operation is as_tuple_mut(pt) on the function\'s own exclusive reference',
                  'unsafe callees in the evaluator: %s' % [(callee(t) or {}).get('def') for t in unsafe_callees])
    uf = sorted(p for p, f in fx.fns.items() if f.get('unsafe'))
    rep.check(set(uf) <= UNSAFE_FN_ALLOW, 'PURE', 'unsafe-fns', '%d unsafe fns, all raw constructors / coordinate accessors (no pointer or FFI work inside)' % len(uf),
              'new unsafe fns: %s' % sorted(set(uf) - UNSAFE_FN_ALLOW))
    rep.check(not fx.foreign, 'PURE', 'no-foreign-items', 'no extern blocks / foreign types / global asm', 'foreign items: %s' % fx.foreign[:3])
    # ---- bodies: casts, asm, raw pointers, deny-listed callees, RNG discipline
    n_bodies = 0
    n_calls = 0
    badcast = []
    badasm = []
    deny = []
    rng_bad = []
    rawptr = []
    unaudited = []
    n_ext = 0
    for b in fx.bodies():
        n_bodies += 1
        rep.fn(b.path)
        o = None
        for blk in b.blocks:
            for s in blk['stmts']:
                if s['k'] == 'assign':
                    rv = s['rv']
                    if rv['k'] == 'cast' and rv['kind'] not in ('IntToInt', 'IntToFloat', 'FloatToInt', 'FloatToFloat') and not rv['kind'].startswith('PointerCoercion'):
                        if not s.get('expn'):
                            badcast.append((b.path, rv['kind'], s['span']))
                    if rv['k'] == 'rawptr' and not s.get('expn') and 'FakeForPtrMetadata' not in rv.get('kind', ''):
                        rawptr.append((b.path, s['span']))
            t = blk['term']
            if t['k'] == 'asm':
                badasm.append((b.path, t['span']))
        for bi, t in b.calls():
            n_calls += 1
            c = callee(t)
            if c is None:
                continue
            for cand in (c.get('res') or '', c['def']):
                if any(cand.startswith(p) or cand.startswith('<' + p) for p in DENY_PREFIX):
                    if not t.get('expn') or not cand.startswith('std::fmt'):
                        deny.append((b.path, cand, t['span']))
                    break
            for key in ('def', 'res'):
                pth_ = c.get(key)
                if not pth_ or c.get(key + '_local') or (key + '_crate') not in c:
                    continue
                kr = c[key + '_crate']
                n_ext += 1
                if kr in PURE_CRATES:
                    continue
                bare = pth_.lstrip('<&')
                if kr == 'std' and any(bare.startswith(a) for a in STD_ALLOW):
                    continue
                unaudited.append((b.path, '%s (crate %s)' % (pth_, kr), t['span']))
            if c.get('trait') in RNG_TRAITS:
                if o is None:
                    o = Origin(b)
                src = strip(o.operand(t['args'][0])) if t['args'] else ('unknown',)
                for _ in range(8):
                    # a field of / reborrow of / closure capture of the caller's generator is still the caller's generator
                    if src[0] == 'proj':
                        src = strip(src[1])
                    elif src[0] == 'call' and src[1] and src[1].get('name') in ('deref', 'deref_mut', 'borrow_mut', 'as_mut', 'by_ref') and src[2]:
                        src = strip(src[2][0])
                    else:
                        break
                if src[0] != 'param':
                    rng_bad.append((b.path, c['def'], term_str(src), t['span']))
            nm = (c.get('res') or c['def'])
            if 'SeedableRng' in nm or 'thread_rng' in nm or 'from_entropy' in nm or 'OsRng' in nm:
                rng_bad.append((b.path, nm, 'constructs a generator', t['span']))
    rep.sites(n_calls)
    rep.check(not badcast, 'PURE', 'no-pointer-int-casts', 'no pointer<->integer or transmuting casts in %d bodies' % n_bodies, 'casts: %s' % badcast[:3])
    rep.check(not rawptr, 'PURE', 'no-raw-pointers', 'no raw pointer is taken', 'raw pointers: %s' % rawptr[:3])
    rep.check(not badasm, 'PURE', 'no-inline-asm', 'no inline assembly', 'asm in %s' % badasm[:3])
    rep.check(not deny, 'PURE', 'no-ambient-authority-calls', 'no call (resolved, whole crate, %d call sites) into threads, locks, atomics, clocks, environment, files, network, OS randomness, hashing seeds, volatile or raw allocation APIs' % n_calls,
              'calls into non-deterministic / shared-state APIs: %s' % ['%s calls %s at %s' % d for d in deny[:4]])
    rep.check(not unaudited and n_ext > 0, 'PURE', 'external-calls-only-into-audited-crates',
              'all %d external callees (declared and resolved) live in %s or the audited part of std (%s)' % (n_ext, sorted(PURE_CRATES), ', '.join(STD_ALLOW) + '; console streams excluded'),
              'calls into code outside the audited deterministic set: %s' % ['%s calls %s at %s' % d for d in unaudited[:4]])
    rep.floor('PURE', 'external-callees', n_ext, 3000)
    rep.check(not rng_bad, 'PURE', 'rng-only-through-explicit-parameter', 'random-number methods are only invoked on a generator passed in by the caller; no generator is constructed',
              'hidden randomness: %s' % ['%s: %s on %s at %s' % r for r in rng_bad[:3]])
    rep.floor('PURE', 'bodies', n_bodies, 400)
    # ---- the only reused scratch state: wNAF context buffers are emptied before refill
    from props import c02
    c02.rule_buffers(fx, rep)
    c02.rule_staging(fx, rep)
    # ---- caller-provided table buffers: the tables written by precomp_3 / precomp_256 (and hence the
    # products computed from them) do not depend on what the buffer held before the call
    import bitlin
    bitlin.rule_scalar_mul(fx, rep, c02.GROUPS)
    # ---- prepared elements
    from props import c03
    c03.rule_prepared_types(fx, rep)


def witness(rep):
    """Type-level witnesses: compile-pass (Send + Sync + Copy ...) and compile_fail doctests."""
    wdir = os.path.join(core.VERIF, 'witness')
    try:
        import shutil
        shutil.copy(os.path.join(core.REPO, 'Cargo.lock'), os.path.join(wdir, 'Cargo.lock'))
    except OSError:
        pass
    env = dict(os.environ)
    env['CARGO_NET_OFFLINE'] = 'true'
    env['CARGO_TARGET_DIR'] = os.path.join(wdir, 'target')
    t0 = time.time()
    r = subprocess.run(['cargo', '+nightly', 'test', '--doc', '--offline'], cwd=wdir, env=env, stdout=subprocess.PIPE, stderr=subprocess.STDOUT, text=True)
    out = r.stdout
    m = re.search(r'test result: (\w+)\. (\d+) passed; (\d+) failed', out)
    ok = r.returncode == 0 and m and m.group(1) == 'ok' and int(m.group(3)) == 0
    n = int(m.group(2)) if m else 0
    failed = re.findall(r'^test (.*) \.\.\. FAILED', out, re.M)
    rep.check(bool(ok) and n >= 20, 'TYPE', 'witness-doctests', '%d compile-pass / compile_fail witnesses hold (%.0fs)' % (n, time.time() - t0),
              'witness crate: %s (%d passed); failed: %s' % ('build/test failure' if not m else m.group(0), n, failed[:5] or out[-400:]))
    return n


def main(tier, t0):
    rep = common.run_rules(PROP, tier, rules)
    extra = {'configurations': [c for c, _ in common.configs(tier)]}
    if tier == 'thorough':
        extra['witnesses'] = witness(rep)
        extra['controls'] = common.run_controls(PROP, rules, rep)
        extra['benign_edits'] = common.run_benign(PROP, rules, rep)
    return core.finish(
        rep, tier, 'proof', t0,
        'Effect (purity) analysis over every body, type and item of the crate as compiled: no static mut / thread_local / interior-mutable static; every data type '
        'is Freeze and holds no raw pointer, lock or atomic; no hand-written unsafe impl; the unsafe inventory is one audited block (coordinate write-back on the function\'s '
        'own &mut) plus the documented unsafe constructors; no foreign item, inline asm, raw pointer, pointer/integer cast; no resolved call into threads, synchronisation, clocks, '
        'environment, file system, network, OS randomness or hash seeding; RNG methods only on a generator the caller passes in; the reused wNAF buffers are emptied before refill. '
        'Hence every operation is a function of its explicit arguments, safe Rust excludes data races on Freeze + Send + Sync values, and there is no lock to deadlock on. '
        'Thorough tier adds compile-pass / compile_fail type witnesses (Send + Sync + Copy, private fields, borrow rules of the staged wNAF API).',
        ['soundness of safe Rust (no data races without unsafe / interior mutability)', 'rustc type checking and MIR', 'std and the dependency crates do not hide global state behind the (pure-looking) APIs used: ff, digest, byteorder, zeroize'],
        ['dependency crates are trusted by API, not analysed body-by-body'], extra=extra)

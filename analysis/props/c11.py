"""C11 -- products of pairings: shares the Miller-loop scenario analysis with C03."""
from props import common, c03

PROP = 'C11'


def rules(fx, rep):
    c03.rule_miller(fx, rep)
    c03.rule_wiring(fx, rep)
    c03.rule_prepared_types(fx, rep)
    from props import c12
    c12.rules(fx, rep)


def main(tier, t0):
    return common.standard_main(
        PROP, tier, t0, rules, 'other',
        'Narrow: abstract interpretation of the joint Miller loop for 0, 1 and 2 pairs with identities at every position (21 scenarios): identity pairs are '
        'skipped wherever they occur, every remaining pair consumes exactly its own coefficient list in order (producer/consumer agreement with '
        'G2Prepared::from_affine), squarings are shared; the product helpers pair p[i] with q[i] and call one final_exponentiation on one miller_loop; prepared '
        'elements are Freeze, fields private, no &mut API => reusable; final exponentiation exponent as in C12. NOT decided: that the product equals the product '
        'of pairings as values (numerical), list lengths above 2 (the loop over pairs is uniform, but no induction is attempted).',
        ['rustc MIR', 'line-function and Fq12 contracts', 'C12'],
        ['bounded in the number of pairs (0..2), exhaustive in identity placement'])

"""Byte-buffer model of the stream (de)serializers of points (C19).

The input stream is a sequence of symbolic bytes S_0, S_1, ... (bit 7 of S_0 is fixed by the
scenario); buffers are arrays of byte values whatever container holds them (Vec, the encoding
newtypes, slices split with split_at_mut ...).  `read_exact` fills the designated slice with the
next stream bytes, `copy_from_slice` / `append` / `extend_from_slice` move byte values, the point
decoders are uninterpreted and record the exact byte array they were given.  Writers record the
exact byte array written.  The rules then state WHAT must be read / decoded / written, not how the
code shuffles its buffers."""
import exp
import stdmodel
from exp import Agg, Int, KBits, Opt, Ref, TOP, NotDerivable
from construles import const_fn_value

ENC = 'EncodedPoint'


class SByte(KBits):
    """The k-th byte of the input stream (known bits as in KBits)."""
    __slots__ = ('idx',)

    def __init__(self, idx, mask=0, val=0):
        KBits.__init__(self, mask, val)
        self.idx = idx

    def __repr__(self):
        return 'S%d' % self.idx


def resolve(fr, v, depth=8):
    for _ in range(depth):
        if isinstance(v, Ref):
            nxt = fr._project(fr.store.get(v.root, TOP), v.proj)
            if nxt is TOP and isinstance(v.root, int) and not v.proj and ('*', v.root) in fr.store:
                # a reference to a by-reference parameter: the parameter's referent
                nxt = fr.store[('*', v.root)]
            v = nxt
        else:
            break
    return v


def referent(fr, op):
    """What a (possibly doubly indirect) reference operand finally designates."""
    v = resolve(fr, fr.deref_operand(op))
    if v is TOP:
        v = resolve(fr, fr.operand(op))
    return v


def view_of(fr, op):
    """(root, base projection, lo, hi) of the byte slice a `&[u8]` / `&mut [u8]` operand designates, or None.
    Slice views are references whose projection ends in ['off', k, n] entries."""
    v = fr.operand(op)
    if not isinstance(v, Ref):
        rp = stdmodel.ref_of(fr, op)
        if rp is None:
            # a by-reference parameter of an inlined helper (or a temporary): its referent value, read-only
            val = fr.deref_operand(op)
            if isinstance(val, Agg):
                key = ('view-tmp', id(val), len(fr.store))
                fr.store[key] = val
                v = Ref(key, [])
            else:
                return None
        else:
            v = Ref(rp[0], rp[1])
    # follow references to references
    for _ in range(6):
        tgt = fr._project(fr.store.get(v.root, TOP), [e for e in v.proj if e[0] != 'off'])
        if isinstance(tgt, Ref):
            offs = [e for e in v.proj if e[0] == 'off']
            v = Ref(tgt.root, list(tgt.proj) + offs)
        else:
            break
    base = [e for e in v.proj if e[0] != 'off']
    arr = fr._project(fr.store.get(v.root, TOP), base)
    # newtype around the byte array (the encoding types): descend
    if isinstance(arr, Agg) and len(arr.items) == 1 and isinstance(arr.items[0], Agg) and arr.kind and arr.kind[0] not in ('vec',):
        base = base + [['f', 0]]
        arr = arr.items[0]
    if not isinstance(arr, Agg):
        return None
    lo, hi = 0, len(arr.items)
    for e in v.proj:
        if e[0] == 'off':
            lo += e[1]
            if len(e) > 2 and e[2] is not None:
                hi = min(hi, lo + e[2])
    return v.root, base, lo, hi


def view_items(fr, vw):
    root, base, lo, hi = vw
    arr = fr._project(fr.store.get(root, TOP), base)
    return list(arr.items[lo:hi])


def view_write(fr, vw, items):
    root, base, lo, hi = vw
    for k, it in enumerate(items):
        fr.store[root] = fr._update(fr.store.get(root), list(base) + [['ci', lo + k, 0, False]], it)


class Model:
    """extra_transfer for both directions."""

    def __init__(self, fx, b7=0, reader_local=1, writer_local=2):
        self.fx = fx
        self.b7 = b7
        self.reader_local = reader_local
        self.writer_local = writer_local

    def size_of(self, ty):
        sz = const_fn_value(self.fx, self.fx.impl_method(ENC, ty, 'size'))
        return sz if isinstance(sz, int) else None

    def on_stream(self, fr, op, local):
        rd = fr.res.operand_referent(op)
        if rd is not None and rd[0] == 'place' and rd[1]['l'] == local:
            return True
        v = fr.operand(op)
        return isinstance(v, Ref) and v.root == ('STREAM', local)

    def transfer(self, I, fr, t, c, pth):
        fx = self.fx
        name = c.get('name')
        trait = c.get('trait')
        d = c['def']
        res = c.get('res') or d
        args = t['args']
        dest = t['dest']
        where = t['span']
        # ---------------------------------------------------------------- encodings as byte arrays
        if trait == ENC and name == 'size':
            sz = self.size_of(c.get('self_ty'))
            if sz is not None:
                fr.storev(dest, Int(sz))
                return True
            return False
        if trait == ENC and name == 'empty':
            sz = self.size_of(c.get('self_ty'))
            if sz is not None:
                fr.storev(dest, Agg([Agg([Int(0)] * sz)], ('enc', c.get('self_ty'))))
                return True
            return False
        if trait == ENC and name == 'from_affine':
            sz = self.size_of(c.get('self_ty'))
            src = fr.operand(args[0])
            if sz is not None:
                fr.storev(dest, Agg([Agg([('eb', c.get('self_ty'), src, j) for j in range(sz)])], ('enc', c.get('self_ty'))))
                return True
            return False
        if trait in ('std::convert::AsRef', 'std::convert::AsMut') and name in ('as_ref', 'as_mut') and len(args) == 1:
            rp = stdmodel.ref_of(fr, args[0])
            if rp is not None:
                v = fr._project(fr.store.get(rp[0], TOP), rp[1])
                if isinstance(v, Agg) and v.kind and v.kind[0] == 'enc':
                    fr.storev(dest, Ref(rp[0], list(rp[1]) + [['f', 0]]))
                    return True
                fr.storev(dest, Ref(rp[0], rp[1]))
                return True
            v = fr.deref_operand(args[0])
            if isinstance(v, Agg) and v.kind and v.kind[0] == 'enc':
                key = ('tmp', id(t), len(pth.events))
                fr.store[key] = v
                fr.storev(dest, Ref(key, [['f', 0]]))
                return True
            return False
        # ---------------------------------------------------------------- field elements on streams
        if name == 'read_be' and trait == 'ff::PrimeFieldRepr' and len(args) == 2:
            k = fr.store.get('N_READS', Int(0)).v
            fr.store['N_READS'] = Int(k + 1)
            src = referent(fr, args[1])
            pth.events.append(('repr-read', k, src == 'READER', c.get('self_ty'), where))
            fr.store_through(args[0], ('repr', k))
            fr.storev(dest, Opt(None, exp.Either(Agg([]), ('io-error', 'read', k)), ('read', k)))
            return True
        if name == 'from_repr' and trait == 'ff::PrimeField' and len(args) == 1:
            v = fr.operand(args[0])
            k = v[1] if isinstance(v, tuple) and v and v[0] == 'repr' else None
            pth.events.append(('from_repr', k, c.get('self_ty'), where))
            fr.storev(dest, Opt(None, exp.Either(('fe', k, c.get('self_ty')), ('range-error', k)), ('from_repr', k)))
            return True
        if name == 'into_repr' and trait == 'ff::PrimeField' and len(args) == 1:
            fr.storev(dest, ('repr_of', fr.deref_operand(args[0]), c.get('self_ty')))
            return True
        if name == 'write_be' and trait == 'ff::PrimeFieldRepr' and len(args) == 2:
            v = fr.deref_operand(args[0])
            src = v[1] if isinstance(v, tuple) and v and v[0] == 'repr_of' else ('?', repr(v))
            width = {'bls12_381::fq::FqRepr': 48, 'bls12_381::fr::FrRepr': 32}.get(c.get('self_ty'))
            if width is None:
                return False
            data = [('cb', src, j) for j in range(width)]
            k = sum(1 for e in pth.events if e[0] in ('stream-write', 'buffer-write'))
            tgt = referent(fr, args[1])
            direct0 = fr.operand(args[1])
            is_view = isinstance(direct0, Ref) and any(e[0] == 'off' for e in direct0.proj)
            if tgt == 'WRITER':
                pth.events.append(('stream-write', 'write_be', data, True, where))
            elif isinstance(tgt, Agg) and tgt.kind and tgt.kind[0] == 'vec' and not is_view:
                # Vec<u8> as a writer: appends
                w = fr.operand(args[1])
                for _ in range(6):
                    nxt = fr._project(fr.store.get(w.root, TOP), w.proj) if isinstance(w, Ref) else None
                    if isinstance(nxt, Ref):
                        w = nxt
                    else:
                        break
                if not isinstance(w, Ref):
                    return False
                fr.store[w.root] = fr._update(fr.store.get(w.root), list(w.proj), Agg(list(tgt.items) + data, tgt.kind)) if w.proj else Agg(list(tgt.items) + data, tgt.kind)
                pth.events.append(('buffer-write', 'write_be', len(data), where))
            else:
                # `&mut [u8]` as a writer (a chunk of a local buffer): the bytes land at the start of the view; too short
                # a view is a WriteZero error, a view that is long enough cannot fail
                direct = fr.operand(args[1])
                vw = view_of(fr, args[1]) if isinstance(direct, Ref) or isinstance(tgt, (Agg, Ref)) else None
                if vw is not None and (is_view or not (isinstance(tgt, Agg) and tgt.kind and tgt.kind[0] == 'vec')):
                    root_, base_, lo_, hi_ = vw
                    if hi_ - lo_ >= width:
                        for j_, b_ in enumerate(data):
                            fr.store[root_] = fr._update(fr.store.get(root_), list(base_) + [['ci', lo_ + j_, 0, False]], b_)
                        pth.events.append(('buffer-write', 'write_be', len(data), where))
                        fr.storev(dest, Opt('none', Agg([]), ('write', k, where)))
                        return True
                pth.events.append(('stream-write', 'write_be', data, False, where))
            fr.storev(dest, Opt(None, exp.Either(Agg([]), ('io-error', 'write', k)), ('write', k, where)))
            return True
        # ---------------------------------------------------------------- reading
        if trait == 'std::io::Read' and name in ('read_exact', 'read', 'read_to_end', 'read_to_string', 'read_vectored', 'read_buf', 'read_buf_exact', 'bytes', 'take', 'by_ref', 'chain'):
            on_reader = self.on_stream(fr, args[0], self.reader_local)
            pos = fr.store.get('STREAM_POS', Int(0)).v
            if name == 'read_exact' and len(args) == 2:
                vw = view_of(fr, args[1])
                if vw is None:
                    pth.events.append(('buffer-unknown', where))
                    fr.storev(dest, ('io_result', pos))
                    return True
                n = vw[3] - vw[2]
                pth.events.append(('stream-read', name, n, on_reader, where))
                items = []
                for k in range(n):
                    idx = pos + k
                    items.append(SByte(idx, 0x80, self.b7 << 7) if idx == 0 else SByte(idx))
                view_write(fr, vw, items)
                fr.store['STREAM_POS'] = Int(pos + n)
                fr.storev(dest, ('io_result', pos))
                return True
            pth.events.append(('stream-read', name, None, on_reader, where))
            fr.storev(dest, TOP)
            return True
        # ---------------------------------------------------------------- moving bytes
        if name == 'copy_from_slice' and len(args) == 2:
            dv, sv = view_of(fr, args[0]), view_of(fr, args[1])
            if dv is None or sv is None:
                pth.events.append(('copy-unrecognised', where))
                return True
            src = view_items(fr, sv)
            if dv[3] - dv[2] != len(src):
                pth.events.append(('copy-length-mismatch', dv[3] - dv[2], len(src), where))
                return 'panic'
            view_write(fr, dv, src)
            fr.storev(dest, Agg([]))
            return True
        if name in ('split_at_mut', 'split_at') and len(args) == 2:
            vw = view_of(fr, args[0])
            k = stdmodel.as_int(fr.operand(args[1]))
            if vw is None or k is None:
                return False
            root, base, lo, hi = vw
            if k > hi - lo:
                pth.events.append(('split-out-of-range', k, hi - lo, where))
                return 'panic'
            fr.storev(dest, Agg([Ref(root, list(base) + [['off', lo, k]]), Ref(root, list(base) + [['off', lo + k, hi - lo - k]])]))
            return True
        if name == 'to_vec' and len(args) == 1:
            vw = view_of(fr, args[0])
            if vw is not None:
                fr.storev(dest, Agg(view_items(fr, vw), ('vec', 'Vec')))
                return True
            return False
        if 'std::vec::Vec' in res and name == 'extend_from_slice' and len(args) == 2:
            cur = fr.deref_operand(args[0])
            vw = view_of(fr, args[1])
            if isinstance(cur, Agg) and vw is not None:
                fr.store_through(args[0], Agg(list(cur.items) + view_items(fr, vw), cur.kind))
                fr.storev(dest, Agg([]))
                return True
            return False
        # ---------------------------------------------------------------- decoding
        if name in ('into_affine', 'into_affine_unchecked') and trait == ENC:
            v = resolve(fr, fr.deref_operand(args[0]))
            ty = c.get('self_ty')
            data = v.items[0].items if isinstance(v, Agg) and v.kind and v.kind[0] == 'enc' and v.items and isinstance(v.items[0], Agg) else None
            pth.events.append(('decode', name, ty, list(data) if data is not None else None, where))
            # decoder contract (C04's decision tables): a form flag contradicting the encoding type is always rejected
            forced_err = False
            if data and isinstance(data[0], KBits) and (data[0].mask & 0x80):
                is_comp = ty.endswith('Compressed') and not ty.endswith('Uncompressed')
                if ((data[0].val >> 7) & 1) != (1 if is_comp else 0):
                    forced_err = True
            lab = ('decode', ty, name, where)
            if forced_err:
                fr.storev(dest, Opt('some', ('decode-error', ty), lab))
            else:
                fr.storev(dest, Opt(None, ('decoded', ty, name), lab))
            return True
        if name == 'in_subgroup' and trait == 'SubgroupCheck' and len(args) == 1:
            # the full membership predicate (curve equation and order) applied to the result of an unchecked decoder:
            # what the checked decoder would have done itself
            v = fr.deref_operand(args[0])
            if isinstance(v, tuple) and len(v) == 3 and v[0] == 'decoded' and v[2] == 'into_affine_unchecked':
                fr.storev(dest, ('bool', ('validated', v[1], where)))
                return True
            return False
        if name == 'into_projective' and trait == 'CurveAffine':
            fr.storev(dest, ('proj', fr.deref_operand(args[0])))
            return True
        if name == 'into_affine' and trait == 'CurveProjective':
            fr.storev(dest, ('affine_of', fr.deref_operand(args[0])))
            return True
        # ---------------------------------------------------------------- Result plumbing
        if name == 'branch' and trait == 'std::ops::Try':
            v = fr.operand(args[0])
            r = as_result(v)
            if r is not None and r[0] in ('Ok', 'Err'):
                fr.storev(dest, Opt('none', r[1]) if r[0] == 'Ok' else Opt('some', ('residual-of', r[1])))
                return True
            if isinstance(v, Opt) and v.tag is None:
                # an undecided Result: Continue(payload) / Break(residual), consistent with the Result's own label
                fr.storev(dest, Opt(None, v.payload, v.label))
                return True
            fr.storev(dest, Opt(None, ('try', v), ('try', v if isinstance(v, tuple) else repr(v), where)))
            return True
        if name == 'from_residual':
            fr.storev(dest, ('residual', fr.operand(args[0])))
            return True
        if res.startswith('std::io::Error::new') or d.startswith('std::io::Error::new'):
            fr.storev(dest, ('io_error', fr.operand(args[0]), fr.operand(args[1])))
            return True
        # ---------------------------------------------------------------- writing
        if trait == 'std::io::Write' and name in ('write_all', 'write', 'write_vectored', 'flush', 'write_fmt'):
            on_writer = self.on_stream(fr, args[0], self.writer_local)
            data = None
            if len(args) > 1:
                vw = view_of(fr, args[1])
                if vw is not None:
                    data = view_items(fr, vw)
            pth.events.append(('stream-write', name, data, on_writer, where))
            k = sum(1 for e in pth.events if e[0] == 'stream-write')
            fr.storev(dest, Opt(None, Agg([]), ('write', k, where)))
            return True
        return stdmodel.result_transfer(I, fr, t, c, pth)


def as_result(v):
    """('Ok'|'Err', payload) of an abstract Result value, ('?', v) if undecided, None if not a Result."""
    if isinstance(v, Agg) and v.kind and isinstance(v.kind[0], str) and v.kind[0].endswith('result::Result'):
        return (v.kind[1], v.items[0] if v.items else None)
    if isinstance(v, Opt):
        if v.tag == 'none':
            return ('Ok', v.payload)
        if v.tag == 'some':
            return ('Err', v.payload)
        return ('?', v)
    if isinstance(v, tuple) and v and v[0] == 'residual':
        return ('Err', v)
    return None


def expand_undecided(results):
    """A path that returns an undecided two-sided value (e.g. `decoder(..).map_err(..)` returned as it is) stands for
    two outcomes: split it into two paths, each with the deciding label appended."""
    out = []
    for pth, ret, outs in results:
        o = stdmodel.two_variant(ret, True)
        if o is not None and o.tag is None:
            for variant in (0, 1):
                np_ = exp.Path()
                np_.labels = list(pth.labels) + [(o.label, variant)]
                np_.events = list(pth.events)
                out.append((np_, Opt('some' if variant else 'none', stdmodel.side(o, variant), o.label), outs))
        else:
            out.append((pth, ret, outs))
    return out

"""WIRE: def-use origin terms, call-graph queries, who-may-call tables."""
from facts import op_place, op_const, callee, fmt_place
from mirutil import Resolver


class Origin:
    """Backward def-use tracing through single-definition temporaries.

    Terms:  ('param', i) | ('const', cdict) | ('call', fnref, [terms], span, bb)
            | ('ref', term) | ('proj', term, proj) | ('agg', kind, [terms]) | ('cast', term)
            | ('binop', op, a, b) | ('unop', op, a) | ('phi', local)   (multiple definitions)
            | ('unknown', why)
    """

    def __init__(self, body):
        self.body = body
        self.res = Resolver(body)
        self._memo = {}

    def operand(self, op, depth=0):
        c = op_const(op)
        if c is not None:
            return ('const', c)
        p = op_place(op)
        if p is None:
            return ('unknown', 'operand')
        return self.place(p, depth)

    def place(self, p, depth=0):
        if depth > 40:
            return ('unknown', 'depth')
        if p['p']:
            # split leading derefs of reference temporaries
            np_ = self.res.norm_place(p)
            base = self.local(np_['l'], depth + 1)
            if np_['p']:
                return ('proj', base, tuple(tuple(x) for x in np_['p']))
            return base
        return self.local(p['l'], depth + 1)

    def local(self, l, depth=0):
        if l in self._memo:
            return self._memo[l]
        if 1 <= l <= self.body.arg_count:
            t = ('param', l)
            # a parameter may be re-assigned, ignore: MIR never assigns to args in this crate w/o mut
            if not self.res.d.defs[l]:
                self._memo[l] = t
                return t
        d = self.res.d.defs[l]
        if len(d) != 1:
            t = ('phi', l, len(d))
            self._memo[l] = t
            return t
        self._memo[l] = ('unknown', 'cycle')
        d = d[0]
        if d[0] == 'call':
            term = d[2]
            c = callee(term)
            args = [self.operand(a, depth + 1) for a in term['args']]
            t = ('call', c, args, term['span'], d[1])
        else:
            rv = d[3]['rv']
            k = rv['k']
            if k == 'use':
                t = self.operand(rv['op'], depth + 1)
            elif k in ('ref', 'rawptr'):
                t = ('ref', self.place(rv['place'], depth + 1))
            elif k == 'cast':
                t = ('cast', self.operand(rv['op'], depth + 1), rv['kind'])
            elif k == 'agg':
                t = ('agg', rv['kind'], [self.operand(o, depth + 1) for o in rv['ops']])
            elif k == 'binop':
                t = ('binop', rv['op'], self.operand(rv['a'], depth + 1), self.operand(rv['b'], depth + 1))
            elif k == 'unop':
                t = ('unop', rv['op'], self.operand(rv['a'], depth + 1))
            elif k == 'discr':
                t = ('discr', self.place(rv['place'], depth + 1))
            elif k == 'repeat':
                t = ('repeat', self.operand(rv['op'], depth + 1), rv['n'])
            else:
                t = ('unknown', k)
        self._memo[l] = t
        return t


def strip(t):
    """Remove value-transparent wrappers: refs, unsize casts, AsRef/Deref/Borrow/Into/clone
    calls and reborrows."""
    while True:
        if t[0] == 'ref':
            t = t[1]
        elif t[0] == 'cast' and (t[2].startswith('PointerCoercion') or t[2] in ('PtrToPtr',)):
            t = t[1]
        elif t[0] == 'proj' and all(e[0] == 'deref' for e in t[2]):
            t = t[1]
        elif t[0] == 'call' and t[1] is not None and (
                (t[1].get('trait') in ('std::convert::AsRef', 'std::convert::AsMut', 'std::ops::Deref', 'std::ops::DerefMut',
                                       'std::borrow::Borrow', 'std::clone::Clone') and len(t[2]) == 1)):
            t = t[2][0]
        else:
            return t


def is_call_to(t, trait=None, name=None, def_suffix=None):
    if t[0] != 'call' or t[1] is None:
        return False
    c = t[1]
    if trait is not None and c.get('trait') != trait:
        return False
    if name is not None and c.get('name') != name:
        return False
    if def_suffix is not None and not c['def'].endswith(def_suffix):
        return False
    return True


def term_str(t, depth=0):
    if depth > 6:
        return '..'
    k = t[0]
    if k == 'param':
        return 'param%d' % t[1]
    if k == 'const':
        c = t[1]
        if 'fn' in c:
            return 'fn'
        if 'def' in c:
            return c['def'] + ('::promoted' if 'promoted' in c else '')
        v = c.get('v')
        return repr(v) if isinstance(v, (int, bool)) else 'const<%s>' % c.get('ty')
    if k == 'call':
        c = t[1]
        nm = (c.get('res') or c['def']) if c else 'indirect'
        return '%s(%s)' % (nm, ', '.join(term_str(a, depth + 1) for a in t[2]))
    if k == 'ref':
        return '&' + term_str(t[1], depth + 1)
    if k == 'proj':
        return term_str(t[1], depth + 1) + ''.join('.%s' % (e[1] if e[0] in ('f', 'ci') else e[0]) for e in t[2])
    if k == 'agg':
        return '{%s}' % ', '.join(term_str(a, depth + 1) for a in t[2])
    if k in ('cast',):
        return term_str(t[1], depth + 1)
    if k == 'binop':
        return '%s(%s, %s)' % (t[1], term_str(t[2], depth + 1), term_str(t[3], depth + 1))
    if k == 'unop':
        return '%s(%s)' % (t[1], term_str(t[2], depth + 1))
    return '%s' % (t,)


# ---------------------------------------------------------------- call graph
class CallGraph:
    """Whole-crate call graph over resolved callees.  Generic trait-method calls that
    could not be resolved statically are linked to *every* local impl of that method
    (sound over-approximation)."""

    def __init__(self, fx):
        self.fx = fx
        self.edges = {}
        self.sites = {}    # callee path -> list of (caller path, span)
        trait_impls = {}
        for i in fx.impls:
            if i.get('trait'):
                for it in i['items']:
                    trait_impls.setdefault((i['trait'], it['name']), []).append(it['def'])
        for b in fx.bodies():
            out = set()
            for bi, t in b.calls():
                c = callee(t)
                if c is None:
                    continue
                targets = []
                res = c.get('res')
                if res:
                    targets.append(res)
                else:
                    targets.append(c['def'])
                    if c.get('trait'):
                        targets += trait_impls.get((c['trait'], c.get('name')), [])
                        td = fx.trait_default(c['trait'], c.get('name'))
                        if td:
                            targets.append(td)
                for tg in targets:
                    out.add(tg)
                    self.sites.setdefault(tg, []).append((b.path, t['span']))
            # closures defined in the body belong to it
            for blk in b.blocks:
                for s in blk['stmts']:
                    if s['k'] == 'assign' and s['rv']['k'] == 'agg' and 'closure' in s['rv']['kind']:
                        out.add(s['rv']['kind']['closure'])
            self.edges[b.path] = out

    def reach(self, root):
        seen = {root}
        st = [root]
        while st:
            x = st.pop()
            for y in self.edges.get(x, ()):
                if y not in seen:
                    seen.add(y)
                    st.append(y)
        return seen

    def reaches(self, root, pred):
        return any(pred(x) for x in self.reach(root))

    def path_to(self, root, pred):
        """One call path root -> ... -> x with pred(x), for diagnostics."""
        prev = {root: None}
        st = [root]
        while st:
            x = st.pop(0)
            if pred(x) and x != root:
                out = [x]
                while prev[out[-1]] is not None:
                    out.append(prev[out[-1]])
                return list(reversed(out))
            for y in sorted(self.edges.get(x, ())):
                if y not in prev:
                    prev[y] = x
                    st.append(y)
        return None

    def callers(self, target):
        return sorted(set(c for c, _ in self.sites.get(target, [])))

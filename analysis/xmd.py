"""Byte-string domain for the message-expansion functions (C13).

`expand_message` is interpreted over a free monoid of byte strings: the caller's `msg` and `dst`
are opaque segments of unknown length, a hash invocation is an uninterpreted function of the
sequence of absorbed parts, digests are arrays of symbolic bytes, XOR of two symbolic bytes is a
symbolic byte.  The generic hash's sizes (output, block) and the requested length are scenario
parameters, so every loop has a known trip count.  The value returned is compared, byte for byte,
with the RFC 9380 section 5.3 definition built in the same domain.  How the code assembles the
strings (chained `.chain()` calls, `input()` statements, a `Vec` for DST_prime, a helper function,
index loops or iterator chains for the XOR) does not matter."""
import exp
import stdmodel
from exp import Agg, Int, Opt, Ref, TOP, NotDerivable

DIGEST_TRAITS = ('digest::Digest', 'digest::Input', 'digest::FixedOutput', 'digest::ExtendableOutput', 'digest::Reset', 'digest::BlockInput')


def nb(v):
    """Normalised byte value (hashable)."""
    if isinstance(v, Int):
        return ('lit', v.v & 0xff)
    if isinstance(v, tuple):
        return v
    return ('?', repr(v))


def xor(a, b):
    a, b = nb(a), nb(b)
    if a[0] == 'lit' and b[0] == 'lit':
        return ('lit', a[1] ^ b[1])
    if a == ('lit', 0):
        return b
    if b == ('lit', 0):
        return a
    return ('xor',) + tuple(sorted([a, b], key=repr))


class Table:
    """Interning of hash invocations: equal absorbed sequences give the same digest."""

    def __init__(self):
        self.ids = {}
        self.parts = []

    def digest(self, parts):
        key = tuple(parts)
        if key not in self.ids:
            self.ids[key] = len(self.parts)
            self.parts.append(key)
        return self.ids[key]


def norm_parts(parts):
    out = []
    for p in parts:
        out.append(p if (isinstance(p, tuple) and p and p[0] == 'seg') else nb(p))
    return out


class Run:
    def __init__(self, fx, path, out_size, block_size, ln, table, dst_max=255):
        self.fx, self.path = fx, path
        self.out, self.block, self.ln = out_size, block_size, ln
        self.table = table
        self.hashes = 0
        self.dst_max = dst_max

    # ---- helpers
    def size_of(self, targs):
        s = ' '.join(targs or [])
        if 'BlockSize' in s:
            return self.block
        if 'OutputSize' in s:
            return self.out
        return None

    def bytes_of(self, I, fr, op):
        """Parts (segments / byte values) designated by an operand: array, slice, Vec, GenericArray, &[u8] parameter."""
        v = fr.operand(op)
        for _ in range(6):
            if isinstance(v, Ref):
                v = fr._project(fr.store.get(v.root, TOP), v.proj)
            else:
                break
        if v is TOP:
            v = fr.deref_operand(op)
            for _ in range(6):
                if isinstance(v, Ref):
                    v = fr._project(fr.store.get(v.root, TOP), v.proj)
        if isinstance(v, tuple) and v and v[0] == 'seg':
            return [v]
        if isinstance(v, tuple) and v and v[0] == 'bstr':
            return list(v[1])
        if isinstance(v, Agg):
            return list(v.items)
        return None

    def transfer(self, I, fr, t, c, pth):
        name = c.get('name')
        trait = c.get('trait')
        d = c['def']
        res = c.get('res') or d
        args = t['args']
        dest = t['dest']
        where = t['span']
        targs = c.get('targs') or []
        # sizes of the generic hash
        if name == 'to_usize' and 'Unsigned' in d:
            n = self.size_of(targs)
            if n is not None:
                fr.storev(dest, Int(n))
                return True
            return False
        if name == 'output_size' and trait == 'digest::Digest':
            fr.storev(dest, Int(self.out))
            return True
        # hasher construction
        if (trait == 'digest::Digest' and name == 'new') or (name == 'default' and targs and targs[0] == 'HashT'):
            fr.storev(dest, ('hasher', ()))
            return True
        # absorbing
        if trait in ('digest::Digest', 'digest::Input') and name in ('chain', 'input', 'update') and len(args) == 2:
            parts = self.bytes_of(I, fr, args[1])
            if parts is None:
                raise NotDerivable('hashed data is not a modelled byte string', where)
            if name == 'chain':
                h = fr.operand(args[0])
                if isinstance(h, tuple) and h and h[0] == 'hasher':
                    fr.storev(dest, ('hasher', h[1] + tuple(norm_parts(parts))))
                    return True
                raise NotDerivable('chain on something that is not a fresh or chained hasher', where)
            h = fr.deref_operand(args[0])
            if isinstance(h, tuple) and h and h[0] == 'hasher':
                fr.store_through(args[0], ('hasher', h[1] + tuple(norm_parts(parts))))
                fr.storev(dest, Agg([]))
                return True
            raise NotDerivable('input on something that is not a hasher', where)
        # finishing
        if (trait in ('digest::Digest', 'digest::FixedOutput') and name in ('result', 'fixed_result')) and len(args) == 1:
            h = fr.operand(args[0])
            if isinstance(h, tuple) and h and h[0] == 'hasher':
                did = self.table.digest(h[1])
                self.hashes += 1
                fr.storev(dest, Agg([('byte', did, j) for j in range(self.out)], ('garr', 'digest')))
                return True
            raise NotDerivable('result of something that is not a hasher', where)
        if trait == 'digest::Digest' and name == 'digest' and len(args) == 1:
            parts = self.bytes_of(I, fr, args[0])
            if parts is None:
                raise NotDerivable('hashed data is not a modelled byte string', where)
            did = self.table.digest(tuple(norm_parts(parts)))
            self.hashes += 1
            fr.storev(dest, Agg([('byte', did, j) for j in range(self.out)], ('garr', 'digest')))
            return True
        if trait == 'digest::ExtendableOutput' and name == 'vec_result' and len(args) == 2:
            h = fr.operand(args[0])
            n = stdmodel.as_int(fr.operand(args[1]))
            if isinstance(h, tuple) and h and h[0] == 'hasher' and n is not None:
                did = self.table.digest(('xof',) + h[1])
                self.hashes += 1
                fr.storev(dest, Agg([('byte', did, j) for j in range(n)], ('vec', 'Vec')))
                return True
            raise NotDerivable('XOF output of unknown length / hasher', where)
        # zero-initialised arrays whose length is a type-level size of the hash
        if name == 'default' and 'GenericArray' in res:
            n = self.size_of(targs)
            if n is not None:
                fr.storev(dest, Agg([Int(0)] * n, ('garr', 'zeros')))
                return True
            return False
        # views
        if name in ('deref', 'deref_mut', 'as_ref', 'as_mut', 'as_slice', 'as_mut_slice', 'borrow') and ('GenericArray' in res or 'generic_array' in res):
            rp = stdmodel.ref_of(fr, args[0])
            if rp is not None:
                fr.storev(dest, Ref(rp[0], rp[1]))
                return True
            fr.storev(dest, fr.operand(args[0]))
            return True
        # lengths of the opaque segments
        if name == 'len' and res.startswith('core::slice::<impl [T]>::len'):
            parts = self.bytes_of(I, fr, args[0])
            if parts is not None and len(parts) == 1 and isinstance(parts[0], tuple) and parts[0][0] == 'seg':
                fr.storev(dest, ('len', parts[0][1]))
                return True
            if parts is not None and all(not (isinstance(p, tuple) and p and p[0] == 'seg') for p in parts):
                fr.storev(dest, Int(len(parts)))
                return True
            return False
        # Vec<u8> construction from segments (DST_prime built first, etc.)
        if 'std::vec::Vec' in res and name in ('extend_from_slice', 'push', 'extend'):
            cur = fr.deref_operand(args[0])
            add = self.bytes_of(I, fr, args[1]) if name != 'push' else [fr.operand(args[1])]
            if add is None and name == 'extend':
                itv = stdmodel.as_iter(I, fr, args[1])
                add = stdmodel.drain(I, itv, where) if itv is not None else None
            curp = list(cur.items) if isinstance(cur, Agg) else (list(cur[1]) if isinstance(cur, tuple) and cur and cur[0] == 'bstr' else None)
            if curp is None or add is None:
                return False
            allp = curp + list(add)
            if any(isinstance(p, tuple) and p and p[0] == 'seg' for p in allp):
                fr.store_through(args[0], ('bstr', tuple(allp)))
            else:
                fr.store_through(args[0], Agg(allp, ('vec', 'Vec')))
            fr.storev(dest, Agg([]))
            return True
        if name == 'to_vec' or (name == 'concat' and 'slice' in res):
            parts = self.bytes_of(I, fr, args[0])
            if parts is not None:
                if name == 'concat':
                    flat = []
                    for p in parts:
                        sub = p
                        if isinstance(sub, Ref):
                            sub = fr._project(fr.store.get(sub.root, TOP), sub.proj)
                        if isinstance(sub, Agg):
                            flat.extend(sub.items)
                        elif isinstance(sub, tuple) and sub and sub[0] in ('seg',):
                            flat.append(sub)
                        elif isinstance(sub, tuple) and sub and sub[0] == 'bstr':
                            flat.extend(sub[1])
                        else:
                            return False
                    parts = flat
                if any(isinstance(p, tuple) and p and p[0] == 'seg' for p in parts):
                    fr.storev(dest, ('bstr', tuple(parts)))
                else:
                    fr.storev(dest, Agg(list(parts), ('vec', 'Vec')))
                return True
            return False
        if trait == 'std::ops::BitXor' and name == 'bitxor' and len(args) == 2:
            a, b = fr.operand(args[0]), fr.operand(args[1])
            r = xor(a, b)
            fr.storev(dest, Int(r[1], 8) if r[0] == 'lit' else r)
            return True
        return False

    def cast_hook(self, rv, a):
        ty = rv.get('ty')
        if rv.get('kind') != 'IntToInt':
            return None
        bits = {'u8': 8, 'u16': 16, 'u32': 32, 'u64': 64, 'usize': 64, 'i32': 32, 'i64': 64, 'u128': 128}.get(ty)
        if isinstance(a, Int) and bits:
            return Int(a.v & ((1 << bits) - 1), bits)
        if isinstance(a, tuple) and a and a[0] == 'len':
            # dst is at most 255 bytes (the property's domain): its length fits every integer type
            return ('lenb', a[1]) if a[1] == 'dst' else None
        if isinstance(a, tuple) and a and a[0] == 'lenb':
            return a
        return None

    def binop_hook(self, op, a, b):
        # byte XOR on symbolic digest bytes
        if op == 'BitXor' and b is not None:
            ok = lambda v: isinstance(v, Int) or (isinstance(v, tuple) and v and v[0] in ('byte', 'xor', 'lenb', 'lit'))
            if ok(a) and ok(b) and not (isinstance(a, Int) and isinstance(b, Int)):
                r = xor(a, b)
                return Int(r[1], 8) if r[0] == 'lit' else r
        # masking the length of dst (at most dst_max <= 255 in the property's domain) with a mask that keeps the low octet
        if op == 'BitAnd' and b is not None:
            for x, y in ((a, b), (b, a)):
                if isinstance(x, tuple) and x and x[0] in ('len', 'lenb') and x[1] == 'dst' and isinstance(y, Int) and (y.v & 0xff) == 0xff and self.dst_max <= 255:
                    return x
        # comparisons with the length of dst: 0 <= len(dst) <= dst_max
        if b is not None and op in ('Gt', 'Ge', 'Lt', 'Le', 'Eq', 'Ne'):
            for x, y, flip in ((a, b, False), (b, a, True)):
                if isinstance(x, tuple) and x and x[0] in ('len', 'lenb') and x[1] == 'dst' and isinstance(y, Int):
                    o = op
                    if flip:
                        o = {'Gt': 'Lt', 'Lt': 'Gt', 'Ge': 'Le', 'Le': 'Ge'}.get(op, op)
                    k = y.v
                    lo, hi = 0, self.dst_max
                    always = {'Gt': lo > k, 'Ge': lo >= k, 'Lt': hi < k, 'Le': hi <= k, 'Eq': False, 'Ne': k < lo or k > hi}[o]
                    never = {'Gt': hi <= k, 'Ge': hi < k, 'Lt': lo >= k, 'Le': lo > k, 'Eq': k < lo or k > hi, 'Ne': False}[o]
                    if always:
                        return Int(1, 1)
                    if never:
                        return Int(0, 1)
        return None

    def run(self):
        I = exp.Interp(self.fx, 'none', extra_transfer=self.transfer, max_steps=3000000, max_paths=16)
        I.cast_hook = self.cast_hook
        I.binop_hook = self.binop_hook
        I.propagate_hooks = True
        I.fork_inlined = True
        import inline as INL
        I.inline = lambda q: INL.is_private_helper(self.fx, q)
        res = I.run(self.path, [Ref('MSG', []), Ref('DST', []), Int(self.ln)], extra={'MSG': ('seg', 'msg'), 'DST': ('seg', 'dst')})
        self.call_sites = I.call_sites
        return res


# ------------------------------------------------------------------ RFC 9380 section 5.3 in the same domain
def dst_prime():
    return [('seg', 'dst'), ('lenb', 'dst')]


def spec_xmd(out, block, ln, table):
    """expand_message_xmd(msg, DST, len_in_bytes) for a hash with the given sizes: list of bytes, or 'abort'."""
    ell = (ln + out - 1) // out
    if ell > 255 or ln > 65535:
        return 'abort'
    b0 = table.digest(tuple(norm_parts([Int(0)] * block + [('seg', 'msg'), Int(ln >> 8), Int(ln & 0xff), Int(0)] + dst_prime())))
    prev = table.digest(tuple(norm_parts([('byte', b0, j) for j in range(out)] + [Int(1)] + dst_prime())))
    blocks = [prev]
    for i in range(2, ell + 1):
        x = [xor(('byte', b0, j), ('byte', prev, j)) for j in range(out)]
        prev = table.digest(tuple(norm_parts(x + [Int(i)] + dst_prime())))
        blocks.append(prev)
    outb = []
    for d in blocks:
        outb.extend(('byte', d, j) for j in range(out))
    return [nb(x) for x in outb[:ln]]


def spec_xof(ln, table):
    if ln > 65535:
        return 'abort'
    d = table.digest(('xof',) + tuple(norm_parts([('seg', 'msg'), Int(ln >> 8), Int(ln & 0xff)] + dst_prime())))
    return [nb(('byte', d, j)) for j in range(ln)]


def outcome(res):
    """('abort',) | ('bytes', [..]) | ('mixed', ..) for the results of one run."""
    div = [r for r in res if isinstance(r[1], tuple) and r[1] and r[1][0] == 'diverges']
    oks = [r for r in res if r not in div]
    if div and not oks:
        return ('abort',)
    if len(oks) == 1 and not div:
        v = oks[0][1]
        if isinstance(v, Agg):
            return ('bytes', [nb(x) for x in v.items])
        return ('other', v)
    return ('mixed', len(oks), len(div))


def describe_diff(got, want, table):
    if len(got) != len(want):
        return 'returns %d bytes, expected %d' % (len(got), len(want))
    for i, (a, b) in enumerate(zip(got, want)):
        if a != b:
            def show(x):
                if x[0] == 'byte':
                    return 'byte %d of H(%s)' % (x[2], show_parts(table.parts[x[1]], table))
                return repr(x)
            # descend to the innermost hash invocation whose absorbed sequence differs
            x, y = a, b
            for _ in range(4):
                if not (x[0] == 'byte' and y[0] == 'byte' and x[1] != y[1]):
                    break
                px, py = table.parts[x[1]], table.parts[y[1]]
                inner = None
                for u, v in zip(px, py):
                    if u != v:
                        if isinstance(u, tuple) and isinstance(v, tuple) and u and v and u[0] == 'byte' and v[0] == 'byte' and u[1] != v[1]:
                            inner = (u, v)
                        break
                if inner is None:
                    break
                x, y = inner
            if x[0] == 'byte' and y[0] == 'byte':
                return 'output byte %d: a hash invocation absorbs %s where RFC 9380 prescribes %s' % (i, show_parts(table.parts[x[1]], table), show_parts(table.parts[y[1]], table))
            return 'output byte %d is %s, expected %s' % (i, show(a), show(b))
    return 'differs'


def show_parts(parts, table, depth=0):
    out = []
    run = []

    def flush():
        if run:
            if all(p[0] == 'lit' for p in run):
                if len(run) > 6 and len(set(run)) == 1:
                    out.append('%d x 0x%02x' % (len(run), run[0][1]))
                else:
                    out.append('[' + ' '.join('%02x' % p[1] for p in run[:8]) + (' ..' if len(run) > 8 else '') + ']')
            elif all(p[0] == 'byte' for p in run) and len(set(p[1] for p in run)) == 1:
                out.append('H#%d[%d..%d]' % (run[0][1], run[0][2], run[-1][2] + 1))
            elif all(p[0] == 'xor' for p in run):
                out.append('xor-block(%d bytes)' % len(run))
            else:
                out.append('%d bytes' % len(run))
            del run[:]
    for p in parts:
        if p == 'xof':
            out.append('XOF')
            continue
        if p[0] == 'seg':
            flush()
            out.append(p[1])
        elif p[0] == 'lenb':
            flush()
            out.append('len(%s)' % p[1])
        else:
            if run and (run[-1][0] != p[0] or (p[0] == 'byte' and run[-1][1] != p[1])):
                flush()
            run.append(p)
    flush()
    return ' || '.join(out)

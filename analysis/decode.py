"""Decision-table analysis of the point decoders (known-bits abstract interpretation).

The three flag bits of byte 0 are enumerated (8 scenarios); all other input bits are
unknown.  The decoder body is interpreted with the known-bits domain for the flag byte,
so every flag test is decided exactly as the code decides it, and the set of outcomes
per scenario is compared with the format's decision table.  Nothing is executed: the
interpreter follows MIR with abstract values."""
import roles
import exp
from exp import Agg, Int, KBits, Opt, TOP
from facts import callee
from wire import Origin, strip

ENC = 'EncodedPoint'


def closure_is_byte_zero_test(fx, path):
    b = fx.body(path)
    if b is None:
        return False
    o = Origin(b)
    t = o.local(0)
    return (t[0] == 'binop' and t[1] == 'Eq' and t[3][0] == 'const' and t[3][1].get('v') == 0
            and strip(t[2])[0] in ('param', 'proj'))


def closure_error_variant(fx, path):
    """Variant of GroupDecodingError built by a map_err closure, with its string."""
    b = fx.body(path)
    if b is None:
        return None
    for blk in b.blocks:
        for s in blk['stmts']:
            if s['k'] == 'assign' and s['rv']['k'] == 'agg' and s['rv']['kind'].get('adt') == 'GroupDecodingError':
                msg = None
                for op in s['rv']['ops']:
                    if op[0] == 'k' and isinstance(op[1].get('v'), dict) and 'ref' in op[1]['v']:
                        msg = op[1]['v']['ref']
                return (s['rv']['kind']['variant_name'], msg)
    return None


class DecoderRun:
    def __init__(self, fx, path, nbytes, flags):
        self.fx = fx
        self.path = path
        self.nbytes = nbytes
        self.flags = flags          # (b7, b6, b5)
        self.reads = 0
        self.violations = []
        R = roles.roles(fx)
        self.point_from_x = {R[g].get('get_point_from_x') for g in ('G1', 'G2')} - {None}

    def transfer(self, I, fr, t, c, pth):
        fx = self.fx
        name = c.get('name')
        d = c['def']
        res = c.get('res') or d
        args = t['args']
        dest = t['dest']
        where = t['span']
        if name == 'iter' and res.startswith('core::slice::<impl [T]>::iter'):
            v = I.value_of_ref(fr, args[0])
            fr.storev(dest, ('iter', v))
            return True
        if name == 'all' and c.get('trait') == 'std::iter::Iterator':
            it = fr.deref_operand(args[0])
            clos = fr.operand(args[1])
            cpath = clos.kind[0] if isinstance(clos, Agg) and clos.kind else None
            # closure aggregate kind is not an adt; find the closure path from the MIR statement
            cpath = self._closure_of(fr, args[1])
            if not (isinstance(it, tuple) and it[0] == 'iter' and isinstance(it[1], Agg) and cpath and closure_is_byte_zero_test(fx, cpath)):
                fr.storev(dest, TOP)
                pth.events.append(('all-unrecognised', where))
                return True
            items = it[1].items
            pth.events.append(('all_zero_over', len(items), where))
            nonzero = any((isinstance(x, Int) and x.v != 0) or (isinstance(x, KBits) and x.val != 0) for x in items)
            allzero = all(isinstance(x, Int) and x.v == 0 for x in items)
            if nonzero:
                fr.storev(dest, Int(0, 1))
            elif allzero:
                fr.storev(dest, Int(1, 1))
            else:
                fr.storev(dest, ('bool', ('all_zero', where)))
            return True
        if name == 'read_be' and c.get('trait') == 'ff::PrimeFieldRepr':
            k = self.reads
            self.reads += 1
            src = I.value_of_ref(fr, args[1])
            if isinstance(src, exp.Ref):
                src = fr._project(fr.store.get(src.root, TOP), src.proj)
            if k == 0:
                lost = []
                if isinstance(src, Agg):
                    for i, x in enumerate(src.items):
                        cl = getattr(x, 'cleared', 0) if isinstance(x, KBits) else 0
                        if cl:
                            lost.append((i, cl))
                else:
                    lost.append(('source-not-tracked', repr(src)[:60]))
                pth.events.append(('source-bits-discarded', lost, where))
            pth.events.append(('read_be', k, where))
            fr.store_through(args[0], ('repr', k))
            fr.storev(dest, ('io_ok', k))
            return True
        if name == 'unwrap' and d.startswith('std::result::Result'):
            v = fr.operand(args[0])
            pth.events.append(('unwrap', v, where))
            fr.storev(dest, v)
            return True
        if name == 'from_repr' and c.get('trait') == 'ff::PrimeField':
            v = fr.operand(args[0])
            fr.storev(dest, ('from_repr', v, c.get('self_ty')))
            return True
        if name == 'map_err':
            v = fr.operand(args[0])
            cp = self._closure_of(fr, args[1])
            fr.storev(dest, ('mapped', v, cp))
            return True
        if name == 'branch' and c.get('trait') == 'std::ops::Try':
            v = fr.operand(args[0])
            fr.storev(dest, Opt(None, ('try', v), ('try', _short(v), where)))
            return True
        if name == 'from_residual':
            v = fr.operand(args[0])
            fr.storev(dest, ('residual', v))
            return True
        if (c.get('res') or d) in self.point_from_x:
            fr.storev(dest, ('point_from_x', fr.operand(args[0]), fr.operand(args[1])))
            return True
        if name == 'ok_or':
            fr.storev(dest, ('ok_or', fr.operand(args[0]), fr.operand(args[1])))
            return True
        if name == 'zero' and c.get('trait') == 'CurveAffine':
            fr.storev(dest, ('affine_zero',))
            return True
        if name == 'into_affine_unchecked' and c.get('trait') == ENC:
            fr.storev(dest, ('unchecked_result', c.get('self_ty')))
            return True
        if name in ('is_on_curve',):
            fr.storev(dest, ('bool', ('is_on_curve', _short(fr.deref_operand(args[0])), where)))
            return True
        if name == 'in_subgroup':
            fr.storev(dest, ('bool', ('in_subgroup', _short(fr.deref_operand(args[0])), where)))
            return True
        return False

    def _closure_of(self, fr, op):
        from facts import op_place
        p = op_place(op)
        if p is None or p['p']:
            return None
        rv = fr.res.local_def_rv(p['l'])
        if rv and rv['k'] == 'agg' and 'closure' in rv['kind']:
            return rv['kind']['closure']
        return None

    def run(self):
        b7, b6, b5 = self.flags
        byte0 = KBits(0xe0, (b7 << 7) | (b6 << 6) | (b5 << 5))
        buf = Agg([byte0] + [KBits(0, 0) for _ in range(self.nbytes - 1)])
        selfv = Agg([buf])       # newtype wrapper around the byte array
        I = exp.Interp(self.fx, 'none', extra_transfer=self.transfer, max_paths=64)
        res = I.run(self.path, [('byref', selfv)])
        self.call_sites = I.call_sites
        return res


def _short(v):
    return v if isinstance(v, (tuple, str, int)) else repr(v)


def classify(ret):
    """Outcome class of a decoder result value."""
    if isinstance(ret, Agg) and ret.kind and ret.kind[0].endswith('result::Result'):
        inner = ret.items[0] if ret.items else None
        if ret.kind[1] == 'Err':
            if isinstance(inner, Agg) and inner.kind and inner.kind[0] == 'GroupDecodingError':
                return ('Err', inner.kind[1])
            return ('Err', '?')
        if inner == ('affine_zero',):
            return ('Ok', 'zero')
        if isinstance(inner, Agg) and inner.kind:
            return ('Ok', 'point', inner)
        return ('Ok', '?', inner)
    if isinstance(ret, tuple) and ret and ret[0] == 'residual':
        return ('Err', 'propagated', ret[1])
    if isinstance(ret, tuple) and ret and ret[0] == 'ok_or':
        return ('ok_or', ret[1], ret[2])
    if isinstance(ret, tuple) and ret and ret[0] == 'diverges':
        return ('panic', ret[1])
    return ('?', ret)

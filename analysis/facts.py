"""Loader and generic program-structure helpers over the ppfacts JSON (MIR facts).

Everything here is a view of what rustc produced for /repo's current tree; no code
of /repo is executed.
"""
import json


class Facts:
    def __init__(self, path):
        with open(path) as f:
            d = json.load(f)
        self.raw = d
        self.crate = d['crate']
        self.debug_assertions = d['debug_assertions']
        self.fns = {}
        for f_ in d['fns']:
            # closures share def-path strings like `...::{closure#0}`; keep all
            self.fns[f_['path']] = f_
        self.consts = {c['path']: c for c in d['consts']}
        self.adts = {a['path']: a for a in d['adts']}
        self.impls = d['impls']
        self.traits = {t['path']: t for t in d['traits']}
        self.statics = d['statics']
        self.foreign = d['foreign']
        self.unsafe_blocks = d['unsafe_blocks']
        self._bodies = {}

    # ------------------------------------------------------------ lookup
    def fn(self, path):
        return self.fns.get(path)

    def body(self, path):
        if path not in self._bodies:
            f = self.fns.get(path)
            if f is None or 'mir' not in f:
                return None
            self._bodies[path] = Body(self, path, f['mir'], f)
        return self._bodies[path]

    def promoted(self, path, idx):
        f = self.fns[path]
        return Body(self, '%s::promoted[%d]' % (path, idx), f['promoted'][idx], f)

    def bodies(self):
        for p, f in self.fns.items():
            if 'mir' in f:
                yield self.body(p)

    def const_value(self, path):
        c = self.consts.get(path)
        if c is None or 'v' not in c:
            return None
        return c['v']

    def impls_of(self, trait, self_ty=None):
        out = []
        for i in self.impls:
            if i.get('trait') == trait and (self_ty is None or i['self_ty'] == self_ty):
                out.append(i)
        return out

    def impl_method(self, trait, self_ty, name):
        """def-path of the method `name` in `impl trait for self_ty` (None if absent)."""
        for i in self.impls_of(trait, self_ty):
            for it in i['items']:
                if it['name'] == name:
                    return it['def']
        return None

    def trait_default(self, trait, name):
        t = self.traits.get(trait)
        if not t:
            return None
        for it in t['items']:
            if it['name'] == name and it['has_default']:
                return it['def']
        return None

    def resolve_method(self, trait, self_ty, name):
        """Static dispatch of <self_ty as trait>::name inside this crate: the impl's
        own item, else the trait's provided method, else a blanket impl."""
        m = self.impl_method(trait, self_ty, name)
        if m:
            return m
        for i in self.impls_of(trait):
            if i['generics'] > 0 and i['self_ty'] and len(i['self_ty']) <= 4:
                for it in i['items']:
                    if it['name'] == name:
                        return it['def']
        return self.trait_default(trait, name)


# ---------------------------------------------------------------- places / operands
def place_key(p):
    """Hashable, projection-complete key of a place."""
    return (p['l'], tuple(tuple(x) for x in p['p']))


def place_local(p):
    return p['l']


def place_is_local(p):
    return not p['p']


def op_place(op):
    return op[1] if op[0] in ('c', 'm') else None


def op_const(op):
    return op[1] if op[0] == 'k' else None


def const_int(c):
    """Integer/bool value of a constant operand payload, else None."""
    if c is None:
        return None
    v = c.get('v')
    if isinstance(v, bool):
        return int(v)
    if isinstance(v, int):
        return v
    return None


def fmt_place(p, body=None):
    s = '_%d' % p['l']
    for e in p['p']:
        if e[0] == 'deref':
            s = '(*%s)' % s
        elif e[0] == 'f':
            s = '%s.%d' % (s, e[1])
        elif e[0] == 'i':
            s = '%s[_%d]' % (s, e[1])
        elif e[0] == 'ci':
            s = '%s[%s%d]' % (s, '-' if e[3] else '', e[1])
        elif e[0] == 'sub':
            s = '%s[%d..%s%d]' % (s, e[1], '-' if e[3] else '', e[2])
        elif e[0] == 'dc':
            s = '(%s as %s)' % (s, e[2] if e[2] else e[1])
        else:
            s = '%s<%s>' % (s, e[0])
    return s


def fmt_const(c):
    if 'fn' in c:
        f = c['fn']
        return 'fn %s' % (f.get('res') or f['def'])
    if 'def' in c:
        s = 'const %s' % c['def']
        if 'promoted' in c:
            s += '::promoted[%d]' % c['promoted']
        return s
    v = c.get('v')
    if isinstance(v, (int, bool)):
        return 'const %s_%s' % (v, c['ty'])
    return 'const <%s>' % c['ty']


def fmt_op(op):
    if op[0] in ('c', 'm'):
        return ('copy ' if op[0] == 'c' else 'move ') + fmt_place(op[1])
    if op[0] == 'k':
        return fmt_const(op[1])
    return str(op)


def fmt_rv(rv):
    k = rv['k']
    if k == 'use':
        return fmt_op(rv['op'])
    if k == 'ref':
        return ('&mut ' if rv['mut'] else '&') + fmt_place(rv['place'])
    if k == 'rawptr':
        return '&raw ' + fmt_place(rv['place'])
    if k == 'binop':
        return '%s(%s, %s)' % (rv['op'], fmt_op(rv['a']), fmt_op(rv['b']))
    if k == 'unop':
        return '%s(%s)' % (rv['op'], fmt_op(rv['a']))
    if k == 'cast':
        return '%s as %s (%s)' % (fmt_op(rv['op']), rv['ty'], rv['kind'])
    if k == 'discr':
        return 'discriminant(%s)' % fmt_place(rv['place'])
    if k == 'agg':
        kind = rv['kind']
        name = kind.get('adt') or ('array' if 'array' in kind else 'tuple' if 'tuple' in kind else kind.get('closure') or 'other')
        if 'adt' in kind:
            name += '::' + kind['variant_name']
        return '%s{%s}' % (name, ', '.join(fmt_op(o) for o in rv['ops']))
    if k == 'repeat':
        return '[%s; %s]' % (fmt_op(rv['op']), rv['n'])
    return rv.get('dbg', k)


class Body:
    def __init__(self, facts, path, mir, fn):
        self.facts = facts
        self.path = path
        self.fn = fn
        self.mir = mir
        self.blocks = mir['blocks']
        self.locals = mir['locals']
        self.arg_count = mir['arg_count']
        self.n = len(self.blocks)
        self.succ = [self._succs(b, with_unwind=False) for b in self.blocks]
        self.succ_all = [self._succs(b, with_unwind=True) for b in self.blocks]
        self.pred = [[] for _ in range(self.n)]
        for i, ss in enumerate(self.succ):
            for s in ss:
                self.pred[s].append(i)
        self.names = {}
        for d in mir['debug']:
            v = d['val']
            if 'l' in v and not v['p']:
                self.names.setdefault(v['l'], d['name'])
        self.arg_names = {}
        for d in mir['debug']:
            if d['arg'] is not None and 'l' in d['val']:
                self.arg_names[d['name']] = d['val']
        self._dom = None
        self._pdom = None

    def _succs(self, b, with_unwind):
        t = b['term']
        k = t['k']
        out = []
        if k == 'goto':
            out = [t['target']]
        elif k == 'switch':
            out = [x[1] for x in t['targets']] + [t['otherwise']]
        elif k in ('call', 'drop', 'assert'):
            if t.get('target') is not None:
                out = [t['target']]
            if with_unwind and t.get('unwind') is not None:
                out.append(t['unwind'])
        seen = []
        for s in out:
            if s not in seen:
                seen.append(s)
        return seen

    # -------------------------------------------------------- iteration helpers
    def reachable(self):
        seen = {0}
        st = [0]
        while st:
            b = st.pop()
            for s in self.succ[b]:
                if s not in seen:
                    seen.add(s)
                    st.append(s)
        return seen

    def calls(self):
        """(block index, terminator) of every Call on the non-unwind CFG."""
        r = self.reachable()
        for i, b in enumerate(self.blocks):
            if i in r and b['term']['k'] == 'call':
                yield i, b['term']

    def local_name(self, l):
        return self.names.get(l, '_%d' % l)

    def local_ty(self, l):
        return self.locals[l]['ty']

    # -------------------------------------------------------- dominators (iterative)
    def dominators(self):
        if self._dom is None:
            self._dom = _dominators(self.n, self.succ, self.pred, [0])
        return self._dom

    def dominates(self, a, b):
        return a in self.dominators()[b]

    def return_blocks(self):
        r = self.reachable()
        return [i for i in r if self.blocks[i]['term']['k'] == 'return']

    def pretty(self):
        out = ['fn %s  (args=%d)' % (self.path, self.arg_count)]
        for i, l in enumerate(self.locals):
            nm = self.names.get(i)
            out.append('  let _%d: %s%s' % (i, l['ty'], ('  // ' + nm) if nm else ''))
        for i, b in enumerate(self.blocks):
            out.append('  bb%d%s:' % (i, ' (cleanup)' if b['cleanup'] else ''))
            for s in b['stmts']:
                if s['k'] == 'assign':
                    out.append('    %s = %s;   // %s' % (fmt_place(s['place']), fmt_rv(s['rv']), s['span']))
                else:
                    out.append('    %s' % s['k'])
            t = b['term']
            k = t['k']
            if k == 'call':
                out.append('    %s = %s(%s) -> %s;   // %s' % (
                    fmt_place(t['dest']), fmt_op(t['func']), ', '.join(fmt_op(a) for a in t['args']),
                    'bb%s' % t['target'] if t['target'] is not None else 'diverge', t['span']))
            elif k == 'switch':
                out.append('    switch(%s) -> [%s, otherwise: bb%d];   // %s' % (
                    fmt_op(t['discr']), ', '.join('%s: bb%d' % (v, bb) for v, bb in t['targets']), t['otherwise'], t['span']))
            elif k == 'assert':
                out.append('    assert(%s == %s, %s) -> bb%d;' % (fmt_op(t['cond']), t['expected'], t['msg'], t['target']))
            elif k == 'goto':
                out.append('    goto -> bb%d;' % t['target'])
            elif k == 'drop':
                out.append('    drop(%s) -> bb%d;' % (fmt_place(t['place']), t['target']))
            else:
                out.append('    %s;' % k)
        return '\n'.join(out)


def _dominators(n, succ, pred, roots):
    full = set(range(n))
    dom = [set(full) for _ in range(n)]
    for r in roots:
        dom[r] = {r}
    # reverse post-order
    order = []
    seen = set()

    def dfs(s):
        stack = [(s, iter(succ[s]))]
        seen.add(s)
        while stack:
            node, it = stack[-1]
            adv = False
            for x in it:
                if x not in seen:
                    seen.add(x)
                    stack.append((x, iter(succ[x])))
                    adv = True
                    break
            if not adv:
                order.append(node)
                stack.pop()
    for r in roots:
        if r not in seen:
            dfs(r)
    rpo = list(reversed(order))
    changed = True
    while changed:
        changed = False
        for b in rpo:
            if b in roots:
                continue
            ps = [p for p in pred[b] if p in seen]
            if not ps:
                continue
            new = set.intersection(*[dom[p] for p in ps]) | {b}
            if new != dom[b]:
                dom[b] = new
                changed = True
    for b in range(n):
        if b not in seen:
            dom[b] = set()
    return dom


# ---------------------------------------------------------------- call helpers
def callee(term):
    """The fn-ref dict of a direct call, else None."""
    f = term['func']
    if f[0] == 'k' and 'fn' in f[1]:
        return f[1]['fn']
    return None


def callee_def(term):
    c = callee(term)
    return c['def'] if c else None


def callee_res(term):
    c = callee(term)
    if not c:
        return None
    return c.get('res') or c['def']


def is_trait_call(term, trait, name=None):
    c = callee(term)
    if not c:
        return False
    if c.get('trait') != trait:
        return False
    return name is None or c.get('name') == name


if __name__ == '__main__':
    import sys
    fx = Facts(sys.argv[1])
    for pat in sys.argv[2:]:
        for p in fx.fns:
            if pat in p:
                b = fx.body(p)
                if b:
                    print(b.pretty())
                    print()

"""TS(curve): typestate / stage-word analysis of the map-to-curve composition.

Abstract value of a point-typed place: a linear form over SSWU leaves, each leaf carrying
the word of stage functions applied to it so far:
      { ('sswu', param) : (coefficient, ('iso', 'clear', ...)) }
The *curve tag* of a value is derived from the words: E' (no 'iso' yet), E (after 'iso'),
Sub (after 'clear').  Rules:
  * isogeny_map requires tag E' (every leaf), yields E;
  * clear_h requires E or Sub;
  * every function of the computed set A0 (it reaches the a = 0 doubling formula or the
    curve constant b through the resolved call graph) requires that none of its point
    arguments is tagged E';
  * the returned value must be the sum of the expected leaves, coefficient +1 each, every
    word exactly ('iso', 'clear').
By the homomorphism property of the isogeny and of [h_eff], any term with these words is
equal to clear_h(iso(sswu(u0)) + iso(sswu(u1))) as a value; the typestate part forbids
using target-curve-only arithmetic on E'.
"""
import roles
import exp
from facts import callee
from wire import CallGraph

OSSWU = 'bls12_381::osswu_map::OSSWUMap'
ISO = 'bls12_381::isogeny::IsogenyMap'
CLEARH = 'bls12_381::cofactor::ClearH'


class Staged:
    def __init__(self, leaves):
        self.leaves = dict(leaves)   # leaf -> (coef, word)

    def tag(self):
        tags = set()
        for coef, word in self.leaves.values():
            if 'clear' in word:
                tags.add('Sub')
            elif 'iso' in word:
                tags.add('E')
            else:
                tags.add("E'")
        if not tags:
            return 'E'          # the identity / empty sum lives everywhere
        if len(tags) == 1:
            return tags.pop()
        if tags <= {'E', 'Sub'}:
            return 'E'
        return 'MIXED'

    def apply(self, stage):
        return Staged({k: (c, w + (stage,)) for k, (c, w) in self.leaves.items()})

    def add(self, o, sign=1):
        d = dict(self.leaves)
        for k, (c, w) in o.leaves.items():
            if k in d:
                c0, w0 = d[k]
                if w0 != w:
                    d[(k, 'conflict', w)] = (sign * c, w)
                else:
                    d[k] = (c0 + sign * c, w0)
            else:
                d[k] = (sign * c, w)
        return Staged(d)

    def scale(self, n):
        return Staged({k: (c * n, w) for k, (c, w) in self.leaves.items()})

    def __repr__(self):
        return 'Staged(%s)' % ', '.join('%s*%s%s' % (c, k, list(w)) for k, (c, w) in sorted(self.leaves.items(), key=str))


def single_leaf(v):
    """(leaf, word) of a staged value that is exactly one leaf with coefficient 1, else None"""
    if isinstance(v, Staged) and len(v.leaves) == 1:
        (k, (c, w)), = v.leaves.items()
        if c == 1 and isinstance(k, tuple) and len(k) == 2 and k[0] == 'sswu':
            return k, w
    return None


class A0:
    """Functions that are only valid on the target curve (a = 0, b = the curve's b)."""

    def __init__(self, fx):
        self.fx = fx
        self.cg = CallGraph(fx)
        self._memo = {}

    def is_anchor(self, p):
        # the doubling formulas (hard-code a = 0) and the curve coefficient accessors
        R = roles.roles(self.fx)
        return (p.endswith(' as CurveProjective>::double') or p in (R['G1'].get('get_coeff_b'), R['G2'].get('get_coeff_b')))

    def witness(self, fn_path):
        if fn_path not in self._memo:
            if self.is_anchor(fn_path):
                self._memo[fn_path] = [fn_path]
            else:
                self._memo[fn_path] = self.cg.path_to(fn_path, self.is_anchor)
        return self._memo[fn_path]


def analyse_map(fx, fn_path, group_ty, n_params, a0, rep, label):
    """Run the stage analysis on the generic body `fn_path` instantiated at `group_ty`."""
    # normal form: private helpers the map was factored into are inlined at MIR level (so that a reference to one of
    # the map's inputs is still recognisable as such inside what used to be a helper)
    import inline as INL
    def is_helper(q):
        # a function of this crate the map was factored into, private or exported: being exported does not change
        # what it computes for the map (trait-impl methods -- the stages themselves and the group law -- are not
        # helpers: the transfer function below gives them their meaning)
        if INL.is_private_helper(fx, q):
            return True
        f = fx.fn(q)
        return bool(f is not None and 'mir' in f and f.get('kind') in ('Fn', 'AssocFn') and not f.get('impl_trait') and q != fn_path)
    body = INL.inlined(fx, fn_path, is_helper) or fx.body(fn_path)
    violations = []
    events = []

    def resolve(c):
        """Resolve a (possibly generic) callee at PtT = group_ty to a local def-path."""
        if c.get('res'):
            return c['res']
        tr = c.get('trait')
        if tr:
            m = fx.resolve_method(tr, group_ty, c.get('name'))
            if m:
                return m
            # method on the associated affine type
            m = fx.resolve_method(tr, group_ty + 'Affine', c.get('name'))
            if m:
                return m
        return c['def']

    def transfer(I, fr, t, c, pth):
        trait = c.get('trait')
        name = c.get('name')
        args = t['args']
        where = t['span']
        argvals = [fr.deref_operand(a) for a in args]
        staged_idx = [i for i, v in enumerate(argvals) if isinstance(v, Staged)]
        if trait == OSSWU and name == 'osswu_map':
            # which parameter does the argument designate?
            ref = fr.res.operand_referent(args[0])
            leaf = None
            # by value first: the argument designates the atom that stands for input i of the map, whichever frame the
            # call sits in (a closure or helper applied to each input in turn has its own local numbering)
            dv = argvals[0]
            for _ in range(6):
                if isinstance(dv, exp.Ref):
                    if dv.root not in fr.store and ('*', dv.root) in fr.store and not dv.proj:
                        dv = fr.store[('*', dv.root)]
                    else:
                        dv = fr._project(fr.store.get(dv.root, exp.TOP), dv.proj)
                elif isinstance(dv, tuple) and len(dv) == 2 and dv[0] == 'byref':
                    dv = dv[1]
                else:
                    break
            in_root = fr.body is body
            if isinstance(dv, tuple) and len(dv) == 2 and dv[0] == 'input' and 1 <= dv[1] <= n_params:
                leaf = ('sswu', dv[1])
            elif not in_root:
                pass        # local numbers of another body say nothing about the map's inputs
            elif ref and ref[0] == 'place' and ref[1]['p'] == [['deref']] and 1 <= ref[1]['l'] <= n_params:
                leaf = ('sswu', ref[1]['l'])
            elif ref is None:
                p = args[0][1] if args[0][0] in ('c', 'm') else None
                if p is not None and not p['p'] and 1 <= p['l'] <= n_params:
                    leaf = ('sswu', p['l'])
            if leaf is None:
                violations.append(('TS', 'sswu-input', 'osswu_map is applied to %r, not to an input of the map' % (ref,), where))
                fr.storev(t['dest'], exp.TOP)
                return True
            events.append(('sswu', leaf[1], where))
            fr.storev(t['dest'], Staged({leaf: (1, ())}))
            return True
        if trait == ISO and name == 'isogeny_map':
            v = argvals[0]
            if not isinstance(v, Staged):
                violations.append(('TS', 'isogeny-operand', 'isogeny_map applied to an untracked value', where))
                return True
            if v.tag() != "E'":
                violations.append(('TS', 'isogeny-operand', 'isogeny_map applied to a value tagged %s (%r); it is defined on E\' only' % (v.tag(), v), where))
            events.append(('iso', where))
            fr.store_through(args[0], v.apply('iso'))
            return True
        if trait == CLEARH and name == 'clear_h':
            v = argvals[0]
            if not isinstance(v, Staged):
                violations.append(('TS', 'clear_h-operand', 'clear_h applied to an untracked value', where))
                return True
            if v.tag() not in ('E', 'Sub'):
                violations.append(('TS', 'clear_h-operand', 'clear_h applied to a value tagged %s (%r): cofactor clearing uses the target curve\'s group law' % (v.tag(), v), where))
            events.append(('clear', where))
            fr.store_through(args[0], v.apply('clear'))
            return True
        if trait == 'std::cmp::PartialEq' and name in ('eq', 'ne') and len(args) == 2:
            def deep(v):
                for _ in range(6):
                    if isinstance(v, exp.Ref):
                        if v.root not in fr.store and ('*', v.root) in fr.store and not v.proj:
                            v = fr.store[('*', v.root)]        # a reference to a by-reference parameter
                        else:
                            v = fr._project(fr.store.get(v.root, exp.TOP), v.proj)
                    elif isinstance(v, tuple) and len(v) == 2 and v[0] == 'byref':
                        v = v[1]
                    else:
                        break
                return v
            a, b = deep(argvals[0]), deep(argvals[1])
            if a is exp.TOP or b is exp.TOP:
                a, b = deep(fr.operand(args[0])), deep(fr.operand(args[1]))
            if all(isinstance(v, tuple) and len(v) == 2 and v[0] == 'input' for v in (a, b)):
                key = ('inputs-equal', min(a[1], b[1]), max(a[1], b[1]))
                fr.storev(t['dest'], exp.Int(1 if name == 'eq' else 0, 1) if a[1] == b[1] else ('bool', key if name == 'eq' else ('not', key)))
                return True
            # two map intermediates compared as points (the projective PartialEq is the representation-independent
            # equal-point test, C01): a predicate the path forks on
            if isinstance(a, Staged) and isinstance(b, Staged) and single_leaf(a) is not None and single_leaf(b) is not None and single_leaf(a)[1] == single_leaf(b)[1]:
                la, lb = single_leaf(a)[0], single_leaf(b)[0]
                if la == lb:
                    fr.storev(t['dest'], exp.Int(1 if name == 'eq' else 0, 1))
                    return True
                key = ('points-equal',) + tuple(sorted([la, lb], key=repr))
                fr.storev(t['dest'], ('bool', key if name == 'eq' else ('not', key)))
                return True
        if not staged_idx:
            return False
        # any other call touching a staged value
        target = resolve(c)
        wit = a0.witness(target)
        waived = False
        if wit is not None and trait == 'CurveProjective' and name in ('add_assign', 'sub_assign') and len(argvals) == 2 and all(isinstance(v, Staged) for v in argvals):
            # the chord formula does not involve the curve coefficients: on E' the addition is the group law of E' as long
            # as its doubling branch is not taken, i.e. on a path that has established that the operands are different
            # points (and the equal-point test of add_assign is that same predicate: C01's skeleton rule)
            sa, sb = single_leaf(argvals[0]), single_leaf(argvals[1])
            if sa is not None and sb is not None and sa[1] == sb[1] and sa[0] != sb[0] and name == 'add_assign':
                key = ('points-equal',) + tuple(sorted([sa[0], sb[0]], key=repr))
                if pth.decided(key) is False:
                    waived = True
        if wit is not None and not waived:
            for i in staged_idx:
                if argvals[i].tag() in ("E'", 'MIXED'):
                    violations.append(('TS', 'a0-on-isogenous-curve',
                                       '%s receives a value on the isogenous curve E\' (%r) but is only valid on the target curve: call path %s'
                                       % (target, argvals[i], ' -> '.join(wit)), where))
        if trait == 'CurveProjective' and name in ('add_assign', 'sub_assign'):
            a, b = argvals[0], argvals[1]
            if isinstance(a, Staged) and isinstance(b, Staged):
                fr.store_through(args[0], a.add(b, 1 if name == 'add_assign' else -1))
            else:
                fr.store_through(args[0], exp.TOP)
            events.append((name, where))
            return True
        if trait == 'CurveProjective' and name == 'double':
            fr.store_through(args[0], argvals[0].scale(2))
            return True
        if trait == 'CurveProjective' and name == 'negate':
            fr.store_through(args[0], argvals[0].scale(-1))
            return True
        if trait in ('CurveProjective', 'CurveAffine') and name in ('into_affine', 'into_projective'):
            fr.storev(t['dest'], argvals[0])
            return True
        if trait == 'SubgroupCheck' and name == 'in_subgroup':
            fr.storev(t['dest'], ('bool', ('in_subgroup', where)))
            events.append(('in_subgroup', argvals[0].tag(), where))
            return True
        if trait in ('std::clone::Clone',):
            fr.storev(t['dest'], argvals[0])
            return True
        # unknown function mutating / consuming a staged value: result untracked
        violations.append(('TS', 'unmodelled-call', 'call to %s touches a map intermediate; its effect on the stage word is not modelled' % target, where))
        return False

    I = exp.Interp(fx, 'none', extra_transfer=transfer, max_paths=32, inline=is_helper)
    I.fork_inlined = True
    I.body_override = {fn_path: body}
    args = [('byref', ('input', i + 1)) for i in range(n_params)]
    try:
        res = I.run(fn_path, args)
    except (exp.NotDerivable, exp.Budget) as e:
        rep.fail('TS', '%s:derivable' % label, 'composition not derivable: %s' % e, fx.fn(fn_path)['span'])
        return None
    rep.sites(I.call_sites)
    returns = []
    for pth, ret, outs in res:
        if isinstance(ret, tuple) and ret and ret[0] == 'diverges':
            continue
        returns.append((pth, ret))
    return violations, returns, events

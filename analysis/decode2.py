"""Decision-table analysis of the point decoders (known-bits abstract interpretation), shape independent.

The three flag bits of byte 0 are enumerated (8 scenarios); all other input bits are unknown.  Input
bytes keep their index, so the rules can say which bytes a read or a zero test covered.  Fallible
library calls return two-sided values (exp.Either) and the generic Option/Result plumbing of
stdmodel carries them through `?`, `match`, map_err, ok_or ...: the decision table is read off the
set of (path predicates, returned value) pairs, whatever combinators or control flow the code uses."""
import exp
import roles
import stdmodel
from exp import Agg, Either, Int, KBits, Opt, Ref, TOP, NotDerivable

ENC = 'EncodedPoint'
PAYLOAD_ZERO = ('payload-zero',)


class PByte(KBits):
    """Input byte number `idx` (known-bits as KBits)."""
    __slots__ = ('idx',)

    def __init__(self, idx, mask=0, val=0, cleared=0):
        KBits.__init__(self, mask, val, cleared)
        self.idx = idx

    def __repr__(self):
        return 'B%d%s' % (self.idx, KBits.__repr__(self)[5:] if (self.mask or self.cleared) else '')


class OrBytes:
    """The bitwise OR of several input bytes (a branch-free all-zero test in the making)."""
    __slots__ = ('parts',)

    def __init__(self, parts):
        self.parts = list(parts)

    def __repr__(self):
        return 'Or(%s)' % ', '.join(repr(p) for p in self.parts)


class Limb:
    """A u64 limb of a field-element representation: 8 input bytes, most significant first."""
    __slots__ = ('bytes',)

    def __init__(self, bytes_):
        self.bytes = list(bytes_)

    def __repr__(self):
        return 'Limb(%r)' % (self.bytes,)


def repr_bytes(v):
    """Wire-order bytes of a structured repr value (Agg[Agg[limbs little-endian]]), or None."""
    if isinstance(v, Agg) and len(v.items) == 1 and isinstance(v.items[0], Agg) and v.items[0].items and all(isinstance(x, Limb) for x in v.items[0].items):
        out = []
        for l in reversed(v.items[0].items):
            out.extend(l.bytes)
        return out
    return None


class DecoderRun2:
    def __init__(self, fx, path, nbytes, flags, own_unchecked=None):
        self.fx = fx
        self.path = path
        self.nbytes = nbytes
        self.flags = flags
        self.own_unchecked = own_unchecked
        R = roles.roles(fx)
        self.point_from_x = {R[g].get('get_point_from_x') for g in ('G1', 'G2')} - {None}
        self.r_torsion = {R[g].get('r_torsion') for g in ('G1', 'G2')} - {None}

    # ------------------------------------------------------------------ byte arithmetic
    def binop_hook(self, op, a, b):
        if b is None:
            return None
        if isinstance(a, Limb) and isinstance(b, Int) and op in ('BitAnd', 'BitOr'):
            out = []
            for j, x in enumerate(a.bytes):
                kb = (b.v >> (8 * (7 - j))) & 0xff
                r = exp.kbits_binop(op, x, Int(kb, 8)) if isinstance(x, KBits) else (Int((x.v & kb) if op == 'BitAnd' else (x.v | kb), 8) if isinstance(x, Int) else TOP)
                if isinstance(r, KBits) and isinstance(x, PByte):
                    r = PByte(x.idx, r.mask, r.val, r.cleared)
                out.append(r)
            return Limb(out)
        # OR-fold of input bytes compared with zero: the all-zero test of exactly those bytes
        if op == 'BitOr' and (isinstance(a, (PByte, OrBytes)) and isinstance(b, (PByte, OrBytes))):
            return OrBytes((a.parts if isinstance(a, OrBytes) else [a]) + (b.parts if isinstance(b, OrBytes) else [b]))
        if op == 'BitOr' and isinstance(a, OrBytes) and isinstance(b, Int) and b.v == 0:
            return a
        if op == 'BitOr' and isinstance(b, OrBytes) and isinstance(a, Int) and a.v == 0:
            return b
        if op in ('Eq', 'Ne') and ((isinstance(a, OrBytes) and isinstance(b, Int) and b.v == 0) or (isinstance(b, OrBytes) and isinstance(a, Int) and a.v == 0)):
            ob = a if isinstance(a, OrBytes) else b
            ev = getattr(getattr(self, 'I', None), '_cur_path', None)
            ev = ev.events if ev is not None else self.cur_events
            rs = [exp.kbits_binop('Eq', x, Int(0, 8)) for x in ob.parts]
            nz = [x for x, r in zip(ob.parts, rs) if isinstance(r, Int) and not r.v]
            if nz:
                ev.append(('zero-test', nz[0].idx, False))
                return Int(0 if op == 'Eq' else 1, 1)
            for x, r in zip(ob.parts, rs):
                ev.append(('zero-test', x.idx, True if isinstance(r, Int) else None))
            if all(isinstance(r, Int) for r in rs):
                return Int(1 if op == 'Eq' else 0, 1)
            return ('bool', PAYLOAD_ZERO) if op == 'Eq' else ('bool', ('not', PAYLOAD_ZERO))
        pa, pb = isinstance(a, PByte), isinstance(b, PByte)
        if pa and pb and op in ('Eq', 'Ne') and a.idx == b.idx:
            # the same input byte seen twice: equal when neither copy had an unknown bit forced and the known bits agree
            if a.mask == b.mask and (a.val & a.mask) == (b.val & b.mask) and not a.cleared and not b.cleared:
                return Int(1 if op == 'Eq' else 0, 1)
            if (a.mask & b.mask) and ((a.val ^ b.val) & a.mask & b.mask):
                return Int(0 if op == 'Eq' else 1, 1)
            return None
        if not (pa or pb):
            return None
        x, k = (a, b) if pa else (b, a)
        if not isinstance(k, Int):
            return None
        if op in ('BitAnd', 'BitOr'):
            r = exp.kbits_binop(op, x, k)
            if isinstance(r, KBits):
                return PByte(x.idx, r.mask, r.val, r.cleared)
            return r
        if op in ('Eq', 'Ne') and k.v == 0:
            r = exp.kbits_binop(op, x, k)
            ev = getattr(getattr(self, 'I', None), '_cur_path', None)
            ev = ev.events if ev is not None else self.cur_events
            if isinstance(r, Int):
                ev.append(('zero-test', x.idx, bool(r.v) == (op == 'Eq')))
                return r
            ev.append(('zero-test', x.idx, None))
            return ('bool', PAYLOAD_ZERO) if op == 'Eq' else ('bool', ('not', PAYLOAD_ZERO))
        return None

    # ------------------------------------------------------------------ calls
    def transfer(self, I, fr, t, c, pth):
        self.cur_events = pth.events
        fx = self.fx
        name = c.get('name')
        trait = c.get('trait')
        d = c['def']
        res = c.get('res') or d
        args = t['args']
        dest = t['dest']
        where = t['span']
        if name == 'read_be' and trait == 'ff::PrimeFieldRepr' and len(args) == 2:
            k = sum(1 for e in pth.events if e[0] == 'read_be')
            items = self.take_from_reader(I, fr, args[1], 48)
            idxs = [x.idx if isinstance(x, PByte) else None for x in items] if items is not None else None
            lost = [(x.idx, x.cleared) for x in (items or []) if isinstance(x, PByte) and x.cleared]
            pth.events.append(('read_be', k, idxs, lost, where))
            if items is not None and len(items) >= 8 and len(items) % 8 == 0 and len(items) == 48:
                nl = len(items) // 8
                limbs = [Limb(items[(nl - 1 - i) * 8:(nl - i) * 8]) for i in range(nl)]
                fr.store_through(args[0], Agg([Agg(limbs)], ('repr', k)))
            else:
                fr.store_through(args[0], ('repr', k))
            # reading 48 bytes from a shorter source fails
            okv = items is not None and len(items) >= 48
            fr.storev(dest, Opt('none' if okv else 'some', Agg([]), ('read_be', k)))
            return True
        if name == 'from_repr' and trait == 'ff::PrimeField':
            v = fr.operand(args[0])
            k = v[1] if isinstance(v, tuple) and v and v[0] == 'repr' else None
            if isinstance(v, Agg) and v.kind and v.kind[0] == 'repr':
                k = v.kind[1]
                bs = repr_bytes(v)
                if bs is None:
                    k = None
                else:
                    # the limbs may have been masked after the read: input bits cleared untested are reported like those of the read
                    lost2 = [(x.idx, x.cleared) for x in bs if isinstance(x, PByte) and x.cleared]
                    idx2 = [x.idx if isinstance(x, PByte) else None for x in bs]
                    pth.events.append(('repr-at-range-check', k, idx2, lost2, where))
            pth.events.append(('from_repr', k, c.get('self_ty'), where))
            fr.storev(dest, Opt(None, Either(('fe', k, c.get('self_ty')), ('range-error', k)), ('from_repr', k)))
            return True
        if (c.get('res') or d) in self.point_from_x:
            x = fr.operand(args[0])
            gsel = fr.operand(args[1])
            pth.events.append(('point_from_x', x, gsel, where))
            fr.storev(dest, Opt(None, Either(TOP, ('point_from_x', x, gsel)), ('point_from_x',)))
            return True
        if name == 'zero' and trait == 'CurveAffine':
            fr.storev(dest, ('affine_zero',))
            return True
        if name == 'into_affine_unchecked' and trait == ENC:
            fr.storev(dest, Opt(None, Either(('unchecked_result', c.get('self_ty')), ('unchecked-error', c.get('self_ty'))), ('unchecked',)))
            return True
        if name == 'is_on_curve':
            fr.storev(dest, ('bool', ('is_on_curve', freeze(fr.deref_operand(args[0])))))
            return True
        if (c.get('res') or d) in self.r_torsion and len(args) == 1:
            fr.storev(dest, ('bool', ('r_torsion', freeze(fr.deref_operand(args[0])))))
            return True
        if name == 'in_subgroup':
            fr.storev(dest, ('bool', ('in_subgroup', freeze(fr.deref_operand(args[0])))))
            return True
        if name in ('all', 'any') and trait == 'std::iter::Iterator' and len(args) == 2:
            # conjunction / disjunction of per-item tests that may be the shared symbolic payload predicate
            itv = fr.deref_operand(args[0])
            cl = I._closure_value(fr, args[1])
            if stdmodel.is_iter(itv) and cl is not None:
                sym = None
                for item in stdmodel.drain(I, itv, where):
                    r = I._call_closure_rw(fr, cl[0], cl[1], [item], where)
                    if isinstance(r, Int):
                        if (name == 'all') != bool(r.v):
                            fr.storev(dest, Int(0 if name == 'all' else 1, 1))
                            return True
                        continue
                    if isinstance(r, tuple) and r and r[0] == 'bool' and (sym is None or sym == r):
                        sym = r
                        continue
                    return False
                fr.storev(dest, sym if sym is not None else Int(1 if name == 'all' else 0, 1))
                return True
            return False
        return stdmodel.result_transfer(I, fr, t, c, pth)

    def take_from_reader(self, I, fr, op, n):
        """`op` is `&mut R` with R = &[u8] (std's Read for slices advances the slice): the next n bytes, or fewer at the end."""
        from facts import op_place as _opl
        pl_ = _opl(op)
        ty_ = fr.body.local_ty(pl_['l']) if pl_ is not None and not pl_['p'] else ''
        by_value = ty_.replace(' ', '') in ('&[u8]', "&'_[u8]") or (ty_.startswith('&') and ty_.endswith('[u8]') and not ty_.startswith('&mut &') and 'mut &' not in ty_)
        rp = None if by_value else stdmodel.ref_of(fr, op)
        if rp is None:
            # the reader passed by value (`&[u8]` itself): nothing to advance
            v0 = fr.operand(op)
            for _ in range(6):
                if isinstance(v0, Ref):
                    v0 = fr._project(fr.store.get(v0.root, TOP), v0.proj)
            return list(v0.items[:n]) if isinstance(v0, Agg) else None
        cur = fr._project(fr.store.get(rp[0], TOP), rp[1])
        if isinstance(cur, Agg):
            fr.store[rp[0]] = fr._update(fr.store.get(rp[0]), list(rp[1]), Agg(cur.items[n:], cur.kind)) if rp[1] else Agg(cur.items[n:], cur.kind)
            return list(cur.items[:n])
        if not isinstance(cur, Ref):
            return None
        # the slice the reader currently designates: follow references, accumulate view offsets
        v = cur
        for _ in range(6):
            tgt = fr._project(fr.store.get(v.root, TOP), [e for e in v.proj if e[0] != 'off'])
            if isinstance(tgt, Ref):
                v = Ref(tgt.root, list(tgt.proj) + [e for e in v.proj if e[0] == 'off'])
            else:
                break
        base = [e for e in v.proj if e[0] != 'off']
        arr = fr._project(fr.store.get(v.root, TOP), base)
        if not isinstance(arr, Agg):
            return None
        lo, hi = 0, len(arr.items)
        for e in v.proj:
            if e[0] == 'off':
                lo += e[1]
                if len(e) > 2 and e[2] is not None:
                    hi = min(hi, lo + e[2])
        items = list(arr.items[lo:min(hi, lo + n)])
        new = Ref(v.root, list(base) + [['off', lo + len(items), hi - lo - len(items)]])
        if rp[1]:
            fr.store[rp[0]] = fr._update(fr.store.get(rp[0]), list(rp[1]), new)
        else:
            fr.store[rp[0]] = new
        return items

    def run(self):
        b7, b6, b5 = self.flags
        buf = Agg([PByte(0, 0xe0, (b7 << 7) | (b6 << 6) | (b5 << 5))] + [PByte(i) for i in range(1, self.nbytes)])
        selfv = Agg([buf])
        import inline as INL
        I = exp.Interp(self.fx, 'none', extra_transfer=self.transfer, max_paths=64,
                       inline=lambda q: INL.is_private_helper(self.fx, q) and q not in self.point_from_x and q not in self.r_torsion)
        I.binop_hook = self.binop_hook
        I.propagate_hooks = True
        I.fork_inlined = True
        self.I = I
        self.cur_events = []
        res = I.run(self.path, [('byref', selfv)])
        self.call_sites = I.call_sites
        return res


def freeze(v):
    if isinstance(v, Agg):
        return ('agg', v.kind, tuple(freeze(x) for x in v.items))
    if isinstance(v, Int):
        return ('int', v.v)
    if isinstance(v, (list, tuple)):
        return tuple(freeze(x) for x in v)
    if isinstance(v, Ref):
        return ('ref', repr(v.root), repr(v.proj))
    return v if isinstance(v, (str, int, bool, type(None))) else repr(v)


def classify(ret):
    """('Ok', class, value) | ('Err', variant-or-class, value) | ('panic', where) | ('?', value)."""
    if isinstance(ret, tuple) and ret and ret[0] == 'diverges':
        return ('panic', ret[1])
    o = stdmodel.two_variant(ret, True)
    if o is None or o.tag not in ('some', 'none'):
        return ('?', ret)
    v = stdmodel.side(o, 1 if o.tag == 'some' else 0)
    if o.tag == 'some':
        if isinstance(v, Agg) and v.kind and v.kind[0] == 'GroupDecodingError':
            return ('Err', v.kind[1], v)
        if isinstance(v, tuple) and v and v[0] == 'unchecked-error':
            return ('Err', 'propagated', v)
        return ('Err', '?', v)
    if v == ('affine_zero',):
        return ('Ok', 'zero', v)
    if isinstance(v, tuple) and v and v[0] == 'point_from_x':
        return ('Ok', 'point_from_x', v)
    if isinstance(v, tuple) and v and v[0] == 'unchecked_result':
        return ('Ok', 'unchecked_result', v)
    if isinstance(v, Agg) and v.kind:
        return ('Ok', 'point', v)
    return ('Ok', '?', v)


def outcomes(ret):
    """All outcomes a returned value stands for: a decided value gives one, an undecided two-sided value gives both
    sides, each with the (label, variant) condition that selects it."""
    c = classify(ret)
    if c[0] != '?':
        return [(c, None)]
    o = stdmodel.two_variant(ret, True)
    if o is not None and o.tag is None:
        out = []
        for variant in (0, 1):
            sub = classify(Opt('some' if variant else 'none', stdmodel.side(o, variant)))
            out.append((sub, (o.label, variant)))
        return out
    return [(c, None)]

"""Models of the std / core library surface the crate uses (iterators and their adaptors,
closures, Vec and slice plumbing, Option combinators) for the abstract interpreter.

These are *value-transparent* models: they never invent information, they only move abstract
values the way the library call moves concrete ones, so that a rule's verdict does not depend on
whether a loop is written with indices, with an iterator chain or with an extracted helper.
Anything not modelled falls through to the interpreter's havoc (fail closed in the rules)."""
import exp
from exp import Agg, AdaptIt, BV, Either, Int, Opt, RangeIt, Ref, SliceIt, TOP, NotDerivable
from facts import op_place


class GenIt:
    """Iterator adaptors without a closure: enumerate / zip / skip / take / chain / rev."""
    __slots__ = ('kind', 'inner', 'aux')

    def __init__(self, kind, inner, aux=None):
        self.kind, self.inner, self.aux = kind, inner, aux

    def iter_next(self, I, where):
        k = self.kind
        if k == 'enumerate':
            v, inner = I._iter_next(self.inner, where)
            if v.tag != 'some':
                return Opt('none', TOP), GenIt(k, inner, self.aux)
            return Opt('some', Agg([Int(self.aux), v.payload])), GenIt(k, inner, self.aux + 1)
        if k == 'zip':
            a, inner = I._iter_next(self.inner, where)
            if a.tag != 'some':
                return Opt('none', TOP), GenIt(k, inner, self.aux)
            b, aux = I._iter_next(self.aux, where)
            if b.tag != 'some':
                return Opt('none', TOP), GenIt(k, inner, aux)
            return Opt('some', Agg([a.payload, b.payload])), GenIt(k, inner, aux)
        if k == 'skip':
            inner = self.inner
            for _ in range(self.aux):
                v, inner = I._iter_next(inner, where)
                if v.tag != 'some':
                    return Opt('none', TOP), GenIt('id', inner)
            v, inner = I._iter_next(inner, where)
            return v, GenIt('id', inner)
        if k == 'take':
            if self.aux <= 0:
                return Opt('none', TOP), self
            v, inner = I._iter_next(self.inner, where)
            return v, GenIt(k, inner, self.aux - 1)
        if k == 'chain':
            v, inner = I._iter_next(self.inner, where)
            if v.tag == 'some':
                return v, GenIt(k, inner, self.aux)
            v2, aux = I._iter_next(self.aux, where)
            return v2, GenIt(k, inner, aux)
        if k == 'id':
            v, inner = I._iter_next(self.inner, where)
            return v, GenIt(k, inner)
        raise NotDerivable('unmodelled iterator adaptor %s' % k, where)


ITER_TYPES = (SliceIt, AdaptIt, RangeIt, GenIt)


def is_iter(v):
    return isinstance(v, ITER_TYPES) or hasattr(v, 'iter_next')


def drain(I, itv, where, limit=100000):
    out = []
    for _ in range(limit):
        v, itv = I._iter_next(itv, where)
        if v.tag != 'some':
            return out
        out.append(v.payload)
    raise NotDerivable('iterator did not terminate', where)


def seq_of(I, fr, op):
    """The element list designated by a slice / array / Vec operand (by value or by reference)."""
    v = I.value_of_ref(fr, op)
    if isinstance(v, Ref):
        v = fr._project(fr.store.get(v.root, TOP), v.proj)
    if isinstance(v, Agg):
        return v
    return None


def as_iter(I, fr, op):
    """Iterator value for an IntoIterator operand."""
    v = fr.operand(op)
    if is_iter(v):
        return v
    if isinstance(v, Opt) and v.tag in ('some', 'none'):
        return SliceIt([v.payload] if v.tag == 'some' else [], 0)
    s = seq_of(I, fr, op)
    if isinstance(s, Agg):
        return SliceIt(s.items, 0)
    return None


def ref_of(fr, op):
    """(root, proj) of the place a reference operand designates."""
    tgt = fr.ref_place_of(op)
    if isinstance(tgt, dict):
        return fr.root_of(tgt)
    if isinstance(tgt, tuple):
        return tgt[1].root, list(tgt[1].proj)
    v = fr.operand(op)
    if isinstance(v, Ref):
        return v.root, list(v.proj)
    return None


def as_int(v):
    if isinstance(v, Int):
        return v.v
    if isinstance(v, BV):
        return v.as_int()
    return None


OPS_TRAITS = {'std::ops::BitOr': ('bitor', 'BitOr'), 'std::ops::BitAnd': ('bitand', 'BitAnd'), 'std::ops::BitXor': ('bitxor', 'BitXor'),
              'std::ops::Add': ('add', 'Add'), 'std::ops::Sub': ('sub', 'Sub'), 'std::ops::Mul': ('mul', 'Mul'),
              'std::ops::Shr': ('shr', 'Shr'), 'std::ops::Shl': ('shl', 'Shl')}
OPS_ASSIGN_TRAITS = {'std::ops::BitOrAssign': ('bitor_assign', 'BitOr'), 'std::ops::BitAndAssign': ('bitand_assign', 'BitAnd'), 'std::ops::BitXorAssign': ('bitxor_assign', 'BitXor'),
                     'std::ops::AddAssign': ('add_assign', 'Add'), 'std::ops::SubAssign': ('sub_assign', 'Sub'), 'std::ops::MulAssign': ('mul_assign', 'Mul')}
PRIM_INTS = ('u8', 'u16', 'u32', 'u64', 'u128', 'usize', 'i8', 'i16', 'i32', 'i64', 'i128', 'isize')


def std_transfer(I, fr, t, c, pth):
    r = _std_transfer(I, fr, t, c, pth)
    if r:
        return r
    # Option / Result / Ordering / bool plumbing is value-transparent: available to every interpreter
    try:
        return result_transfer(I, fr, t, c, pth)
    except NotDerivable:
        return False


def _std_transfer(I, fr, t, c, pth):
    name = c.get('name')
    trait = c.get('trait')
    d = c['def']
    res = c.get('res') or d
    args = t['args']
    dest = t['dest']
    where = t['span']

    # `vec![a, b, c]`: Box::new_uninit(), the array written through the box's pointer, box_assume_init_into_vec_unsafe(box)
    if res.startswith('std::boxed::Box::<') and name == 'new_uninit' and not args:
        I.fresh += 1
        key_ = ('box', I.fresh)
        fr.store[key_] = TOP
        fr.storev(dest, Agg([Agg([Ref(key_, [])])], ('box', 'Box')))
        return True
    if (name == 'box_assume_init_into_vec_unsafe' or d.endswith('box_assume_init_into_vec_unsafe')) and len(args) == 1:
        bx = fr.operand(args[0])
        ptr = bx.items[0].items[0] if isinstance(bx, Agg) and bx.kind == ('box', 'Box') and bx.items and isinstance(bx.items[0], Agg) and bx.items[0].items else None
        if isinstance(ptr, Ref):
            v_ = fr.store.get(ptr.root, TOP)
            n_ = None
            try:
                n_ = int((c.get('targs') or [None, None])[1])
            except (TypeError, ValueError, IndexError):
                pass
            # MaybeUninit { uninit, value: ManuallyDrop { MaybeDangling { [T; N] } } }: the array sits at .1.0.0
            try:
                v_ = v_.items[1].items[0].items[0]
            except (AttributeError, IndexError):
                v_ = None
            if isinstance(v_, Agg) and (n_ is None or len(v_.items) == n_):
                fr.storev(dest, Agg(list(v_.items), ('vec', 'Vec')))
                return True
        return False
    # bit counting on words whose leading bits are known (a scalar with a known leading one)
    if name in ('leading_zeros', 'trailing_zeros') and res.startswith('core::num::<impl u') and len(args) == 1:
        v_ = fr.operand(args[0])
        bits_ = None
        if isinstance(v_, Int):
            w_ = 64 if 'u64' in res or 'usize' in res else (32 if 'u32' in res else (8 if 'u8' in res else 64))
            bits_ = [(v_.v >> i_) & 1 for i_ in range(w_)]
        elif isinstance(v_, BV):
            bits_ = list(v_.e)
        if bits_ is not None:
            seq_ = reversed(bits_) if name == 'leading_zeros' else bits_
            n_ = 0
            for x_ in seq_:
                if x_ == 0:
                    n_ += 1
                elif x_ == 1:
                    fr.storev(dest, Int(n_, 32))
                    return True
                else:
                    return False            # a symbolic bit decides the count
            fr.storev(dest, Int(n_, 32))
            return True
        return False
    # operator traits on primitive integers with reference operands (`acc | b` with b: &u8 is a call, not a MIR binop)
    if trait in OPS_TRAITS and name == OPS_TRAITS[trait][0] and len(args) == 2 and (c.get('self_ty') or '').lstrip('&') in PRIM_INTS:
        a_, b_ = fr.deref_operand(args[0]) if (c.get('self_ty') or '').startswith('&') else fr.operand(args[0]), fr.operand(args[1])
        for _ in range(2):
            if isinstance(b_, Ref):
                b_ = fr._project(fr.store.get(b_.root, TOP), b_.proj)
            if isinstance(a_, Ref):
                a_ = fr._project(fr.store.get(a_.root, TOP), a_.proj)
        I._assign(fr, {'k': 'assign', 'place': dest, 'rv': {'k': 'binop', 'op': OPS_TRAITS[trait][1], 'a': ['v', a_], 'b': ['v', b_]}})
        return True
    if trait in OPS_ASSIGN_TRAITS and name == OPS_ASSIGN_TRAITS[trait][0] and len(args) == 2 and (c.get('self_ty') or '') in PRIM_INTS:
        # `*acc ^= b` with b: &u8 (or u8): a call on primitive integers too
        a_, b_ = fr.deref_operand(args[0]), fr.operand(args[1])
        for _ in range(2):
            if isinstance(b_, Ref):
                b_ = fr._project(fr.store.get(b_.root, TOP), b_.proj)
            if isinstance(a_, Ref):
                a_ = fr._project(fr.store.get(a_.root, TOP), a_.proj)
        tmp_ = {'l': -7, 'p': []}
        I._assign(fr, {'k': 'assign', 'place': tmp_, 'rv': {'k': 'binop', 'op': OPS_ASSIGN_TRAITS[trait][1], 'a': ['v', a_], 'b': ['v', b_]}})
        fr.store_through(args[0], fr.store.pop(-7, TOP))
        fr.storev(dest, Agg([]))
        return True

    # ------------------------------------------------------------------ closures called directly
    if trait in ('std::ops::Fn', 'std::ops::FnMut', 'std::ops::FnOnce') and name in ('call', 'call_mut', 'call_once') and len(args) == 2:
        cl = I._closure_value(fr, args[0])
        if cl is None:
            p = op_place(args[0])
            tgt = fr.res.ref_target(p['l']) if p is not None and not p['p'] else None
            if tgt is not None and not tgt['p']:
                cl = I._closure_value(fr, ['m', tgt])
        if cl is not None:
            tup = fr.operand(args[1])
            if isinstance(tup, Agg):
                ret = I._call_closure_rw(fr, cl[0], cl[1], list(tup.items), where)
                fr.storev(dest, ret)
                return True
        return False

    # ------------------------------------------------------------------ integer from bool: a decided bit, or one path per value
    if name == 'from' and trait == 'std::convert::From' and len(args) == 1 and c.get('self_ty') in ('u8', 'u16', 'u32', 'u64', 'usize', 'i32', 'i64') and (c.get('targs') or [None])[-1] == 'bool':
        b = fr.operand(args[0])
        if isinstance(b, Int):
            fr.storev(dest, Int(1 if b.v else 0, 8))
            return True
        if isinstance(b, tuple) and len(b) == 2 and b[0] == 'bool' and I._fork_ctx is not None:
            return I.fork_alternatives(fr, t, pth, [(Int(0, 8), [(b[1], 0)], []), (Int(1, 8), [(b[1], 1)], [])])
        return False
    # ------------------------------------------------------------------ byte representations of known integers
    if name in ('to_be_bytes', 'to_le_bytes') and '::num::<impl u' in d and len(args) == 1:
        v_ = as_int(fr.operand(args[0]))
        bits_ = {'u16': 16, 'u32': 32, 'u64': 64, 'usize': 64, 'u8': 8, 'u128': 128}.get(d.split('<impl ')[1].split('>')[0])
        if v_ is not None and bits_:
            bs = [Int((v_ >> (8 * k_)) & 0xff, 8) for k_ in range(bits_ // 8)]
            fr.storev(dest, Agg(bs if name == 'to_le_bytes' else list(reversed(bs))))
            return True
        return False
    # ------------------------------------------------------------------ mem::replace / mem::swap
    if d.startswith('std::mem::replace') and len(args) == 2:
        old_ = fr.deref_operand(args[0])
        if fr.store_through(args[0], fr.operand(args[1])):
            fr.storev(dest, old_)
            return True
        return False
    if d.startswith('std::mem::swap') and len(args) == 2:
        a_, b_ = fr.deref_operand(args[0]), fr.deref_operand(args[1])
        if fr.store_through(args[0], b_) and fr.store_through(args[1], a_):
            fr.storev(dest, Agg([]))
            return True
        return False
    # ------------------------------------------------------------------ one-element / empty / repeated iterators
    if d.startswith('std::iter::once') and len(args) == 1 and not d.startswith('std::iter::once_with'):
        fr.storev(dest, SliceIt([fr.operand(args[0])], 0))
        return True
    if d.startswith('std::iter::empty') and not args:
        fr.storev(dest, SliceIt([], 0))
        return True
    # ------------------------------------------------------------------ equality of fully known Option<integer> / integer values
    if trait == 'std::cmp::PartialEq' and name in ('eq', 'ne') and len(args) == 2:
        def known(v):
            for _ in range(3):
                if isinstance(v, Ref):
                    v = fr._project(fr.store.get(v.root, TOP), v.proj)
            if isinstance(v, Int):
                return ('int', v.v)
            if isinstance(v, Opt) and v.tag == 'none':
                return ('none',)
            if isinstance(v, Opt) and v.tag == 'some' and isinstance(v.payload, Int):
                return ('some', v.payload.v)
            return None
        a, b = known(fr.deref_operand(args[0])), known(fr.deref_operand(args[1]))
        if a is not None and b is not None and (a[0] == 'int') == (b[0] == 'int'):
            fr.storev(dest, Int(int((a == b) == (name == 'eq')), 1))
            return True
    # ------------------------------------------------------------------ checked integer arithmetic on known values
    if name in ('checked_sub', 'checked_add', 'checked_mul') and ('::num::<impl usize>::' in d or '::num::<impl u64>::' in d) and len(args) == 2:
        a, b = as_int(fr.operand(args[0])), as_int(fr.operand(args[1]))
        if a is not None and b is not None:
            r = {'checked_sub': a - b, 'checked_add': a + b, 'checked_mul': a * b}[name]
            fr.storev(dest, Opt('some', Int(r)) if 0 <= r < (1 << 64) else Opt('none', TOP))
            return True
        return False
    # ------------------------------------------------------------------ first / last element of a known sequence
    if name in ('first', 'last') and res.startswith('core::slice::<impl [T]>::' + name) and len(args) == 1:
        s = seq_of(I, fr, args[0])
        if isinstance(s, Agg):
            fr.storev(dest, Opt('some', s.items[0 if name == 'first' else -1]) if s.items else Opt('none', TOP))
            return True
        return False
    # ------------------------------------------------------------------ integer conversions that cannot fail on 64-bit targets
    if name == 'try_from' and trait == 'std::convert::TryFrom' and len(args) == 1 and (c.get('self_ty') in ('usize', 'u64', 'u128') and (c.get('targs') or [None, None])[-1] in ('u64', 'usize', 'u32', 'u16', 'u8')):
        v = fr.operand(args[0])
        if isinstance(v, (Int, BV)):
            fr.storev(dest, Opt('none', v))        # Ok(v): widening or same-width unsigned conversion
            return True
    if name == 'try_from' and trait == 'std::convert::TryFrom' and len(args) == 1 and c.get('self_ty') in ('u8', 'u16', 'u32', 'u64', 'usize', 'i64', 'i32'):
        v = fr.operand(args[0])
        src_ty = (c.get('targs') or [None, None])[-1]
        if isinstance(v, Int) and src_ty in ('u8', 'u16', 'u32', 'u64', 'usize', 'u128'):
            bits = {'u8': 8, 'u16': 16, 'u32': 32, 'u64': 64, 'usize': 64, 'i64': 63, 'i32': 31}[c['self_ty']]
            fr.storev(dest, Opt('none', Int(v.v, 64)) if 0 <= v.v < (1 << bits) else Opt('some', TOP))
            return True

    if name == 'partition_point' and 'slice' in res and len(args) == 2:
        v = fr.deref_operand(args[0])
        for _ in range(4):
            if isinstance(v, Ref):
                v = fr._project(fr.store.get(v.root, TOP), v.proj)
        cl = I._closure_value(fr, args[1])
        if isinstance(v, Agg) and cl is not None:
            outs = []
            for item in v.items:
                try:
                    outs.append(I._call_closure_rw(fr, cl[0], cl[1], [('byref', item)], where))
                except NotDerivable:
                    outs.append(TOP)
            if all(isinstance(o, Int) for o in outs):
                k = 0
                while k < len(outs) and outs[k].v:
                    k += 1
                fr.storev(dest, Int(k))
                return True
            # undecided predicate: the result is some index 0..=len (the slice is assumed partitioned, as the API requires)
            return I.fork_values(fr, t, pth, [Int(k) for k in range(len(v.items) + 1)], ('partition_point', where))
        return False

    # ------------------------------------------------------------------ inclusive ranges
    if (d.startswith('std::ops::RangeInclusive::<Idx>::new') or res.startswith('std::ops::RangeInclusive::<Idx>::new')) and len(args) == 2:
        a, b = as_int(fr.operand(args[0])), as_int(fr.operand(args[1]))
        if a is not None and b is not None:
            fr.storev(dest, RangeIt(a, max(a, b + 1)))
            return True
        return False
    # ------------------------------------------------------------------ iterator sources
    if name in ('iter',) and res.startswith('core::slice::<impl [T]>::iter'):
        s = seq_of(I, fr, args[0])
        if isinstance(s, Agg):
            fr.storev(dest, SliceIt(s.items, 0))
            return True
        return False
    if (name == 'iter_mut' and res.startswith('core::slice::<impl [T]>::iter_mut')) or \
            (name == 'into_iter' and (res.startswith("<&'a mut std::vec::Vec") or res.startswith('core::slice::iter::<impl std::iter::IntoIterator for &mut') or res.startswith("core::slice::iter::<impl std::iter::IntoIterator for &'a mut") or res.startswith('std::array::<impl std::iter::IntoIterator for &mut') or res.startswith("std::array::<impl std::iter::IntoIterator for &'a mut"))):
        rp = ref_of(fr, args[0])
        if rp is not None:
            arr = fr._project(fr.store.get(rp[0], TOP), rp[1])
            if isinstance(arr, Agg):
                fr.storev(dest, SliceIt([Ref(rp[0], list(rp[1]) + [['ci', i, 0, False]]) for i in range(len(arr.items))], 0))
                return True
        return False
    if name == 'into_iter' and (res.startswith("<&'a std::vec::Vec") or res.startswith('<std::vec::Vec<T, A> as std::iter::IntoIterator>') or res.startswith('<std::vec::Vec<T> as std::iter::IntoIterator>') or res.startswith('std::array::<impl std::iter::IntoIterator for [T; N]>')):
        s = seq_of(I, fr, args[0])
        if isinstance(s, Agg):
            fr.storev(dest, SliceIt(s.items, 0))
            return True
        return False
    if name == 'windows' and res.startswith('core::slice::<impl [T]>::windows') and len(args) == 2:
        s = seq_of(I, fr, args[0])
        n = as_int(fr.operand(args[1]))
        if isinstance(s, Agg) and n:
            fr.storev(dest, SliceIt([Agg(s.items[i:i + n]) for i in range(max(0, len(s.items) - n + 1))], 0))
            return True
        return False

    # ------------------------------------------------------------------ iterator adaptors
    if trait == 'std::iter::Iterator':
        if name in ('enumerate', 'copied', 'cloned', 'by_ref', 'fuse', 'peekable') and len(args) >= 1:
            inner = fr.operand(args[0]) if name != 'by_ref' else fr.deref_operand(args[0])
            if is_iter(inner) and name != 'by_ref':
                fr.storev(dest, GenIt('enumerate', inner, 0) if name == 'enumerate' else inner)
                return True
            return False
        if name == 'flat_map' and len(args) == 2:
            # evaluated eagerly, item by item, in order (what a sequential consumer such as collect observes)
            inner = fr.operand(args[0])
            cl = I._closure_value(fr, args[1])
            if is_iter(inner) and cl is not None:
                out = []
                for item in drain(I, inner, where):
                    cl = I._closure_value(fr, args[1])
                    r = I._call_closure_rw(fr, cl[0], cl[1], [item], where)
                    if is_iter(r):
                        out.extend(drain(I, r, where))
                    elif isinstance(r, Opt) and r.tag in ('some', 'none'):
                        if r.tag == 'some':
                            out.append(r.payload)
                    elif isinstance(r, Agg):
                        out.extend(r.items)
                    else:
                        raise NotDerivable('flat_map closure result is not a modelled sequence (%r)' % (r,), where)
                fr.storev(dest, SliceIt(out, 0))
                return True
            return False
        if name == 'scan' and len(args) == 3:
            # evaluated eagerly: the state lives in a place of its own and the closure gets `&mut state`
            inner = fr.operand(args[0])
            cl = I._closure_value(fr, args[2])
            if is_iter(inner) and cl is not None:
                I.fresh += 1
                key = ('scan-state', I.fresh)
                fr.store[key] = fr.operand(args[1])
                out = []
                for item in drain(I, inner, where):
                    r = I._call_closure_rw(fr, cl[0], cl[1], [Ref(key, []), item], where)
                    if not (isinstance(r, Opt) and r.tag in ('some', 'none')):
                        raise NotDerivable('scan closure result not decided', where)
                    if r.tag == 'none':
                        break
                    out.append(r.payload)
                fr.store.pop(key, None)
                fr.storev(dest, SliceIt(out, 0))
                return True
            return False
        if name in ('zip', 'chain') and len(args) == 2:
            a = fr.operand(args[0])
            b = as_iter(I, fr, args[1])
            if is_iter(a) and b is not None:
                fr.storev(dest, GenIt(name, a, b))
                return True
            return False
        if name in ('skip', 'take') and len(args) == 2:
            a = fr.operand(args[0])
            n = as_int(fr.operand(args[1]))
            if is_iter(a) and n is not None and not hasattr(a, 'entries'):
                fr.storev(dest, GenIt(name, a, n))
                return True
            return False
        if name == 'rev' and len(args) == 1:
            a = fr.operand(args[0])
            if isinstance(a, SliceIt):
                fr.storev(dest, SliceIt(list(reversed(a.items[a.pos:])), 0))
                return True
            if isinstance(a, RangeIt) and a.end - a.cur <= 65536:
                fr.storev(dest, SliceIt([Int(i) for i in range(a.end - 1, a.cur - 1, -1)], 0))
                return True
            if is_iter(a) and not hasattr(a, 'entries'):
                # any other finite modelled iterator: materialise and reverse
                fr.storev(dest, SliceIt(list(reversed(drain(I, a, where))), 0))
                return True
            return False
        if name == 'for_each' and len(args) == 2:
            itv = fr.operand(args[0])
            cl = I._closure_value(fr, args[1])
            if is_iter(itv) and cl is not None:
                for item in drain(I, itv, where):
                    # captured state may be written by the closure: re-read the captures each time
                    cl = I._closure_value(fr, args[1])
                    I._call_closure_rw(fr, cl[0], cl[1], [item], where)
                fr.storev(dest, Agg([]))
                return True
            return False
        if name == 'try_for_each' and len(args) == 2:
            # stops at the first item whose result is the second variant (Err / None / Break); the closure may have several
            # paths (the calling path forks, see Interp.choose), an undecided result is decided by a choice of its own
            itv = fr.deref_operand(args[0])
            cl = I._closure_value(fr, args[1])
            if is_iter(itv) and cl is not None:
                it_ = itv
                stop = None
                for _ in range(100000):
                    v, it_ = I._iter_next(it_, where)
                    if v.tag != 'some':
                        break
                    cl = I._closure_value(fr, args[1])
                    r = I._call_closure_rw(fr, cl[0], cl[1], [v.payload], where)
                    o = two_variant(r, True)
                    if o is None:
                        raise NotDerivable('try_for_each closure result is not a modelled two-variant value', where)
                    o = decide_variant(I, o, where)
                    if o.tag == 'some':
                        stop = r if not isinstance(r, Opt) else o
                        break
                fr.store_through(args[0], it_)
                dty = fr.body.local_ty(dest['l']) if not dest['p'] else ''
                if stop is not None:
                    fr.storev(dest, stop)
                elif dty.startswith('std::option::Option<'):
                    fr.storev(dest, Opt('some', Agg([])))
                else:
                    fr.storev(dest, Opt('none', Agg([])))
                return True
            return False
        if name in ('all', 'any', 'find', 'position') and len(args) == 2:
            itv = fr.deref_operand(args[0])
            cl = I._closure_value(fr, args[1])
            if is_iter(itv) and cl is not None:
                items = drain(I, itv, where)
                out = None
                sym_alts, sym_prefix = [], []
                for k, item in enumerate(items):
                    arg = item if name in ('all', 'any', 'position') else ('byref', item)
                    r = I._call_closure_rw(fr, cl[0], cl[1], [arg], where)
                    if name in ('all', 'any') and isinstance(r, tuple) and len(r) == 2 and r[0] == 'bool':
                        # an undecided per-item test: one outcome per item that can stop the scan, under the tests that select it
                        stop = 0 if name == 'all' else 1
                        sym_alts.append((Int(stop, 1), sym_prefix + [(r[1], stop)], []))
                        sym_prefix = sym_prefix + [(r[1], 1 - stop)]
                        continue
                    if name in ('find', 'position') and isinstance(r, tuple) and len(r) == 2 and r[0] == 'bool':
                        # an undecided per-item test: the scan stops at the first item whose test holds
                        hit = Opt('some', item) if name == 'find' else Opt('some', Int(k))
                        sym_alts.append((hit, sym_prefix + [(r[1], 1)], []))
                        sym_prefix = sym_prefix + [(r[1], 0)]
                        continue
                    if not isinstance(r, Int):
                        if name == 'find':
                            # undecided predicate: the result is one of the remaining items or None
                            return I.fork_values(fr, t, pth, [Opt('some', it_) for it_ in items[k:]] + [Opt('none', TOP)], ('find', where))
                        return False
                    if name == 'all' and not r.v:
                        out = Int(0, 1)
                        break
                    if name == 'any' and r.v:
                        out = Int(1, 1)
                        break
                    if name == 'find' and r.v:
                        out = Opt('some', item)
                        break
                    if name == 'position' and r.v:
                        out = Opt('some', Int(k))
                        break
                if out is None:
                    out = {'all': Int(1, 1), 'any': Int(0, 1)}.get(name, Opt('none', TOP))
                if sym_alts:
                    return I.fork_alternatives(fr, t, pth, sym_alts + [(out, sym_prefix, [])])
                fr.storev(dest, out)
                return True
            return False
        if name == 'find_map' and len(args) == 2:
            # the first item whose closure result is Some; a closure with a data-dependent test has two paths per item,
            # so the call has one outcome per item plus "none matched", each under the tests that select it
            itv = fr.deref_operand(args[0])
            cl = I._closure_value(fr, args[1])
            if is_iter(itv) and cl is not None:
                alts = []
                prefix_l, prefix_e = [], []
                exhausted = True
                for item in drain(I, itv, where):
                    paths = I._call_closure_paths(fr, cl[0], cl[1], [item], where)
                    somes = [(p_, r_) for p_, r_ in paths if isinstance(r_, Opt) and r_.tag == 'some']
                    nones = [(p_, r_) for p_, r_ in paths if isinstance(r_, Opt) and r_.tag == 'none']
                    if len(somes) + len(nones) != len(paths) or len(nones) > 1:
                        return False
                    for p_, r_ in somes:
                        alts.append((Opt('some', r_.payload), prefix_l + list(p_.labels), prefix_e + list(p_.events)))
                    if not nones:
                        exhausted = False
                        break
                    prefix_l = prefix_l + list(nones[0][0].labels)
                    prefix_e = prefix_e + list(nones[0][0].events)
                if exhausted:
                    alts.append((Opt('none', TOP), prefix_l, prefix_e))
                if len(alts) == 1:
                    pth.labels = list(pth.labels) + list(alts[0][1])
                    pth.events.extend(alts[0][2])
                    fr.storev(dest, alts[0][0])
                    return True
                return I.fork_alternatives(fr, t, pth, alts)
            return False
        if name == 'count' and len(args) == 1:
            itv = fr.operand(args[0])
            if is_iter(itv):
                try:
                    fr.storev(dest, Int(len(drain(I, itv, where))))
                    return True
                except NotDerivable:
                    # an undecided test in a filtering adaptor: the count is some number up to the length of what it filters
                    if isinstance(itv, AdaptIt) and itv.kind in ('take_while', 'filter', 'skip_while') and is_iter(itv.inner):
                        try:
                            n_ = len(drain(I, itv.inner, where))
                        except NotDerivable:
                            return False
                        return I.fork_values(fr, t, pth, [Int(k_) for k_ in range(n_ + 1)], ('count', where))
                    return False
            return False
        if name == 'fold' and len(args) == 3:
            itv = fr.operand(args[0])
            acc = fr.operand(args[1])
            cl = I._closure_value(fr, args[2])
            if is_iter(itv) and cl is not None:
                for item in drain(I, itv, where):
                    acc = I._call_closure_rw(fr, cl[0], cl[1], [acc, item], where)
                fr.storev(dest, acc)
                return True
            return False
        if name == 'last' and len(args) == 1:
            itv = fr.operand(args[0])
            if is_iter(itv):
                items = drain(I, itv, where)
                fr.storev(dest, Opt('some', items[-1]) if items else Opt('none', TOP))
                return True
            return False

    # ------------------------------------------------------------------ Option combinators
    if d.startswith('std::option::Option') and name is None:
        name = d.rsplit('::', 1)[-1]
    if d.startswith('std::option::Option::<T>::'):
        m = d.rsplit('::', 1)[-1]
        o = fr.operand(args[0]) if args else None
        for _ in range(4):
            if isinstance(o, Ref):
                o = fr._project(fr.store.get(o.root, TOP), o.proj)
        if o is TOP and args:
            o = fr.deref_operand(args[0])
        if m in ('map_or',) and len(args) == 3 and isinstance(o, Opt) and o.tag in ('some', 'none'):
            if o.tag == 'none':
                fr.storev(dest, fr.operand(args[1]))
                return True
            cl = I._closure_value(fr, args[2])
            if cl is not None:
                fr.storev(dest, I._call_closure_rw(fr, cl[0], cl[1], [o.payload], where))
                return True
            return False
        if m == 'map' and len(args) == 2 and isinstance(o, Opt):
            cl = I._closure_value(fr, args[1])
            if cl is None:
                return False
            if o.tag == 'none':
                fr.storev(dest, Opt('none', TOP, o.label))
                return True
            if o.tag is None:
                o = decide_variant(I, o, where)
                if o.tag == 'none':
                    fr.storev(dest, Opt('none', TOP, o.label))
                    return True
            # the closure runs in the caller's state (captured places are written back, its events and -- when it has
            # several paths -- its branch labels become the calling path's)
            r_ = I._call_closure_rw(fr, cl[0], cl[1], [o.payload], where)
            fr.storev(dest, Opt('some', r_, o.label))
            return True
        if m == 'unwrap_or' and len(args) == 2 and isinstance(o, Opt) and o.tag in ('some', 'none'):
            fr.storev(dest, o.payload if o.tag == 'some' else fr.operand(args[1]))
            return True
        if m in ('is_some', 'is_none') and isinstance(o, Opt) and o.tag in ('some', 'none'):
            fr.storev(dest, Int(int((o.tag == 'some') == (m == 'is_some')), 1))
            return True

    # ------------------------------------------------------------------ equality of fieldless enum values
    if trait == 'std::cmp::PartialEq' and name in ('eq', 'ne') and len(args) == 2:
        a, b = fr.deref_operand(args[0]), fr.deref_operand(args[1])
        for _ in range(4):
            if isinstance(a, Ref):
                a = fr._project(fr.store.get(a.root, TOP), a.proj)
            if isinstance(b, Ref):
                b = fr._project(fr.store.get(b.root, TOP), b.proj)
        if isinstance(a, Agg) and isinstance(b, Agg) and a.kind and b.kind and a.kind[0] == b.kind[0] and not a.items and not b.items and isinstance(a.kind[1], str):
            fr.storev(dest, Int(int((a.kind[1] == b.kind[1]) == (name == 'eq')), 1))
            return True

    # ------------------------------------------------------------------ integers
    if (d in ('std::cmp::min', 'std::cmp::max') or (trait == 'std::cmp::Ord' and name in ('min', 'max'))) and len(args) == 2:
        a, b = as_int(fr.operand(args[0])), as_int(fr.operand(args[1]))
        if a is not None and b is not None:
            fr.storev(dest, Int(min(a, b) if d.endswith('min') or name == 'min' else max(a, b)))
            return True
        return False

    # ------------------------------------------------------------------ Vec / slice plumbing
    if res.startswith('std::vec::Vec::<T>::with_capacity') or res.startswith('std::vec::Vec::<T>::new'):
        fr.storev(dest, Agg([], ('vec', 'Vec')))
        return True
    if (d == 'std::vec::from_elem' or res.startswith('std::vec::from_elem')) and len(args) == 2:
        n = as_int(fr.operand(args[1]))
        if n is not None and n <= 4096:
            fr.storev(dest, Agg([fr.operand(args[0])] * n, ('vec', 'Vec')))
            return True
        return False
    if 'std::vec::Vec' in res:
        if name in ('truncate', 'clear'):
            v = fr.deref_operand(args[0])
            n_ = fr.operand(args[1]) if name == 'truncate' else Int(0)
            if isinstance(v, Agg) and as_int(n_) is not None:
                fr.store_through(args[0], Agg(v.items[:as_int(n_)], v.kind))
                return True
            return False
        if name in ('reserve', 'reserve_exact', 'shrink_to_fit'):
            return True
        if name == 'push':
            v = fr.deref_operand(args[0])
            if isinstance(v, Agg):
                fr.store_through(args[0], Agg(v.items + [fr.operand(args[1])], v.kind))
                return True
            return False
        if name == 'extend_from_slice':
            v = fr.deref_operand(args[0])
            s = seq_of(I, fr, args[1])
            if isinstance(v, Agg) and isinstance(s, Agg):
                fr.store_through(args[0], Agg(v.items + list(s.items), v.kind))
                return True
            return False
        if name == 'append':
            v = fr.deref_operand(args[0])
            w = fr.deref_operand(args[1])
            if isinstance(v, Agg) and isinstance(w, Agg):
                fr.store_through(args[0], Agg(v.items + list(w.items), v.kind))
                fr.store_through(args[1], Agg([], w.kind))
                return True
            return False
        if name == 'resize' and len(args) == 3:
            v = fr.deref_operand(args[0])
            n_ = as_int(fr.operand(args[1]))
            if isinstance(v, Agg) and n_ is not None and n_ <= 65536:
                items = list(v.items[:n_]) + [fr.operand(args[2])] * max(0, n_ - len(v.items))
                fr.store_through(args[0], Agg(items, v.kind))
                return True
            return False
        if name == 'len':
            v = seq_of(I, fr, args[0])
            if isinstance(v, Agg):
                fr.storev(dest, Int(len(v.items)))
                return True
            return False
        if name == 'is_empty' and len(args) == 1:
            v = seq_of(I, fr, args[0])
            if isinstance(v, Agg):
                fr.storev(dest, Int(int(not v.items), 1))
                return True
            return False
        if name in ('deref', 'deref_mut', 'as_slice', 'as_mut_slice', 'as_ref', 'as_mut', 'borrow', 'borrow_mut'):
            rp = ref_of(fr, args[0])
            if rp is not None:
                fr.storev(dest, Ref(rp[0], rp[1]))
                return True
            v = fr.deref_operand(args[0])
            if isinstance(v, Agg):
                fr.storev(dest, v)
                return True
            return False
    if name == 'collect' and trait == 'std::iter::Iterator' and len(args) == 1:
        itv = fr.operand(args[0])
        dty = fr.body.local_ty(dest['l']) if not dest['p'] else ''
        if is_iter(itv) and (dty.startswith('std::result::Result<std::vec::Vec<') or dty.startswith('std::option::Option<std::vec::Vec<')):
            # FromIterator for Result<Vec<_>, E> / Option<Vec<_>>: consumes items up to and including the first Err / None
            is_res = dty.startswith('std::result::Result<')
            out = []
            it_ = itv
            for _ in range(100000):
                v, it_ = I._iter_next(it_, where)
                if v.tag != 'some':
                    fr.storev(dest, Opt('none' if is_res else 'some', Agg(out, ('vec', 'Vec'))))
                    return True
                o = two_variant(v.payload, is_res)
                if o is None:
                    raise NotDerivable('collect into %s of items that are not modelled two-variant values (%r)' % ('Result' if is_res else 'Option', v.payload), where)
                o = decide_variant(I, o, where)
                good = (o.tag == 'none') if is_res else (o.tag == 'some')
                if not good:
                    fr.storev(dest, Opt('some', o.payload) if is_res else Opt('none', TOP))
                    return True
                out.append(o.payload)
            raise NotDerivable('iterator did not terminate', where)
        if is_iter(itv):
            fr.storev(dest, Agg(drain(I, itv, where), ('vec', 'Vec')))
            return True
        return False
    if name in ('is_empty',) and (res.startswith('core::slice::<impl [T]>::is_empty') or 'std::vec::Vec' in res):
        v = seq_of(I, fr, args[0])
        if isinstance(v, Agg):
            fr.storev(dest, Int(int(not v.items), 1))
            return True
        return False
    if name in ('split_last', 'split_first') and res.startswith('core::slice::<impl [T]>::split_') and len(args) == 1:
        v = seq_of(I, fr, args[0])
        if isinstance(v, Agg):
            if not v.items:
                fr.storev(dest, Opt('none', TOP))
            elif name == 'split_last':
                fr.storev(dest, Opt('some', Agg([v.items[-1], Agg(v.items[:-1])])))
            else:
                fr.storev(dest, Opt('some', Agg([v.items[0], Agg(v.items[1:])])))
            return True
        return False
    if name in ('first', 'last') and res.startswith('core::slice::<impl [T]>::') and len(args) == 1:
        v = seq_of(I, fr, args[0])
        if isinstance(v, Agg):
            fr.storev(dest, Opt('some', v.items[0 if name == 'first' else -1]) if v.items else Opt('none', TOP))
            return True
        return False
    if name == 'split_at' and res.startswith('core::slice::<impl [T]>::split_at') and len(args) == 2:
        v = seq_of(I, fr, args[0])
        k = as_int(fr.operand(args[1]))
        if isinstance(v, Agg) and k is not None and k <= len(v.items):
            fr.storev(dest, Agg([Agg(v.items[:k]), Agg(v.items[k:])]))
            return True
        return False
    if name == 'split_at_mut' and res.startswith('core::slice::<impl [T]>::split_at_mut') and len(args) == 2:
        rp = ref_of(fr, args[0])
        k = as_int(fr.operand(args[1]))
        if rp is not None and k is not None:
            arr = fr._project(fr.store.get(rp[0], TOP), [e for e in rp[1] if e[0] != 'off'])
            if isinstance(arr, Agg):
                lo = sum(e[1] for e in rp[1] if e[0] == 'off')
                base = [e for e in rp[1] if e[0] != 'off']
                n_ = len(arr.items) - lo
                if k <= n_:
                    fr.storev(dest, Agg([Ref(rp[0], base + [['off', lo, k]]), Ref(rp[0], base + [['off', lo + k, n_ - k]])]))
                    return True
        return False
    if name == 'to_vec' and res.startswith('std::slice::<impl [T]>::to_vec'):
        v = seq_of(I, fr, args[0])
        if isinstance(v, Agg):
            fr.storev(dest, Agg(list(v.items), ('vec', 'Vec')))
            return True
        return False
    # checked slicing: <[T]>::get(range) with known ends
    if name == 'get' and len(args) == 2 and res.startswith('core::slice::<impl [T]>::get'):
        rp_ = op_place(args[1])
        ty = fr.body.local_ty(rp_['l']) if rp_ is not None and not rp_['p'] else ''
        rng = fr.operand(args[1])
        s = seq_of(I, fr, args[0])
        if isinstance(s, Agg):
            if ty.startswith('std::ops::Range<') and isinstance(rng, RangeIt):
                lo, hi = rng.cur, rng.end
                # RangeIt normalises end >= start; an inverted range is rare enough to leave undecided
                fr.storev(dest, Opt('some', Agg(s.items[lo:hi])) if lo <= hi <= len(s.items) else Opt('none', TOP))
                return True
            k = as_int(rng)
            if k is not None and ty in ('usize', ''):
                fr.storev(dest, Opt('some', s.items[k]) if k < len(s.items) else Opt('none', TOP))
                return True
        return False
    # slicing with ranges whose ends are known
    if name in ('index', 'index_mut') and len(args) == 2 and ('std::vec::Vec' in res or res.startswith('core::slice::index::<impl std::ops::Index') or res.startswith('std::array::<impl std::ops::Index')):
        rp_ = op_place(args[1])
        ty = fr.body.local_ty(rp_['l']) if rp_ is not None and not rp_['p'] else ''
        rng = fr.operand(args[1])
        if ty.startswith('std::ops::Range<') and isinstance(rng, RangeIt):
            lo, hi = rng.cur, rng.end
        elif ty.endswith('RangeFull'):
            lo, hi = 0, None
        elif ty.startswith('std::ops::RangeTo<') and isinstance(rng, Agg) and len(rng.items) == 1 and as_int(rng.items[0]) is not None:
            lo, hi = 0, as_int(rng.items[0])
        elif ty.startswith('std::ops::RangeFrom<') and isinstance(rng, Agg) and len(rng.items) == 1 and as_int(rng.items[0]) is not None:
            lo, hi = as_int(rng.items[0]), None
        else:
            k = as_int(rng)
            if k is not None and (ty in ('usize',) or not ty):
                rp = ref_of(fr, args[0])
                if rp is not None:
                    fr.storev(dest, Ref(rp[0], list(rp[1]) + [['ci', k, 0, False]]))
                    return True
                s = seq_of(I, fr, args[0])
                if isinstance(s, Agg) and k < len(s.items) and name == 'index':
                    fr.storev(dest, s.items[k])
                    return True
            return False
        if name == 'index':
            s = seq_of(I, fr, args[0])
            if isinstance(s, Agg):
                h = len(s.items) if hi is None else hi
                if lo <= h <= len(s.items):
                    fr.storev(dest, Agg(s.items[lo:h]))
                    return True
                raise exp.Diverged(where)       # known bounds outside a sequence of known length: the indexing panics
            return False
        rp = ref_of(fr, args[0])
        if rp is not None and (hi is None):
            fr.storev(dest, Ref(rp[0], list(rp[1]) + ([['off', lo]] if lo else [])))
            return True
        if rp is not None and hi is not None:
            # a bounded mutable view: in range when the underlying sequence is known to be long enough
            s = seq_of(I, fr, args[0])
            if isinstance(s, Agg) and lo <= hi <= len(s.items):
                fr.storev(dest, Ref(rp[0], list(rp[1]) + [['off', lo, hi - lo]]))
                return True
            if isinstance(s, Agg):
                raise exp.Diverged(where)
        return False
    return False


# ---------------------------------------------------------------------- Result / Option plumbing
def two_variant(v, is_result):
    """Normalise an abstract Option / Result to an Opt (variant 0 = None / Ok, variant 1 = Some / Err)."""
    if isinstance(v, Opt):
        return v
    if is_result and isinstance(v, tuple) and len(v) == 2 and v[0] == 'residual':
        # what `?` returned from a function on its failure edge (FromResidual), kept symbolic by the stream models
        return Opt('some', v)
    if isinstance(v, Agg) and v.kind and isinstance(v.kind[0], str):
        if v.kind[0].endswith('result::Result') and v.kind[1] in ('Ok', 'Err'):
            return Opt('none' if v.kind[1] == 'Ok' else 'some', v.items[0] if v.items else Agg([]))
        if v.kind[0].endswith('ops::ControlFlow') and v.kind[1] in ('Continue', 'Break'):
            return Opt('none' if v.kind[1] == 'Continue' else 'some', v.items[0] if v.items else Agg([]))
    return None


def decide_variant(I, o, where):
    """A decided copy of a two-variant value: an undecided one is decided by a nondeterministic choice of the model (the
    calling path forks) and the choice is recorded under the value's own label."""
    if o.tag in ('some', 'none'):
        return o
    j = I.choose(2, where)
    cp_ = getattr(I, '_cur_path', None)
    if cp_ is not None:
        cp_.labels = cp_.labels + [(o.label if o.label is not None else 'two-variant@%s' % where, j)]
    pl = o.payload
    if isinstance(pl, Either):
        pl = pl.pick(j)
    return Opt('some' if j else 'none', pl, o.label)


def side(o, variant):
    pl = o.payload
    return pl.pick(variant) if isinstance(pl, Either) else pl


def neg_label(l):
    if l is None:
        return None
    if isinstance(l, tuple) and l and l[0] == 'not':
        return l[1]
    return ('not', l)


def result_transfer(I, fr, t, c, pth):
    """`?`, map / map_err / ok_or / ok_or_else / unwrap / expect on modelled Option and Result values.  Combinators
    never fork: an undecided value keeps both sides (Either) and the closure is applied to its own side only."""
    name = c.get('name')
    trait = c.get('trait')
    d = c['def']
    args = t['args']
    dest = t['dest']
    where = t['span']
    targs = c.get('targs') or []
    if name == 'branch' and trait == 'std::ops::Try' and len(args) == 1:
        raw = fr.operand(args[0])
        is_res = bool(targs and targs[0].startswith('std::result::Result'))
        is_opt = bool(targs and targs[0].startswith('std::option::Option'))
        o = two_variant(raw, is_res)
        if o is None or not (is_res or is_opt):
            return False
        if is_res:
            # Ok(v) -> Continue(v) ; Err(e) -> Break(Err(e))
            fr.storev(dest, Opt(o.tag, Either(side(o, 0), ('residual-err', side(o, 1))) if o.tag is None else (side(o, 0) if o.tag == 'none' else ('residual-err', side(o, 1))), o.label))
        else:
            # Some(v) -> Continue(v) ; None -> Break(None)
            tag = {'some': 'none', 'none': 'some', None: None}[o.tag]
            pl = Either(side(o, 1), ('residual-none',)) if tag is None else (side(o, 1) if tag == 'none' else ('residual-none',))
            fr.storev(dest, Opt(tag, pl, neg_label(o.label)))
        return True
    if name == 'from_residual' and len(args) == 1:
        r = fr.operand(args[0])
        if isinstance(r, tuple) and r and r[0] == 'residual-err':
            fr.storev(dest, Opt('some', r[1]))
            return True
        if isinstance(r, tuple) and r and r[0] == 'residual-none':
            fr.storev(dest, Opt('none', TOP))
            return True
        return False
    if d.startswith('std::cmp::Ordering::then') and len(args) == 2:
        a = fr.operand(args[0])
        if isinstance(a, Agg) and a.kind and a.kind[0] == 'std::cmp::Ordering' and a.kind[1] in ('Less', 'Equal', 'Greater'):
            if a.kind[1] != 'Equal':
                fr.storev(dest, a)
                return True
            if d.endswith('then_with'):
                cl = I._closure_value(fr, args[1])
                if cl is None:
                    return False
                fr.storev(dest, I._call_closure_rw(fr, cl[0], cl[1], [], where))
            else:
                fr.storev(dest, fr.operand(args[1]))
            return True
        return False
    if ('::bool>::then' in d or d.startswith('core::bool::<impl bool>::then') or d.startswith('std::bool::<impl bool>::then')) and len(args) == 2:
        b = fr.operand(args[0])
        if isinstance(b, Int):
            if not b.v:
                fr.storev(dest, Opt('none', TOP))
            elif d.endswith('then_some'):
                fr.storev(dest, Opt('some', fr.operand(args[1])))
            else:
                cl = I._closure_value(fr, args[1])
                if cl is None:
                    return False
                fr.storev(dest, Opt('some', I._call_closure_rw(fr, cl[0], cl[1], [], where)))
            return True
        if isinstance(b, tuple) and len(b) == 2 and b[0] == 'bool' and d.endswith('::then') and I._fork_ctx is not None:
            # an undecided condition: Some(f()) under it, None otherwise (two paths)
            cl = I._closure_value(fr, args[1])
            if cl is None:
                return False
            paths = I._call_closure_paths(fr, cl[0], cl[1], [], where)
            alts = [(Opt('none', TOP), [(b[1], 0)], [])]
            for p_, r_ in paths:
                alts.append((Opt('some', r_), [(b[1], 1)] + list(p_.labels), list(p_.events)))
            return I.fork_alternatives(fr, t, pth, alts)
        return False
    is_res_m = d.startswith('std::result::Result::<')
    is_opt_m = d.startswith('std::option::Option::<')        # also Option::<&T>::copied and friends
    if not (is_res_m or is_opt_m) or not args:
        return False
    m = d.rsplit('::', 1)[-1]
    o = two_variant(fr.operand(args[0]), is_res_m)
    if o is None:
        return False

    def call(clop, argv):
        cl = I._closure_value(fr, clop)
        if cl is None:
            raise NotDerivable('combinator argument is not a closure literal', where)
        return I._call_closure_rw(fr, cl[0], cl[1], argv, where)
    if is_res_m and m == 'map_err' and len(args) == 2:
        if o.tag == 'none':
            fr.storev(dest, o)
        elif o.tag == 'some':
            fr.storev(dest, Opt('some', call(args[1], [side(o, 1)]), o.label))
        else:
            fr.storev(dest, Opt(None, Either(side(o, 0), call(args[1], [side(o, 1)])), o.label))
        return True
    if is_res_m and m == 'map' and len(args) == 2:
        if o.tag == 'some':
            fr.storev(dest, o)
        elif o.tag == 'none':
            fr.storev(dest, Opt('none', call(args[1], [side(o, 0)]), o.label))
        else:
            fr.storev(dest, Opt(None, Either(call(args[1], [side(o, 0)]), side(o, 1)), o.label))
        return True
    if is_res_m and m == 'ok' and len(args) == 1:
        # Result -> Option: Ok(v) -> Some(v)
        tag = {'some': 'none', 'none': 'some', None: None}[o.tag]
        fr.storev(dest, Opt(tag, Either(TOP, side(o, 0)) if tag is None else side(o, 0), neg_label(o.label)))
        return True
    if is_opt_m and m in ('ok_or', 'ok_or_else') and len(args) == 2:
        # Option -> Result: Some(v) -> Ok(v), None -> Err(e)
        if m == 'ok_or':
            e = fr.operand(args[1])
        else:
            e = call(args[1], []) if o.tag != 'some' else TOP
        tag = {'some': 'none', 'none': 'some', None: None}[o.tag]
        pl = Either(side(o, 1), e) if tag is None else (side(o, 1) if tag == 'none' else e)
        fr.storev(dest, Opt(tag, pl, neg_label(o.label)))
        return True
    if is_opt_m and m in ('copied', 'cloned') and len(args) == 1:
        def deref_(v):
            for _ in range(4):
                if isinstance(v, Ref):
                    v = I._ref_value(fr, v)
            return v
        pl_ = o.payload
        if isinstance(pl_, Either):
            pl_ = Either(pl_.pick(0), deref_(pl_.pick(1)))
        else:
            pl_ = deref_(pl_)
        fr.storev(dest, Opt(o.tag, pl_, o.label))
        return True
    if is_opt_m and o.tag is not None and m in ('map_or', 'map_or_else', 'unwrap_or', 'unwrap_or_else', 'filter', 'and_then', 'or', 'or_else', 'unwrap_or_default'):
        some = o.tag == 'some'
        pl = side(o, 1)
        if m == 'map_or' and len(args) == 3:
            fr.storev(dest, call(args[2], [pl]) if some else fr.operand(args[1]))
            return True
        if m == 'map_or_else' and len(args) == 3:
            fr.storev(dest, call(args[2], [pl]) if some else call(args[1], []))
            return True
        if m == 'unwrap_or' and len(args) == 2:
            fr.storev(dest, pl if some else fr.operand(args[1]))
            return True
        if m == 'unwrap_or_else' and len(args) == 2:
            fr.storev(dest, pl if some else call(args[1], []))
            return True
        if m == 'and_then' and len(args) == 2:
            fr.storev(dest, call(args[1], [pl]) if some else Opt('none', TOP))
            return True
        if m == 'or' and len(args) == 2:
            fr.storev(dest, o if some else fr.operand(args[1]))
            return True
        if m == 'or_else' and len(args) == 2:
            fr.storev(dest, o if some else call(args[1], []))
            return True
        if m == 'filter' and len(args) == 2:
            if not some:
                fr.storev(dest, o)
                return True
            keep = call(args[1], [('byref', pl)])
            if isinstance(keep, Int):
                fr.storev(dest, o if keep.v else Opt('none', TOP))
                return True
            if isinstance(keep, tuple) and len(keep) == 2 and keep[0] == 'bool':
                # undecided predicate: Some(v) under it, None otherwise
                fr.storev(dest, Opt(None, Either(TOP, pl), keep[1]))
                return True
            return False
        return False
    if m in ('unwrap', 'expect') and len(args) >= 1:
        good = 0 if is_res_m else 1
        if o.tag is not None:
            if (o.tag == 'some') == bool(good):
                fr.storev(dest, side(o, good))
                return True
            pth.events.append(('unwrap-fails', where))
            return 'panic'
        # undecided: one continuing path with the good side, one panicking path
        if I._fork_ctx is not None:
            from exp import Path
            np_ = Path()
            np_.labels = list(pth.labels) + [(o.label or ('unwrap', where), 1 - good)]
            np_.events = list(pth.events) + [('unwrap-fails', where)]
            I._fork_ctx[1].append((np_, ('diverges', where), {}))
        pth.labels = list(pth.labels) + [(o.label or ('unwrap', where), good)]
        pth.events.append(('unwrap', o.label, where))
        fr.storev(dest, side(o, good))
        return True
    if m in ('is_ok', 'is_err', 'is_some', 'is_none') and o.tag is not None:
        v = {'is_ok': o.tag == 'none', 'is_err': o.tag == 'some', 'is_some': o.tag == 'some', 'is_none': o.tag == 'none'}[m]
        fr.storev(dest, Int(int(v), 1))
        return True
    return False

"""Limb-level predicates: u64 limbs of a canonical representation as named values on which only parity and zero tests
are observed.  `limb & 1` is the parity bit of the value (limb 0), `limb == 0`, `(l_a | l_b | ...) == 0` are zero
predicates on which paths fork; anything else leaves the domain (TOP) and is reported by the caller's rule."""
import exp
from exp import Agg, Int, TOP


class NLimb:
    """limb k of the representation of value i; `ks`: an OR of several limbs of one value"""
    __slots__ = ('i', 'ks')

    def __init__(self, i, ks):
        self.i, self.ks = i, frozenset(ks)

    def __repr__(self):
        return 'limbs%s(#%s)' % (sorted(self.ks), self.i)


def make_hook(parity):
    """binop hook; parity: dict / sequence value id -> low bit, or None when parity is not known"""
    def bh(op, a, b):
        if b is None:
            return None
        if isinstance(b, NLimb) and not isinstance(a, NLimb):
            if op not in ('BitAnd', 'BitOr', 'Eq', 'Ne'):
                return None
            a, b = b, a
        if not isinstance(a, NLimb):
            return None
        if op == 'BitAnd' and isinstance(b, Int) and b.v == 1 and a.ks == frozenset([0]) and parity is not None:
            return Int(parity[a.i])
        if op == 'BitOr' and isinstance(b, NLimb) and b.i == a.i:
            return NLimb(a.i, a.ks | b.ks)
        if op == 'BitOr' and isinstance(b, Int) and b.v == 0:
            return a
        if op in ('Eq', 'Ne') and isinstance(b, Int) and b.v == 0:
            pred = ('zero', a.i, tuple(sorted(a.ks)))
            return ('bool', pred) if op == 'Eq' else ('bool', ('not', pred))
        return None
    return bh


def established(pth, parity=None):
    """From a path's literals: (est, zero_limbs, bad literal, infeasible) with est[i] in (True, False, None) = what the
    path has established about `value i is zero` given n limbs each (see callers)."""
    import tt
    est, zero_limbs = {}, {}
    bad, infeasible = None, False
    for k_, t_, lab_ in tt.path_literals(pth):
        if not (isinstance(k_, tuple) and k_ and k_[0] == 'zero'):
            bad = lab_
            break
        i_, ks_ = k_[1], set(k_[2])
        zero_limbs.setdefault(i_, set())
        est.setdefault(i_, None)
        if t_:
            zero_limbs[i_] |= ks_
            if 0 in ks_ and parity is not None and parity[i_]:
                infeasible = True
        else:
            if ks_ <= zero_limbs[i_]:
                infeasible = True
            est[i_] = False
    return est, zero_limbs, bad, infeasible


def decide_is_zero(fx, path, n, inline=None):
    """Does the method `path(&self) -> bool` on a repr type (one field: [u64; n]) return true exactly when all n limbs are
    zero?  (ok, why)"""
    I = exp.Interp(fx, 'none', inline=inline or (lambda q: False), max_paths=512)
    import stdmodel
    I.extra_transfer = stdmodel.std_transfer
    I.fork_inlined = True
    I.binop_hook = make_hook(None)
    I.propagate_hooks = True
    try:
        res = I.run(path, [('byref', Agg([Agg([NLimb(0, [k]) for k in range(n)])]))])
    except (exp.NotDerivable, exp.Budget) as e:
        return False, 'not derivable: %s' % e
    n_true = 0
    for pth, ret, _ in res:
        if isinstance(ret, tuple) and ret and ret[0] == 'diverges':
            return False, 'a path panics'
        est, zl, bad, infeasible = established(pth)
        if bad is not None:
            return False, 'branches on %r (expected zero tests of limbs)' % (bad,)
        if infeasible:
            continue
        e0 = est.get(0)
        if e0 is None and zl.get(0, set()) == set(range(n)):
            e0 = True
        if isinstance(ret, tuple) and ret and ret[0] == 'bool':
            # the result is itself a zero predicate: it must, with what the path established, cover all limbs
            import tt
            k_, neg = tt.canon(ret[1])
            if not (isinstance(k_, tuple) and k_ and k_[0] == 'zero') or neg:
                return False, 'returns %r' % (ret,)
            if e0 is False:
                return False, 'returns a zero test although a limb was found non-zero'
            if zl.get(0, set()) | set(k_[2]) != set(range(n)):
                return False, 'the zero test covers limbs %s only' % sorted(zl.get(0, set()) | set(k_[2]))
            n_true += 1
            continue
        if not isinstance(ret, Int):
            return False, 'returns %r' % (ret,)
        if e0 is None:
            return False, 'returns %s having established only that limbs %s are zero' % (bool(ret.v), sorted(zl.get(0, set())))
        if bool(ret.v) != e0:
            return False, 'returns %s when %s' % (bool(ret.v), 'all limbs are zero' if e0 else 'a limb is non-zero')
        n_true += 1 if e0 else 0
    if not n_true:
        return False, 'no path returns true'
    return True, ''

"""Role discovery: private helpers are located through the call graph from API-level
anchors (trait impl methods, public items), never by their own names, so renaming a
private function or constant does not change any verdict.  A role that cannot be found
is reported by the rule that needs it (fail closed)."""
from facts import callee

_cache = {}

GROUPS = (('G1', 'bls12_381::ec::g1::G1', 'bls12_381::ec::g1::G1Affine', 'bls12_381::ec::g1::G1Compressed', 'bls12_381::ec::g1::G1Uncompressed'),
          ('G2', 'bls12_381::ec::g2::G2', 'bls12_381::ec::g2::G2Affine', 'bls12_381::ec::g2::G2Compressed', 'bls12_381::ec::g2::G2Uncompressed'))


def local_callees(fx, path, pred=None):
    """Resolved local callees of a body (in block order, unique)."""
    b = fx.body(path) if path else None
    out = []
    if b is None:
        return out
    for bi, t in sorted(b.calls(), key=lambda x: x[0]):
        c = callee(t)
        if not c or not c.get('res_local'):
            continue
        r = c.get('res')
        f = fx.fn(r)
        if f is None:
            continue
        if pred is None or pred(c, f, t):
            if r not in out:
                out.append(r)
    return out


def reach(fx, root, pred, depth=4):
    """Local callees satisfying pred that `root` reaches directly or through private helper functions."""
    import inline as INL
    out, seen, todo = [], set(), [(root, 0)]
    while todo:
        q, d_ = todo.pop(0)
        if q in seen or q is None:
            continue
        seen.add(q)
        for r_ in local_callees(fx, q, pred):
            if r_ not in out:
                out.append(r_)
        if d_ < depth:
            for r_ in local_callees(fx, q, lambda c, f, t: INL.is_private_helper(fx, c.get('res'))):
                if r_ not in out:
                    todo.append((r_, d_ + 1))
            # closures written inside the function are part of it
            for p_ in fx.fns:
                if p_.startswith(q + '::{closure') and p_ not in seen:
                    todo.append((p_, d_ + 1))
    return out


def is_inherent(c, f, t):
    return not c.get('trait') and not f.get('impl_trait')


def roles(fx):
    key = id(fx)
    if key in _cache:
        return _cache[key]
    R = {}
    for g, proj, aff, comp, unc in GROUPS:
        r = {'proj': proj, 'aff': aff, 'compressed': comp, 'uncompressed': unc}
        insub = fx.impl_method('SubgroupCheck', aff, 'in_subgroup')
        r['in_subgroup'] = insub
        cands = local_callees(fx, insub, lambda c, f, t: is_inherent(c, f, t) and len(t['args']) == 1)
        # the r-torsion test is the one calling CurveAffine::mul; the other is the curve-equation test
        def uses_group_law(p0):
            # does the function (through local callees) perform group operations?
            seen_, todo_ = set(), [p0]
            while todo_:
                q = todo_.pop()
                if q in seen_ or len(seen_) > 40:
                    continue
                seen_.add(q)
                bq = fx.body(q)
                if bq is None:
                    continue
                for _, t_ in bq.calls():
                    c_ = callee(t_) or {}
                    if c_.get('trait') in ('CurveProjective', 'CurveAffine') and c_.get('name') in ('double', 'add_assign', 'add_assign_mixed', 'mul', 'mul_assign', 'sub_assign'):
                        return True
                    if c_.get('res_local') and c_.get('res') and not c_.get('trait'):
                        todo_.append(c_['res'])
            return False
        for p in cands:
            if uses_group_law(p):
                r['r_torsion'] = p
            else:
                r.setdefault('is_on_curve', p)
        oc = r.get('is_on_curve')
        # the constant-coefficient helper: the 0-argument inherent function the curve-equation test reaches (possibly
        # through private helpers it was factored into)
        cb = reach(fx, oc, lambda c, f, t: is_inherent(c, f, t) and len(t['args']) == 0 and (f.get('impl_self_ty') == aff))
        if cb:
            r['get_coeff_b'] = cb[0]
        cu = fx.impl_method('EncodedPoint', comp, 'into_affine_unchecked')
        # the (x, greatest) -> Option<point> helper of the compressed decoder, by signature
        gp = reach(fx, cu, lambda c, f, t: is_inherent(c, f, t) and len(t['args']) == 2 and 'bool' in (f.get('sig') or '')
                   and ('-> std::option::Option<%s>' % aff) in (f.get('sig') or ''))
        if gp:
            r['get_point_from_x'] = gp[0]
        rnd = fx.impl_method('CurveProjective', proj, 'random')
        r['random'] = rnd
        sc = local_callees(fx, rnd, lambda c, f, t: is_inherent(c, f, t) and len(t['args']) == 1 and (c.get('res') != r.get('get_point_from_x')))
        sc = [p for p in sc if p != r.get('get_point_from_x')]
        if sc:
            r['scale_by_cofactor'] = sc[0]
        mul = fx.impl_method('CurveAffine', aff, 'mul')
        mb = local_callees(fx, mul, lambda c, f, t: is_inherent(c, f, t))
        if mb:
            r['mul_bits'] = mb[0]
        one = fx.impl_method('CurveAffine', aff, 'one')
        gg = local_callees(fx, one, lambda c, f, t: is_inherent(c, f, t) and len(t['args']) == 0)
        if gg:
            r['get_generator'] = gg[0]
        pw = fx.impl_method('CurveAffine', aff, 'pairing_with')
        pp = local_callees(fx, pw, lambda c, f, t: is_inherent(c, f, t))
        if pp:
            r['perform_pairing'] = pp[0]
        R[g] = r
    # wNAF helpers: the free functions the staged context API calls, classified by signature
    # (digit buffer -> recoding; point buffer -> table; digit slice -> evaluation)
    w = {}
    for p, f in fx.fns.items():
        if not (f.get('impl_self_ty') or '').startswith('wnaf::Wnaf<') or 'mir' not in f:
            continue
        for q in local_callees(fx, p, lambda c, f_, t: not c.get('trait') and not f_.get('impl_self_ty') and f_['kind'] == 'Fn'):
            sig = fx.fn(q).get('sig') or ''
            if 'mut std::vec::Vec<i64>' in sig:
                w.setdefault('form', q)
            elif 'mut std::vec::Vec<' in sig:
                w.setdefault('table', q)
            elif '[i64]' in sig:
                w.setdefault('exp', q)
    R['wnaf'] = w
    # the isogeny evaluator and the SSWU helper: shared local callees of the per-group impls
    ev = set()
    for g, proj, aff, comp, unc in GROUPS:
        p = fx.impl_method('bls12_381::isogeny::IsogenyMap', proj, 'isogeny_map')
        for q in local_callees(fx, p, lambda c, f, t: not c.get('trait') and len(t['args']) == 2):
            ev.add(q)
    R['iso_evaluator'] = sorted(ev)[0] if len(ev) == 1 else None
    hp = set()
    for g, proj, aff, comp, unc in GROUPS:
        p = fx.impl_method('bls12_381::osswu_map::OSSWUMap', proj, 'osswu_map')
        for q in local_callees(fx, p, lambda c, f, t: not c.get('trait') and len(t['args']) == 4):
            hp.add(q)
    R['sswu_helper'] = sorted(hp)[0] if len(hp) == 1 else None
    # the |x| chain: generic local callee of <G1 as ClearH>::clear_h
    p = fx.impl_method('bls12_381::cofactor::ClearH', GROUPS[0][1], 'clear_h')
    ch = local_callees(fx, p, lambda c, f, t: not c.get('trait') and len(t['args']) == 2)
    R['chain_abs_x'] = ch[0] if ch else None
    # BLS parameter constants: the u64 constant final_exponentiation starts its x-chain from, and the
    # boolean constant guarding the conjugation in exp_by_x / miller_loop
    fe = fx.impl_method('Engine', 'bls12_381::Bls12', 'final_exponentiation')
    R['bls_x'], R['bls_x_neg'] = _bls_consts(fx, fe)
    # G2Prepared::from_affine: the constructor called by <G2Affine as CurveAffine>::prepare
    pr = fx.impl_method('CurveAffine', GROUPS[1][2], 'prepare')
    fa = local_callees(fx, pr, lambda c, f, t: is_inherent(c, f, t) and len(t['args']) == 1)
    R['g2prepared_from_affine'] = fa[0] if fa else None
    _cache[key] = R
    return R


def _const_refs(fx, root):
    """Named constants (def path -> type) referenced by a function, its nested items and closures."""
    out = {}

    def walk(node):
        if isinstance(node, dict):
            if 'def' in node and 'ty' in node and 'promoted' not in node and 'fn' not in node and isinstance(node.get('def'), str):
                if fx.consts.get(node['def']) is not None:
                    out[node['def']] = node['ty']
            for v in node.values():
                walk(v)
        elif isinstance(node, list):
            for v in node:
                walk(v)
    import inline as INL
    seen, todo = set(), [root]
    while todo:
        q = todo.pop()
        if q in seen:
            continue
        seen.add(q)
        for p, f in fx.fns.items():
            if (p == q or p.startswith(q + '::')) and 'mir' in f:
                walk(f['mir']['blocks'])
                # private helpers the function was factored into
                for r_ in local_callees(fx, p, lambda c, f_, t: INL.is_private_helper(fx, c.get('res'))):
                    todo.append(r_)
    return out


def _bls_consts(fx, fe):
    """|x| is the u64 constant used by BOTH the final exponentiation and the Miller loop / line-coefficient
    schedule; its sign is the bool constant they share (derived constants such as x/2 are used by one only)."""
    if not fe:
        return None, None
    a = _const_refs(fx, fe)
    ml = fx.impl_method('Engine', 'bls12_381::Bls12', 'miller_loop')
    b = _const_refs(fx, ml) if ml else {}
    x = sorted(k for k, ty in a.items() if ty == 'u64' and b.get(k) == 'u64')
    neg = sorted(k for k, ty in a.items() if ty == 'bool' and b.get(k) == 'bool')
    if len(x) != 1:
        x = sorted(k for k, ty in a.items() if ty == 'u64')
        if len(x) > 1:
            # derived constants (x/2, ...) next to x itself: x is the one the others are not larger than
            vals = {k: (fx.consts.get(k) or {}).get('v') for k in x}
            if all(isinstance(v, int) for v in vals.values()):
                x = [max(x, key=lambda k: vals[k])]
    if not x:
        # the final exponentiation may use constants derived from x (arrays [x], [x >> 1]) only; x itself is then the
        # u64 constant of the Miller loop / line schedule (the exponent actually used is decided by C12's EXP rule)
        x = sorted(k for k, ty in b.items() if ty == 'u64')
    if not x:
        # ... or constants nested in the function ([x], [x >> 1]): x is the crate's u64 constant whose value is the
        # largest element of those
        nested = [c_ for k_, c_ in fx.consts.items() if k_.startswith(fe + '::')]
        vals_ = []
        for c_ in nested:
            v_ = c_.get('v')
            if isinstance(v_, int):
                vals_.append(v_)
            elif isinstance(v_, list) and v_ and all(isinstance(e_, int) for e_ in v_):
                vals_.extend(v_)
            elif isinstance(v_, dict) and isinstance(v_.get('arr'), list) and all(isinstance(e_, int) for e_ in v_['arr']):
                vals_.extend(v_['arr'])
        if vals_:
            top_ = max(vals_)
            x = sorted(k_ for k_, c_ in fx.consts.items() if c_.get('ty') == 'u64' and c_.get('v') == top_ and not k_.startswith(fe + '::'))
        if len(x) > 1:
            vals = {k: (fx.consts.get(k) or {}).get('v') for k in x}
            if all(isinstance(v, int) for v in vals.values()):
                x = [max(x, key=lambda k: vals[k])]
    if len(neg) != 1:
        neg = sorted(k for k, ty in a.items() if ty == 'bool')
    if len(neg) != 1:
        neg = sorted(k for k, ty in b.items() if ty == 'bool')
    return (x[0] if len(x) == 1 else None), (neg[0] if len(neg) == 1 else None)

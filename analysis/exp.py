"""EXP: abstract interpretation of straight-line group/field code in the exponent
(linear-form) domain, with constant propagation of machine integers and counted loops.

Abstract value of a group element: an integer vector over named atoms meaning
sum k_i * atom_i (additive) -- of a field element: prod atom_i ^ k_i.  The domain is the
free abelian group on atoms; any operation outside it (field addition of two tracked
values, data-dependent arithmetic) produces a *fresh opaque atom* named after the program
point, so later products stay expressible, or TOP when even that is not meaningful.

Control flow: branches whose condition is a compile-time constant or the state of a
`Range` iterator built from constants are followed deterministically; every other branch
forks the (finite, budgeted) path set and records a label.  No term store over program
inputs, no solver: transfer functions are keyed on resolved trait methods.
"""
from facts import op_place, op_const, callee
from mirutil import Resolver, const_payload
import mathlib as M


class Top:
    def __repr__(self):
        return 'TOP'


TOP = Top()


class Lin:
    """Element of the free abelian group on atoms (dict atom -> int), zero terms dropped."""
    __slots__ = ('t',)

    def __init__(self, t=None):
        self.t = {k: v for k, v in (t or {}).items() if v != 0}

    @staticmethod
    def atom(name):
        return Lin({name: 1})

    def add(self, o):
        d = dict(self.t)
        for k, v in o.t.items():
            d[k] = d.get(k, 0) + v
        return Lin(d)

    def scale(self, n):
        return Lin({k: v * n for k, v in self.t.items()})

    def neg(self):
        return self.scale(-1)

    def coeff(self, a):
        return self.t.get(a, 0)

    def atoms(self):
        return set(self.t)

    def __eq__(self, o):
        return isinstance(o, Lin) and self.t == o.t

    def __repr__(self):
        return 'Lin(%s)' % ', '.join('%s:%s' % (k, (hex(v) if abs(v) > 10**6 else v)) for k, v in sorted(self.t.items()))


class Sum:
    """Sum of monomials with integer coefficients: dict frozenset(Lin.t.items()) -> int.
    Closed under addition and under multiplication by a monomial; the product of two
    multi-term sums is *not* formed (the interpreter interns both as named atoms)."""
    __slots__ = ('t',)

    def __init__(self, t=None):
        self.t = {k: v for k, v in (t or {}).items() if v != 0}

    @staticmethod
    def of(lin, coef=1):
        return Sum({frozenset(lin.t.items()): coef})

    def add(self, o, sign=1):
        d = dict(self.t)
        for k, v in o.t.items():
            d[k] = d.get(k, 0) + sign * v
        return Sum(d)

    def mul_mono(self, lin):
        out = {}
        for k, v in self.t.items():
            m = Lin(dict(k)).add(lin)
            kk = frozenset(m.t.items())
            out[kk] = out.get(kk, 0) + v
        return Sum(out)

    def scale(self, n):
        return Sum({k: v * n for k, v in self.t.items()})

    def single(self):
        if len(self.t) == 1:
            (k, v), = self.t.items()
            if v == 1:
                return Lin(dict(k))
        return None

    def __eq__(self, o):
        return isinstance(o, Sum) and self.t == o.t

    def __repr__(self):
        return 'Sum(%d terms)' % len(self.t)


class Int:
    __slots__ = ('v', 'bits')

    def __init__(self, v, bits=64):
        self.v = v
        self.bits = bits

    def __repr__(self):
        return 'Int(%#x)' % self.v

    def __eq__(self, o):
        return isinstance(o, Int) and self.v == o.v


class Agg:
    __slots__ = ('items', 'kind')

    def __init__(self, items, kind=None):
        self.items = list(items)
        self.kind = kind        # (adt path, variant name) for ADT aggregates

    def __repr__(self):
        if self.kind:
            return '%s::%s%r' % (self.kind[0].rsplit('::', 1)[-1], self.kind[1], self.items)
        return 'Agg(%r)' % (self.items,)


class KBits:
    """A byte/integer of which only some bits are known (known-bits domain)."""
    __slots__ = ('mask', 'val', 'cleared')

    def __init__(self, mask, val, cleared=0):
        self.mask = mask          # 1 = bit known
        self.val = val & mask
        self.cleared = cleared    # bits that were UNKNOWN when a mask forced them (information discarded)

    def __repr__(self):
        return 'KBits(mask=%#x,val=%#x%s)' % (self.mask, self.val, ',cleared=%#x' % self.cleared if self.cleared else '')


class RangeIt:
    __slots__ = ('cur', 'end')

    def __init__(self, cur, end):
        self.cur, self.end = cur, end


class SliceIt:
    __slots__ = ('items', 'pos')

    def __init__(self, items, pos):
        self.items, self.pos = items, pos


class AdaptIt:
    """Iterator adaptor over a modelled iterator: kind in filter / take_while / map / skip_while."""
    __slots__ = ('kind', 'inner', 'closure', 'captures', 'done')

    def __init__(self, kind, inner, closure, captures, done=False):
        self.kind, self.inner, self.closure, self.captures, self.done = kind, inner, closure, captures, done


class ChunksIt:
    """slice.chunks(_mut)(n): successive views of length n into an array held in the store."""
    __slots__ = ('root', 'proj', 'n', 'pos', 'total')

    def __init__(self, root, proj, n, pos, total):
        self.root, self.proj, self.n, self.pos, self.total = root, proj, n, pos, total

    def iter_next(self, I, where):
        if self.pos < self.total:
            ln = min(self.n, self.total - self.pos)
            return Opt('some', Ref(self.root, list(self.proj) + [['off', self.pos, ln]])), ChunksIt(self.root, self.proj, self.n, self.pos + self.n, self.total)
        return Opt('none', TOP), self


class Either:
    """Payload of an undecided two-variant value (Option / Result / ControlFlow): `first` is what variant 0 carries
    (None / Ok / Continue), `second` what variant 1 carries (Some / Err / Break)."""
    __slots__ = ('first', 'second')

    def __init__(self, first, second):
        self.first, self.second = first, second

    def pick(self, variant):
        return self.second if variant else self.first

    def __repr__(self):
        return 'Either(%r | %r)' % (self.first, self.second)


class Opt:
    """Two-variant value by discriminant: tag 'none' = variant 0 (None / Ok / Continue), 'some' = variant 1
    (Some / Err / Break), None = undecided; payload abstract value (an Either when the variants carry different things)."""
    __slots__ = ('tag', 'payload', 'label')

    def __init__(self, tag, payload, label=None):
        self.tag, self.payload, self.label = tag, payload, label


class Bits:
    """BitIterator over a constant integer (most significant bit first over nbits = 64 * limbs)."""
    __slots__ = ('v', 'nbits', 'pos')

    def __init__(self, v, nbits=None, pos=0):
        self.v = v
        self.nbits = nbits
        self.pos = pos

    def iter_next(self, I, where):
        if self.nbits is None:
            raise NotDerivable('BitIterator over a value of unknown width', where)
        if self.pos >= self.nbits:
            return Opt('none', TOP), self
        bit = (self.v >> (self.nbits - 1 - self.pos)) & 1
        return Opt('some', Int(bit, 1)), Bits(self.v, self.nbits, self.pos + 1)


class Ref:
    """A reference to a root of the current frame."""
    __slots__ = ('root', 'proj')

    def __init__(self, root, proj):
        self.root, self.proj = root, proj


def bv_binop(op, a, b):
    if isinstance(a, BV) and isinstance(b, Int):
        if op in ('Shr', 'ShrUnchecked'):
            return a.shr(b.v)
        if op in ('Shl', 'ShlUnchecked'):
            return a.shl(b.v)
        if op == 'BitAnd':
            return a.and_const(b.v)
        if op == 'BitOr':
            return a.or_(bv_of_int(b.v, len(a.e)))
    if op in ('Lt', 'Le', 'Gt', 'Ge') and (isinstance(a, BV) and isinstance(b, Int) or isinstance(a, Int) and isinstance(b, BV)):
        # a word with known-zero / known-one bits against a constant: decided when its range settles the comparison
        if isinstance(a, Int):
            a, b, op = b, a, {'Lt': 'Gt', 'Le': 'Ge', 'Gt': 'Lt', 'Ge': 'Le'}[op]
        hi = sum((0 if x == 0 else 1) << i_ for i_, x in enumerate(a.e))
        lo = sum((1 if x == 1 else 0) << i_ for i_, x in enumerate(a.e))
        if op == 'Lt' and hi < b.v or op == 'Le' and hi <= b.v or op == 'Gt' and lo > b.v or op == 'Ge' and lo >= b.v:
            return Int(1, 1)
        if op == 'Lt' and lo >= b.v or op == 'Le' and lo > b.v or op == 'Gt' and hi <= b.v or op == 'Ge' and hi < b.v:
            return Int(0, 1)
        return None
    if op in ('Ne', 'Eq') and ((isinstance(a, BV) and isinstance(b, Int)) or (isinstance(b, BV) and isinstance(a, Int))):
        # a word compared with zero: non-zero iff one of its bits is set -- a known one decides it, otherwise the OR of
        # its symbolic bits (`w >> 63 != 0` is the top bit)
        w_, k_ = (a, b) if isinstance(a, BV) else (b, a)
        if k_.v == 0:
            if any(x == 1 for x in w_.e):
                return Int(1 if op == 'Ne' else 0, 1)
            syms = [x for x in w_.e if isinstance(x, BitVal)]
            if len(syms) == sum(1 for x in w_.e if x != 0):
                if not syms:
                    return Int(0 if op == 'Ne' else 1, 1)
                if op == 'Ne':
                    return syms[0] if len(syms) == 1 else OrBits([x.n for x in syms])
    if isinstance(a, Int) and isinstance(b, BV):
        if op == 'BitAnd':
            return b.and_const(a.v)
        if op == 'BitOr':
            return b.or_(bv_of_int(a.v, len(b.e)))
    if isinstance(a, BV) and isinstance(b, BV) and op == 'BitOr':
        return a.or_(b)
    if op in ('Add', 'AddWithOverflow', 'AddUnchecked'):
        x, y = (a, b) if isinstance(a, BV) else (b, a)
        if isinstance(x, BV) and isinstance(y, Int):
            yb = bv_of_int(y.v, len(x.e))
            if all(not (p != 0 and q != 0) for p, q in zip(x.e, yb.e)):
                r = x.or_(yb)
                return Agg([r, Int(0, 1)]) if op == 'AddWithOverflow' else r
    return None


def kbits_binop(op, a, b):
    """Known-bits transfer for BitAnd / BitOr / Eq / Ne with a constant."""
    if isinstance(a, Int) and isinstance(b, KBits):
        a, b = b, a
        if op in ('Lt', 'Le', 'Gt', 'Ge'):
            op = {'Lt': 'Gt', 'Le': 'Ge', 'Gt': 'Lt', 'Ge': 'Le'}[op]
        elif op in ('Shl', 'Shr', 'Sub'):
            return None
    if not (isinstance(a, KBits) and isinstance(b, Int)):
        return None
    if op in ('Lt', 'Le', 'Gt', 'Ge'):
        # order against a constant: decided when the range left open by the unknown bits settles it
        # (`b >= 0x80` is bit 7)
        lo = a.val & a.mask & 0xff
        hi = lo | (~a.mask & 0xff)
        if op == 'Ge':
            return Int(1, 1) if lo >= b.v else (Int(0, 1) if hi < b.v else None)
        if op == 'Gt':
            return Int(1, 1) if lo > b.v else (Int(0, 1) if hi <= b.v else None)
        if op == 'Lt':
            return Int(1, 1) if hi < b.v else (Int(0, 1) if lo >= b.v else None)
        return Int(1, 1) if hi <= b.v else (Int(0, 1) if lo > b.v else None)
    if op in ('Shr', 'ShrUnchecked') and b.v < 8:
        m_ = (a.mask >> b.v) | (0xff & ~(0xff >> b.v))
        if m_ == 0xff and not (a.cleared >> b.v):
            return Int((a.val & a.mask) >> b.v, 8)          # every remaining bit is known
        return KBits(m_, a.val >> b.v, a.cleared >> b.v)
    if op in ('Shl', 'ShlUnchecked') and b.v < 8:
        m_ = ((a.mask << b.v) & 0xff) | ((1 << b.v) - 1)
        if m_ == 0xff and not ((a.cleared << b.v) & 0xff):
            return Int(((a.val & a.mask) << b.v) & 0xff, 8)
        return KBits(m_, (a.val << b.v) & 0xff, (a.cleared << b.v) & 0xff)
    if op == 'BitAnd':
        # bits where the constant is 0 become known 0
        mask = a.mask | (~b.v & 0xff)
        val = (a.val & b.v)
        forced = (~b.v & 0xff) & ~a.mask & 0xff
        return KBits(mask & 0xff, val, a.cleared | forced) if ((mask & 0xff) != 0xff or (a.cleared | forced)) else Int(val & 0xff)
    if op == 'BitOr':
        mask = a.mask | b.v
        val = a.val | b.v
        return KBits(mask & 0xff, val, a.cleared) if ((mask & 0xff) != 0xff or a.cleared) else Int(val & 0xff)
    if op in ('Eq', 'Ne'):
        # differs from the constant on a known bit -> decided
        if (a.val ^ b.v) & a.mask:
            return Int(0 if op == 'Eq' else 1)
        if (a.mask & 0xff) == 0xff and b.v < 256:
            return Int(1 if op == 'Eq' else 0)
        return None
    return None


class BitVal:
    """A symbolic scalar bit (boolean): variable index n."""
    __slots__ = ('n',)

    def __init__(self, n):
        self.n = n

    def __repr__(self):
        return 'bit%d' % self.n

    def __eq__(self, o):
        return isinstance(o, BitVal) and o.n == self.n

    def __hash__(self):
        return hash(('bit', self.n))


class OrBits:
    """Boolean that is the OR of a set of scalar bits (e.g. `found_one` of double-and-add)."""
    __slots__ = ('s',)

    def __init__(self, s_):
        self.s = frozenset(s_)

    def __repr__(self):
        return 'or(%s)' % ','.join(str(x) for x in sorted(self.s))

    def __eq__(self, o):
        return isinstance(o, OrBits) and o.s == self.s

    def __hash__(self):
        return hash(('or', self.s))


def cond_bits(c):
    if isinstance(c, BitVal):
        return frozenset([c.n])
    if isinstance(c, OrBits):
        return c.s
    return None


class BV:
    """Bit-provenance vector of a machine word (LSB first): entries 0, 1, BitVal or None."""
    __slots__ = ('e',)

    def __init__(self, e):
        self.e = list(e)

    def __repr__(self):
        return 'BV(%s)' % ''.join('0' if x == 0 else '1' if x == 1 else '?' if x is None else 'b' for x in reversed(self.e))

    def __eq__(self, o):
        return isinstance(o, BV) and self.e == o.e

    def shr(self, k):
        return BV(self.e[k:] + [0] * min(k, len(self.e)))

    def shl(self, k):
        return BV(([0] * k + self.e)[:len(self.e)])

    def and_const(self, c):
        return BV([x if (c >> i) & 1 else 0 for i, x in enumerate(self.e)])

    def or_(self, o):
        out = []
        for x, y in zip(self.e, o.e):
            if x == 0:
                out.append(y)
            elif y == 0:
                out.append(x)
            elif x == 1 or y == 1:
                out.append(1)
            else:
                out.append(None)
        return BV(out)

    def as_int(self):
        if all(x in (0, 1) for x in self.e):
            return sum(x << i for i, x in enumerate(self.e))
        return None


def bv_of_int(v, width=64):
    return BV([(v >> i) & 1 for i in range(width)])


def bv_lookup(table, idx):
    """table[idx] for a table of linear forms that is bit-linear (T[i] = sum_{b in i} T[2^b],
    T[0] = 0) and a symbolic index: sum_b idx_b * T[2^b]."""
    items = table.items
    if any(x is None for x in idx.e):
        return TOP
    sym = [i for i, x in enumerate(idx.e) if isinstance(x, BitVal)]
    if sym:
        blk = 1 << (max(sym) + 1)
        base = sum((1 << i) for i, x in enumerate(idx.e) if x == 1 and i > max(sym))
        low_const = [i for i, x in enumerate(idx.e) if x == 1 and i <= max(sym)]
        if base + blk <= len(items) and (base or len(items) != blk):
            items = items[base:base + blk]
            idx = BV([x if i <= max(sym) else 0 for i, x in enumerate(idx.e)])
    n = len(items)
    if n == 0 or n & (n - 1):
        return TOP
    w = n.bit_length() - 1
    if not all(isinstance(x, Lin) for x in items):
        return TOP
    if items[0].t:
        return TOP
    for i in range(n):
        s = Lin()
        for b in range(w):
            if (i >> b) & 1:
                s = s.add(items[1 << b])
        if not (s == items[i]):
            return TOP
    if any(x is None for x in idx.e) or any(x != 0 for x in idx.e[w:]):
        return TOP
    out = Lin()
    for b in range(w):
        x = idx.e[b]
        if x == 0:
            continue
        if x == 1:
            out = out.add(items[1 << b])
        else:
            m = lin_times_bit(items[1 << b], x)
            if m is None:
                return TOP
            out = out.add(m)
    return out


def val_eq(a, b):
    if isinstance(a, Agg) and isinstance(b, Agg):
        return len(a.items) == len(b.items) and all(val_eq(x, y) for x, y in zip(a.items, b.items))
    if isinstance(a, (RangeIt,)) and isinstance(b, RangeIt):
        return (a.cur, a.end) == (b.cur, b.end)
    if type(a) is not type(b):
        return False
    try:
        return a == b
    except Exception:
        return a is b


def lin_times_bit(l, bit):
    """l * cond for a boolean cond that is a scalar bit or an OR of scalar bits; uses
    b_k * cond = b_k whenever b_k is one of the OR-ed bits (b_k implies cond)."""
    bits = cond_bits(bit)
    out = {}
    for a, k in l.t.items():
        if '*b' in a:
            kk = int(a.rsplit('*b', 1)[1])
            if kk in bits:
                out[a] = out.get(a, 0) + k
                continue
            return None
        if len(bits) != 1:
            return None
        nm = '%s*b%d' % (a, next(iter(bits)))
        out[nm] = out.get(nm, 0) + k
    return Lin(out)


def merge_on_bit(bit, s0, s1):
    out = {}
    for root in set(s0) | set(s1):
        a, b = s0.get(root, TOP), s1.get(root, TOP)
        out[root] = merge_val(bit, a, b)
    return out


def merge_val(bit, a, b):
    if val_eq(a, b):
        return a
    # booleans: (cond ? b : a)
    cb = cond_bits(bit)
    if cond_bits(b) == cb and cb is not None:
        # arm taken when cond holds keeps cond itself; the other arm sets a new bit / false
        if isinstance(a, Int) and a.v == 0:
            return bit
        if cond_bits(a) is not None:
            return OrBits(cb | cond_bits(a))
    if isinstance(a, Int) and isinstance(b, Int) and a.v == 0 and b.v == 1:
        return bit
    if isinstance(a, Lin) and isinstance(b, Lin):
        d = lin_times_bit(b.add(a.neg()), bit)
        if d is not None:
            return a.add(d)
        return TOP
    if isinstance(a, Agg) and isinstance(b, Agg) and len(a.items) == len(b.items):
        return Agg([merge_val(bit, x, y) for x, y in zip(a.items, b.items)], a.kind)
    if isinstance(bit, BitVal) and (isinstance(a, BV) or isinstance(b, BV)) and isinstance(a, (BV, Int)) and isinstance(b, (BV, Int)):
        # words: a position that is 0 without the condition and 1 with it is the condition bit itself
        n_ = len(a.e) if isinstance(a, BV) else len(b.e)
        ea = a.e if isinstance(a, BV) else bv_of_int(a.v, n_).e
        eb = b.e if isinstance(b, BV) else bv_of_int(b.v, n_).e
        if len(ea) == len(eb):
            out = []
            for x, y in zip(ea, eb):
                if x == y:
                    out.append(x)
                elif x == 0 and y == 1:
                    out.append(bit)
                else:
                    return TOP
            return BV(out)
    return TOP


def _ipdom(body, bb):
    """Immediate post-dominator of block bb on the non-unwind CFG."""
    if getattr(body, '_pdom_cache', None) is None:
        n = body.n
        exit_ = n
        succ = [list(s) for s in body.succ] + [[]]
        for i in range(n):
            if not succ[i]:
                succ[i] = [exit_]
        pred = [[] for _ in range(n + 1)]
        for i, ss in enumerate(succ):
            for x in ss:
                pred[x].append(i)
        from facts import _dominators
        body._pdom_cache = _dominators(n + 1, pred, succ, [exit_])
    pd = body._pdom_cache
    cands = pd[bb] - {bb}
    # immediate = the candidate post-dominated by all others... i.e. the one whose pdom set is largest
    best = None
    for c in cands:
        if c == body.n:
            continue
        if best is None or len(pd[c]) > len(pd[best]):
            best = c
    return best


class Budget(Exception):
    pass


class Diverged(Exception):
    """The call being modelled does not return on this path (a closure it runs panics)."""
    def __init__(self, where):
        Exception.__init__(self, 'diverges at %s' % (where,))
        self.where = where


class NotDerivable(Exception):
    def __init__(self, msg, where=None):
        Exception.__init__(self, msg)
        self.where = where


ADD_TRAITS = ('CurveProjective',)
FIELD_TRAIT = 'ff::Field'


def const_to_abs(c):
    """Abstract value of a constant operand."""
    v = const_payload(c)
    return json_to_abs(v, c.get('ty', ''))


def json_to_abs(v, ty=''):
    if isinstance(v, bool):
        return Int(int(v), 1)
    if isinstance(v, int):
        return Int(v)
    if isinstance(v, list):
        return Agg([json_to_abs(x) for x in v])
    if isinstance(v, dict) and 'adt' in v:
        adt = v['adt']
        if adt.endswith('Repr') and '0' in v['fields']:
            # FqRepr / FrRepr newtype around a limb array
            return Agg([json_to_abs(v['fields']['0'])])
        return ConstField(v)
    return TOP


class ConstField:
    """A field/curve constant of the crate (decoded JSON), usable as an atom."""
    __slots__ = ('v',)

    def __init__(self, v):
        self.v = v

    def __repr__(self):
        return 'ConstField(%s)' % self.v.get('adt')


def limbs_int(a):
    """Integer denoted by an abstract array of u64 limbs (little endian), else None."""
    if isinstance(a, Agg) and len(a.items) == 1 and isinstance(a.items[0], Agg):
        a = a.items[0]
    if isinstance(a, Agg) and all(isinstance(x, Int) for x in a.items):
        v = 0
        for i, x in enumerate(a.items):
            v |= x.v << (64 * i)
        return v
    if isinstance(a, Int):
        return a.v
    return None


def _fold_offsets(proj, store):
    """Fold slice-view offsets ['off', k] into the following index projection."""
    if not any(e[0] == 'off' for e in proj):
        return proj
    out = []
    pending = 0
    plen = None
    for e in proj:
        if e[0] == 'off':
            pending += e[1]
            plen = e[2] if len(e) > 2 else None
        elif e[0] == 'ci' and not e[3] and pending:
            out.append(['ci', e[1] + pending, 0, False])
            pending = 0
        elif e[0] == 'i' and pending:
            iv = store.get(e[1])
            if isinstance(iv, Int):
                out.append(['ci', iv.v + pending, 0, False])
            else:
                out.append(e)
            pending = 0
        elif e[0] == 'deref':
            out.append(e)
        else:
            out.append(e)
    if proj and proj[-1][0] == 'off':
        # a view that is used as a whole (passed to a callee, copied, measured): keep it as a slice
        out.append(['slice', pending, plen])
    return out


class Frame:
    def __init__(self, interp, body, args):
        self.interp = interp
        self.body = body
        self.res = Resolver(body)
        self.store = {}          # root -> value tree ; root = local int or ('*', local)
        for i, a in enumerate(args):
            l = i + 1
            if isinstance(a, tuple) and a[0] == 'byref':
                self.store[('*', l)] = a[1]
            else:
                self.store[l] = a

    # ---------------------------------------------------------------- places
    def root_of(self, place):
        """(root, remaining projections) after normalising reference temporaries and following references that are
        stored *inside* values (a closure environment holding `&mut &mut T`, a struct with a reference field)."""
        root, proj = self._root_of0(place)
        for _ in range(6):
            v = self.store.get(root)
            hit = None
            for i, e in enumerate(proj):
                if v is None:
                    break
                if e[0] == 'deref':
                    if isinstance(v, Ref):
                        hit = (v, i)
                        break
                    continue
                if isinstance(v, Agg) and e[0] == 'f' and e[1] < len(v.items):
                    v = v.items[e[1]]
                    continue
                if isinstance(v, Agg) and e[0] == 'ci' and not e[3] and e[1] < len(v.items):
                    v = v.items[e[1]]
                    continue
                break
            if hit is None:
                break
            r, i = hit
            root, proj = r.root, list(r.proj) + list(proj[i + 1:])
        return root, proj

    def _root_of0(self, place):
        p = self.res.norm_place(place)
        proj = list(p['p'])
        l = p['l']
        if proj and proj[0][0] == 'deref':
            if l <= self.body.arg_count and l >= 1 and ('*', l) in self.store:
                return ('*', l), proj[1:]
            # a reference value held in the store (e.g. passed through a local)
            v = self.store.get(l)
            if isinstance(v, Ref):
                return v.root, list(v.proj) + proj[1:]
            if v is not None:
                # a reference to a constant / iterator item modelled by its value
                return l, proj[1:]
            return ('*', l), proj[1:]
        return l, proj

    def load(self, place):
        root, proj = self.root_of(place)
        if root not in self.store and not proj and isinstance(root, int) and ('*', root) in self.store:
            # a by-reference parameter read as a value (moved / copied into another local): the reference itself
            return Ref(('*', root), [])
        if root not in self.store:
            # promoted constants held in locals
            if isinstance(root, int) and 0 <= root < len(self.body.locals):
                c = self.res.local_const(root)
                if c is not None:
                    v = const_to_abs(c)
                    return self._project(v, proj)
            return TOP
        return self._project(self.store[root], proj)

    def _project(self, v, proj):
        proj = _fold_offsets(proj, self.store)
        for e in proj:
            if isinstance(v, Opt) and e[0] == 'dc':
                continue
            if isinstance(v, Opt) and e[0] == 'f':
                pl = v.payload
                if isinstance(pl, Either):
                    pl = pl.pick(1 if v.tag == 'some' else 0) if v.tag in ('some', 'none') else TOP
                v = pl
                continue
            if isinstance(v, Agg):
                if e[0] == 'f':
                    if e[1] < len(v.items):
                        v = v.items[e[1]]
                        continue
                    return TOP
                if e[0] == 'ci' and not e[3]:
                    if e[1] < len(v.items):
                        v = v.items[e[1]]
                        continue
                    return TOP
                if e[0] in ('i', 'iv'):
                    iv = self.store.get(e[1]) if e[0] == 'i' else e[1]
                    if hasattr(v, 'lookup_contract'):
                        v = v.lookup_contract(iv)
                        continue
                    if isinstance(iv, Int) and iv.v < len(v.items):
                        v = v.items[iv.v]
                        continue
                    if isinstance(iv, BV):
                        ci = iv.as_int()
                        if ci is not None and ci < len(v.items):
                            v = v.items[ci]
                            continue
                        v = bv_lookup(v, iv)
                        continue
                    return TOP
            if e[0] == 'deref':
                continue
            if e[0] == 'slice' and isinstance(v, Agg):
                hi_ = len(v.items) if e[2] is None else min(len(v.items), e[1] + e[2])
                v = Agg(v.items[e[1]:hi_], v.kind)
                continue
            if isinstance(v, ConstField) and e[0] == 'f':
                # field of a constant struct (e.g. Fq2.c0): stays a constant
                keys = list(v.v['fields'].keys())
                sub = v.v['fields'][keys[e[1]]]
                v = json_to_abs(sub)
                continue
            ph_ = getattr(self.interp, 'proj_hook', None)
            if ph_ is not None and e[0] == 'f':
                # a rule may give meaning to the coefficients of a value it tracks as a whole
                pv_ = ph_(v, e[1])
                if pv_ is not None:
                    v = pv_
                    continue
            return TOP
        return v

    def storev(self, place, val):
        root, proj = self.root_of(place)
        if not proj:
            self.store[root] = val
            return
        cur = self.store.get(root)
        self.store[root] = self._update(cur, proj, val)

    def _update(self, cur, proj, val):
        if not proj:
            return val
        proj = _fold_offsets(proj, self.store)
        e = proj[0]
        if e[0] == 'deref':
            return self._update(cur, proj[1:], val)
        if e[0] == 'slice' and isinstance(cur, Agg) and isinstance(val, Agg) and len(proj) == 1:
            items = list(cur.items)
            hi_ = len(items) if e[2] is None else min(len(items), e[1] + e[2])
            if len(val.items) == hi_ - e[1]:
                items[e[1]:hi_] = list(val.items)
                return Agg(items, cur.kind)
            return TOP
        idx = None
        if e[0] == 'f':
            idx = e[1]
        elif e[0] == 'ci' and not e[3]:
            idx = e[1]
        elif e[0] == 'i':
            iv = self.store.get(e[1])
            if isinstance(iv, Int):
                idx = iv.v
        if idx is None:
            return TOP
        if not isinstance(cur, Agg):
            cur = Agg([TOP] * (idx + 1))
        items = list(cur.items)
        while len(items) <= idx:
            items.append(TOP)
        items[idx] = self._update(items[idx], proj[1:], val)
        return Agg(items, cur.kind)

    def operand(self, op):
        if op and op[0] == 'v':
            return op[1]            # a value operand of a synthesised call (function items used as callables)
        p = op_place(op)
        if p is not None:
            return self.load(p)
        c = op_const(op)
        if c is not None:
            if 'fn' in c:
                return TOP
            v_ = c.get('v')
            opaque_ = isinstance(v_, dict) and ('opaque' in v_ or (isinstance(v_.get('ref'), dict) and 'opaque' in v_['ref']))
            if ('v' not in c or opaque_) and c.get('promoted') is not None and c.get('def'):
                v = self.interp.eval_promoted(c)
                if v is not None:
                    return v
            return const_to_abs(c)
        return TOP

    def deref_operand(self, op):
        """Value pointed to by a reference operand (or the operand's own value when it is
        not a reference)."""
        if op and op[0] == 'v':
            v = op[1]
            if isinstance(v, tuple) and len(v) == 2 and v[0] == 'byref':
                v = v[1]
            for _ in range(4):
                if isinstance(v, Ref):
                    v = Interp._ref_value(self, v)
            return v
        p = op_place(op)
        if p is not None and not p['p']:
            tgt = self.res.ref_target(p['l'])
            if tgt is not None:
                return self.load(tgt)
            v = self.store.get(p['l'])
            if isinstance(v, Ref):
                return self._project(self.store.get(v.root, TOP), v.proj)
            if p['l'] >= 1 and p['l'] <= self.body.arg_count and ('*', p['l']) in self.store:
                return self.store[('*', p['l'])]
            # a copy / reborrow-free move of a by-reference parameter
            l_ = p['l']
            for _ in range(6):
                rv_ = self.res.local_def_rv(l_)
                if not (rv_ and rv_['k'] == 'use' and rv_['op'][0] in ('m', 'c') and not rv_['op'][1]['p']):
                    break
                l_ = rv_['op'][1]['l']
                if 1 <= l_ <= self.body.arg_count and ('*', l_) in self.store:
                    return self.store[('*', l_)]
            c = self.res.local_const(p['l'])
            if c is not None:
                return const_to_abs(c)
            return self.load(p)
        return self.operand(op)

    def ref_place_of(self, op):
        """The place a `&mut`/`&` operand designates in this frame, else None."""
        p = op_place(op)
        if p is None or p['p']:
            return None
        tgt = self.res.ref_target(p['l'])
        if tgt is not None:
            return tgt
        if p['l'] >= 1 and p['l'] <= self.body.arg_count and ('*', p['l']) in self.store:
            return {'l': p['l'], 'p': [['deref']]}
        v = self.store.get(p['l'])
        if isinstance(v, Ref):
            return ('ref', v)
        return None

    def store_through(self, op, val):
        t = self.ref_place_of(op)
        if t is None:
            return False
        if isinstance(t, tuple):
            r = t[1]
            cur = self.store.get(r.root)
            self.store[r.root] = self._update(cur, list(r.proj), val)
            return True
        self.storev(t, val)
        return True


class Path:
    def __init__(self):
        self.labels = []     # (label, taken) for every forked branch
        self.events = []     # free-form events recorded by transfer functions

    def decided(self, label):
        """Truth value already chosen on this path for a boolean label (or None)."""
        neg = False
        x = label
        while isinstance(x, tuple) and x and x[0] == 'not':
            neg = not neg
            x = x[1]
        key = repr(x)
        for lab, v in self.labels:
            n2 = False
            y = lab
            while isinstance(y, tuple) and y and y[0] == 'not':
                n2 = not n2
                y = y[1]
            if repr(y) == key and isinstance(v, int) or (repr(y) == key and v == 'otherwise'):
                truth = (v != 0) != n2
                return truth != neg
        return None


class SBit:
    """A bit of the sign algebra: the GF(2)-affine form  c + sum(atoms)  over sgn0 atoms (1 = Negative / true).  Values of
    `Sgn0Result`, comparisons of them with each other or with a constant, `^`, `!` and `==` / `!=` of the resulting booleans
    all stay in this form, so a sign fix is decided by value whatever its spelling."""
    __slots__ = ('atoms', 'c')

    def __init__(self, atoms=None, c=0):
        self.atoms = dict(atoms or {})
        self.c = c & 1

    @staticmethod
    def atom(key, info):
        return SBit({key: info}, 0)

    def xor(self, o):
        d = dict(self.atoms)
        for k, v in o.atoms.items():
            if k in d:
                del d[k]
            else:
                d[k] = v
        return SBit(d, self.c ^ o.c)

    def flip(self):
        return SBit(self.atoms, self.c ^ 1)

    def key(self):
        return tuple(sorted(self.atoms))

    def __eq__(self, o):
        return isinstance(o, SBit) and self.key() == o.key() and self.c == o.c

    def __hash__(self):
        return hash((self.key(), self.c))

    def __repr__(self):
        return 'SBit(%s%s)' % (' ^ '.join(self.key()) or '0', ' ^ 1' if self.c else '')


def to_sbit(v):
    if isinstance(v, SBit):
        return v
    if isinstance(v, Int) and v.v in (0, 1):
        return SBit(None, v.v)
    if isinstance(v, Agg) and v.kind and isinstance(v.kind[0], str) and v.kind[0].endswith('Sgn0Result') and not v.items:
        return SBit(None, 1 if v.kind[1] == 'Negative' else 0)
    return None


class Interp:
    """Configurable abstract interpreter.

    mode: 'add' (elliptic-curve group, CurveProjective/CurveAffine methods) or
          'mul' (multiplicative group of a field, ff::Field methods).
    inline(path) -> bool: whether a local callee is interpreted (else havoc).
    """

    def __init__(self, facts, mode, inline=None, max_steps=400000, max_paths=64, conj_as=None,
                 frob_q=None, extra_transfer=None, stop_on_unknown_switch=False):
        self.facts = facts
        self.mode = mode
        self._sched, self._sched_taken, self._sched_new = None, [], []
        self.inline = inline or (lambda p: False)
        self.max_steps = max_steps
        self.max_paths = max_paths
        self.steps = 0
        self.fresh = 0
        self.conj_as = conj_as      # integer k meaning conjugate(x) = x^k
        self.frob_q = frob_q        # integer q meaning frobenius_map(c)(x) = x^(q^c)
        self.extra_transfer = extra_transfer
        self.stop_on_unknown_switch = stop_on_unknown_switch
        self.sums = False          # keep field additions as sums of monomials (Sum) instead of opaque atoms
        self.interned = []         # multi-term sums that had to be multiplied: named atoms S#k
        self.binop_hook = None     # (op, a, b) -> abstract value | None ; unop: (op, a, None)
        self.block_hook = None     # (fr, bb, pth) -> new bb | None : region summaries
        self.switch_hook = None    # (fr, term, dv, pth) -> target bb | None : assumed branch outcomes
        self.opaque_sites = []
        self.call_sites = 0
        self.ty_subst = {}         # generic parameter name -> concrete type, inside an inlined generic callee
        self.shared_keys = ()      # store roots that inlined callees / closures share with their caller (e.g. a stream position)
        self.fork_inlined = False  # paths of an inlined callee become paths of the caller (else: havoc)
        self._fork_ctx = None
        self.body_override = {}    # path -> Body (e.g. with private helpers inlined, see inline.py)
        self.cast_hook = None      # (rvalue, operand value) -> abstract value | None
        self.propagate_hooks = False   # binop_hook also applies inside inlined callees / closures
        self._extra_keys = ()

    def opaque(self, why, where):
        self.fresh += 1
        name = 'opaque#%d@%s' % (self.fresh, where)
        self.opaque_sites.append((name, why, where))
        return Lin.atom(name)

    # ------------------------------------------------------------ running a function
    def run(self, path, args, extra=None):
        """Interpret function `path` with abstract `args`; returns list of results
        (Path, return value, {param index: final pointee value}).  `extra` seeds additional
        store roots (values that references in `args` designate); their final values are
        returned in the third component under the same keys."""
        body = self.body_override.get(path) or self.facts.body(path)
        if body is None:
            raise NotDerivable('no MIR for %s' % path)
        results = []
        frame = Frame(self, body, args)
        self._extra_keys = tuple(extra.keys()) if extra else ()
        if extra:
            frame.store.update(extra)
        work = [(frame, 0, Path())]
        while work:
            fr, bb, pth = work.pop()
            self._run_path(fr, bb, pth, work, results)
            if len(results) + len(work) > self.max_paths:
                raise Budget('path budget exceeded in %s' % path)
        return results

    def _materialise(self, fr, v, depth=0):
        """A returned reference whose root is a local of the returning function (it can only designate a place that
        itself holds a reference / slice value, modelled by its referent) is replaced by what it designates: the
        frame is about to disappear."""
        if depth > 4:
            return v
        if isinstance(v, Ref) and v.root in fr.store and ((isinstance(v.root, int) and v.root > fr.body.arg_count) or (isinstance(v.root, tuple) and v.root and v.root[0] == 'referent')):
            return self._materialise(fr, fr._project(fr.store.get(v.root, TOP), v.proj), depth + 1)
        if isinstance(v, Opt) and isinstance(v.payload, Ref):
            return Opt(v.tag, self._materialise(fr, v.payload, depth + 1), v.label)
        if isinstance(v, Agg) and type(v) is Agg and any(isinstance(x, Ref) for x in v.items):
            return Agg([self._materialise(fr, x, depth + 1) for x in v.items], v.kind)
        return v

    def _clone_frame(self, fr):
        import copy
        nf = Frame.__new__(Frame)
        nf.interp = fr.interp
        nf.body = fr.body
        nf.res = fr.res
        nf.store = dict(fr.store)   # values are immutable (rebuilt on update)
        return nf

    def _run_path(self, fr, bb, pth, work, results, stop_at=None):
        body = fr.body
        while True:
            self._cur_path = pth        # for hooks that record events while statements (not calls) are interpreted
            resume_sched = None
            if isinstance(bb, tuple) and bb and bb[0] == 'resume':
                # re-execution of the call terminating block bb[1] under another schedule of model choices (see choose)
                _, bb, resume_sched = bb
            if resume_sched is None and stop_at is not None and bb == stop_at:
                results.append((pth, ('stopped', fr), {}))
                return
            if resume_sched is None and self.block_hook is not None:
                nb = self.block_hook(fr, bb, pth)
                if nb is not None:
                    self.steps += 1
                    if self.steps > self.max_steps:
                        raise Budget('step budget exceeded in %s' % body.path)
                    bb = nb
                    continue
            self.steps += 1
            if self.steps > self.max_steps:
                raise Budget('step budget exceeded in %s' % body.path)
            blk = body.blocks[bb]
            if resume_sched is None:
                for s in blk['stmts']:
                    if s['k'] == 'assign':
                        self._assign(fr, s)
            t = blk['term']
            k = t['k']
            if k == 'goto':
                bb = t['target']
            elif k == 'return':
                out = {}
                for i in range(1, body.arg_count + 1):
                    if ('*', i) in fr.store:
                        out[i] = fr.store[('*', i)]
                for key in getattr(self, '_extra_keys', ()):
                    # a reference to one of this function's own locals stored into a caller's place (a slice view held by
                    # value and re-pointed: `rest = tail`) is replaced by what it designates: the frame is about to disappear
                    out[key] = self._materialise(fr, fr.store.get(key, TOP))
                results.append((pth, self._materialise(fr, fr.store.get(0, TOP)), out))
                return
            elif k == 'assert':
                cv = fr.operand(t['cond'])
                if isinstance(cv, Int):
                    if bool(cv.v) != bool(t['expected']):
                        pth.events.append(('assert-fails', t['msg'], t['span']))
                        results.append((pth, ('diverges', t['span']), {}))
                        return
                else:
                    pth.events.append(('assert-undecided', t['msg'], t['span']))
                bb = t['target']
            elif k == 'drop':
                bb = t['target']
            elif k == 'call':
                self._fork_ctx = (work, results)
                # model code may make nondeterministic choices (a closure with several paths driven by an iterator
                # model): the call is executed under a schedule of choices, and re-executed from a snapshot of the
                # state before it for every other schedule that turns out to exist
                saved_sched = (self._sched, self._sched_taken, self._sched_new)
                self._sched, self._sched_taken, self._sched_new = list(resume_sched or []), [], []
                snap = (dict(fr.store), list(pth.labels), list(pth.events))
                try:
                    try:
                        nxt = self._call(fr, t, pth)
                    except Diverged as dv_:
                        pth.events.append(('diverge', dv_.where))
                        results.append((pth, ('diverges', dv_.where), {}))
                        nxt = 'diverged'
                    for sch in self._sched_new:
                        nf = self._clone_frame(fr)
                        nf.store = dict(snap[0])
                        np_ = Path()
                        np_.labels = list(snap[1])
                        np_.events = list(snap[2])
                        work.append((nf, ('resume', bb, sch), np_))
                finally:
                    self._sched, self._sched_taken, self._sched_new = saved_sched
                if nxt == 'diverged':
                    return
                if t['target'] is None:
                    pth.events.append(('diverge', t['span']))
                    results.append((pth, ('diverges', t['span']), {}))
                    return
                bb = t['target']
            elif k == 'switch':
                dv = fr.operand(t['discr'])
                decided = None
                label = None
                if isinstance(dv, Int):
                    decided = dv.v
                elif isinstance(dv, tuple) and dv[0] == 'discr':
                    o = dv[1]
                    if o.tag == 'some':
                        decided = 1
                    elif o.tag == 'none':
                        decided = 0
                    label = o.label
                elif isinstance(dv, tuple) and dv[0] == 'bool':
                    label = dv[1]
                    prev = pth.decided(label)
                    if prev is not None:
                        decided = 1 if prev else 0
                elif isinstance(dv, SBit):
                    if not dv.atoms:
                        decided = dv.c
                    else:
                        label = ('sbit', dv)
                        prev = pth.decided(label)
                        if prev is not None:
                            decided = 1 if prev else 0
                        else:
                            prev = pth.decided(('sbit', dv.flip()))
                            if prev is not None:
                                decided = 0 if prev else 1
                if decided is None and self.switch_hook is not None:
                    forced = self.switch_hook(fr, t, dv, pth)
                    if forced is not None:
                        bb = forced
                        continue
                if decided is None and self.stop_on_unknown_switch and not (isinstance(dv, SBit) or (isinstance(dv, tuple) and dv and dv[0] in ('bool', 'discr'))):
                    results.append((pth, ('stopped', fr, bb), {}))
                    return
                if decided is None and isinstance(dv, (BitVal, OrBits)):
                    # if-conversion on a symbolic scalar bit: run both arms to the join point and merge
                    join = _ipdom(body, bb)
                    if join is None:
                        raise NotDerivable('branch on a scalar bit without a join point', t.get('span'))
                    arms = {}
                    for val, tgt in ((0, [b2 for v, b2 in t['targets'] if v == 0]), (1, [t['otherwise']])):
                        if not tgt:
                            raise NotDerivable('unexpected switch shape on a scalar bit', t.get('span'))
                        nf = self._clone_frame(fr)
                        sub_res, sub_work = [], []
                        self._run_path(nf, tgt[0], Path(), sub_work, sub_res, stop_at=join)
                        if sub_work or len(sub_res) != 1 or not (isinstance(sub_res[0][1], tuple) and sub_res[0][1][0] == 'stopped'):
                            raise NotDerivable('an arm of a branch on a scalar bit forks or leaves the function', t.get('span'))
                        arms[val] = sub_res[0][1][1]
                        pth.events.extend(sub_res[0][0].events)
                    fr.store = merge_on_bit(dv, arms[0].store, arms[1].store)
                    bb = join
                    continue
                if decided is not None:
                    tgt = t['otherwise']
                    for v, b2 in t['targets']:
                        if v == decided:
                            tgt = b2
                    bb = tgt
                else:
                    # fork on every distinct successor (skip `unreachable` arms)
                    arms = [(v, b2) for v, b2 in t['targets']] + [('otherwise', t['otherwise'])]
                    if isinstance(dv, tuple) and dv and dv[0] == 'discr' and len(t['targets']) == 1 and t['targets'][0][0] in (0, 1):
                        # a two-variant discriminant tested against one value (`if let Some(x) = ..`): the other arm is the
                        # other variant, and is recorded as such
                        arms[-1] = (1 - t['targets'][0][0], t['otherwise'])
                    arms = [(v, b2) for v, b2 in arms if body.blocks[b2]['term']['k'] != 'unreachable' or body.blocks[b2]['stmts']]
                    if label is None:
                        label = 'switch@%s' % t['span']
                    first = True
                    for v, b2 in arms[1:]:
                        nf = self._clone_frame(fr)
                        np_ = Path()
                        np_.labels = pth.labels + [(label, v)]
                        np_.events = list(pth.events)
                        self._refine(nf, t, dv, v)
                        work.append((nf, b2, np_))
                    v0, b0 = arms[0]
                    pth.labels = pth.labels + [(label, v0)]
                    self._refine(fr, t, dv, v0)
                    bb = b0
            elif k == 'unreachable':
                return
            else:
                raise NotDerivable('unsupported terminator %s' % k, t.get('span'))

    def choose(self, n, where=None):
        """Nondeterministic choice among n alternatives inside the model of a call: returns the alternative of the
        current schedule (0 by default) and registers the other schedules for re-execution of the call."""
        if self._sched is None:
            raise NotDerivable('a model needs to fork outside of a call', where)
        pos = len(self._sched_taken)
        if pos < len(self._sched):
            j = self._sched[pos]
            if j >= n:
                raise NotDerivable('re-execution of a call made different choices', where)
        else:
            j = 0
            for alt in range(1, n):
                self._sched_new.append(list(self._sched_taken) + [alt])
        self._sched_taken.append(j)
        return j

    def fork_alternatives(self, fr, t, pth, alts):
        """alts = [(value, labels, events)]: the call `t` returns one of the values; the labels / events of the
        computation that produced it (e.g. an interpreted closure with several paths) become part of the path."""
        if self._fork_ctx is None or t['target'] is None or not alts:
            return False
        work, _results = self._fork_ctx
        base_labels, base_events = list(pth.labels), list(pth.events)
        for v, labs, evs in alts[1:]:
            nf = self._clone_frame(fr)
            nf.storev(t['dest'], v)
            np_ = Path()
            np_.labels = base_labels + list(labs)
            np_.events = base_events + list(evs)
            work.append((nf, t['target'], np_))
        v, labs, evs = alts[0]
        pth.labels = base_labels + list(labs)
        pth.events.extend(evs)
        fr.storev(t['dest'], v)
        return True

    def _call_closure_paths(self, fr, path, captures, args, where):
        """All non-diverging paths of a closure (no write-back of captured state): [(Path, return value)]."""
        cbody = self.facts.body(path)
        if cbody is None:
            raise NotDerivable('closure body not available', where)
        if captures is None:
            sub = self._sub()
            results = sub.run(path, list(args))
            self.steps = sub.steps
            self.call_sites += sub.call_sites
            return [(r[0], r[1]) for r in results if not (isinstance(r[1], tuple) and r[1] and r[1][0] == 'diverges')]
        # same preparation as a read-write call (captured and nested references get places in the callee frame); nothing is
        # written back: for closures that only read their captures
        results, back, restore, _div = self._closure_run(fr, path, captures, args, where)
        backmap = dict(back)

        def unroot(x, depth=0):
            if depth > 6:
                return x
            if isinstance(x, Ref) and x.root in backmap:
                o_ = backmap[x.root]
                return Ref(o_.root, list(o_.proj) + list(x.proj))
            if isinstance(x, Agg) and type(x) is Agg:
                return Agg([unroot(y, depth + 1) for y in x.items], x.kind)
            if isinstance(x, Opt):
                return Opt(x.tag, unroot(x.payload, depth + 1), x.label)
            return x
        return [(r[0], restore(unroot(r[1]))) for r in results]

    def fork_values(self, fr, t, pth, values, label):
        """The call `t` may return any of `values` (an over-approximation decided by the transfer function):
        continue this path with the first and fork one path per further value."""
        if self._fork_ctx is None or t['target'] is None or not values:
            return False
        work, _results = self._fork_ctx
        base_labels, base_events = list(pth.labels), list(pth.events)
        for k, v in list(enumerate(values))[1:]:
            nf = self._clone_frame(fr)
            nf.storev(t['dest'], v)
            np_ = Path()
            np_.labels = base_labels + [(label, k)]
            np_.events = list(base_events)
            work.append((nf, t['target'], np_))
        pth.labels = base_labels + [(label, 0)]
        fr.storev(t['dest'], values[0])
        return True

    def _refine(self, fr, t, dv, v):
        """Refine an Option's tag along a forked discriminant edge."""
        if isinstance(dv, tuple) and dv[0] == 'discr' and v in (0, 1):
            o = dv[1]
            place = dv[2]
            pl = o.payload
            if isinstance(pl, Either):
                pl = pl.pick(v)
            fr.storev(place, Opt('some' if v == 1 else 'none', pl, o.label))

    # ------------------------------------------------------------ statements
    def _assign(self, fr, s):
        rv = s['rv']
        k = rv['k']
        dst = s['place']
        if k == 'use':
            fr.storev(dst, fr.operand(rv['op']))
        elif k in ('ref', 'rawptr'):
            # references are resolved syntactically by the Resolver; keep an explicit Ref
            # only for locals that are not single-assignment temps
            root, proj = fr.root_of(rv['place'])
            # `&(*p).f` where the local p stands for a reference by holding its referent's value (iterator items, by-value
            # models of `&T`): the new reference must keep designating that referent when p is reassigned (loop variables),
            # so the referent is given a place of its own
            pl_ = fr.res.norm_place(rv['place'])
            if (not rv.get('mut') and pl_['p'] and pl_['p'][0][0] == 'deref' and root == pl_['l'] and isinstance(root, int)
                    and root > 0 and isinstance(fr.store.get(root), Agg) and fr.body.local_ty(root).startswith('&')):
                self.fresh += 1
                key = ('referent', self.fresh, root)
                fr.store[key] = fr.store[root]
                root = key
            # a reference designates the element the index selects *now*: bind the index value into the projection
            # (it may outlive the index variable, e.g. when a helper returns `&table[i]`)
            if any(e[0] == 'i' for e in proj):
                bound = []
                for e in proj:
                    if e[0] == 'i':
                        iv = fr.store.get(e[1])
                        if isinstance(iv, Int):
                            bound.append(['ci', iv.v, 0, False])
                            continue
                        if iv is not None and iv is not TOP:
                            bound.append(['iv', iv])
                            continue
                    bound.append(e)
                proj = bound
            fr.storev(dst, Ref(root, proj))
        elif k == 'agg':
            kind = rv['kind']
            vals = [fr.operand(o) for o in rv['ops']]
            if 'adt' in kind and kind['adt'].endswith('ops::Range') :
                if len(vals) == 2 and isinstance(vals[0], Int) and isinstance(vals[1], Int):
                    fr.storev(dst, RangeIt(vals[0].v, vals[1].v))
                    return
                fr.storev(dst, TOP)
                return
            if 'adt' in kind and kind['adt'].endswith('option::Option'):
                if kind['variant_name'] == 'Some':
                    fr.storev(dst, Opt('some', vals[0] if vals else TOP))
                else:
                    fr.storev(dst, Opt('none', TOP))
                return
            if 'closure' in kind:
                # a closure is a first-class value: its captures, tagged with its body
                fr.storev(dst, Agg(vals, ('closure', kind['closure'])))
                return
            fr.storev(dst, Agg(vals, (kind['adt'], kind['variant_name']) if 'adt' in kind else None))
        elif k == 'repeat':
            n = rv['n']
            v = fr.operand(rv['op'])
            if isinstance(n, int) and n <= 256:
                fr.storev(dst, Agg([v] * n))
            else:
                fr.storev(dst, TOP)
        elif k == 'binop':
            a = fr.operand(rv['a'])
            b = fr.operand(rv['b'])
            op = rv['op']
            if self.binop_hook is not None:
                hv = self.binop_hook(op, a, b)
                if hv is not None:
                    fr.storev(dst, hv)
                    return
            if op.endswith('WithOverflow') and isinstance(a, Int) and isinstance(b, Int):
                base = op[:-len('WithOverflow')]
                r = {'Add': a.v + b.v, 'Sub': a.v - b.v, 'Mul': a.v * b.v}.get(base)
                if r is not None:
                    fr.storev(dst, Agg([Int(r & ((1 << 64) - 1)), Int(int(r < 0 or r >= (1 << 64)), 1)]))
                    return
            if isinstance(a, Int) and isinstance(b, Int):
                bits = 64
                mask = (1 << 64) - 1
                r = None
                if op in ('Shr', 'ShrUnchecked'):
                    r = a.v >> b.v
                elif op in ('Shl', 'ShlUnchecked'):
                    r = (a.v << b.v) & mask
                elif op in ('Add', 'AddUnchecked'):
                    r = (a.v + b.v) & mask
                elif op in ('Sub', 'SubUnchecked'):
                    r = (a.v - b.v) & mask
                elif op in ('Mul', 'MulUnchecked'):
                    r = (a.v * b.v) & mask
                elif op == 'BitAnd':
                    r = a.v & b.v
                elif op == 'BitOr':
                    r = a.v | b.v
                elif op == 'BitXor':
                    r = a.v ^ b.v
                elif op == 'Eq':
                    r = int(a.v == b.v)
                elif op == 'Ne':
                    r = int(a.v != b.v)
                elif op == 'Lt':
                    r = int(a.v < b.v)
                elif op == 'Le':
                    r = int(a.v <= b.v)
                elif op == 'Gt':
                    r = int(a.v > b.v)
                elif op == 'Ge':
                    r = int(a.v >= b.v)
                elif op == 'Rem' and b.v:
                    r = a.v % b.v
                elif op == 'Div' and b.v:
                    r = a.v // b.v
                if r is not None:
                    fr.storev(dst, Int(r))
                    return
            if op in ('BitXor', 'Ne', 'Eq') and (isinstance(a, SBit) or isinstance(b, SBit)):
                sa, sb = to_sbit(a), to_sbit(b)
                if sa is not None and sb is not None:
                    r_ = sa.xor(sb)
                    fr.storev(dst, r_.flip() if op == 'Eq' else r_)
                    return
            if op in ('Eq', 'Ne', 'BitXor') and isinstance(a, tuple) and a and a[0] == 'bool' and isinstance(b, tuple) and b and b[0] == 'bool':
                # two undecided predicates compared: a boolean term over both (evaluated by the truth-table rules)
                fr.storev(dst, ('bool', ('beq' if op == 'Eq' else 'bne', a[1], b[1])))
                return
            if op in ('BitXor', 'Ne') and isinstance(a, tuple) and a and a[0] == 'bool' and isinstance(b, Int):
                fr.storev(dst, a if b.v == 0 else ('bool', ('not', a[1])))
                return
            if op in ('BitXor', 'Ne') and isinstance(b, tuple) and b and b[0] == 'bool' and isinstance(a, Int):
                fr.storev(dst, b if a.v == 0 else ('bool', ('not', b[1])))
                return
            if op == 'Eq' and isinstance(a, tuple) and a and a[0] == 'bool' and isinstance(b, Int):
                fr.storev(dst, a if b.v == 1 else ('bool', ('not', a[1])))
                return
            bvr = bv_binop(op, a, b)
            if bvr is not None:
                fr.storev(dst, bvr)
                return
            kb = kbits_binop(op, a, b)
            fr.storev(dst, kb if kb is not None else TOP)
        elif k == 'unop':
            a = fr.operand(rv['a'])
            if self.binop_hook is not None:
                hv = self.binop_hook(rv['op'], a, None)
                if hv is not None:
                    fr.storev(dst, hv)
                    return
            if isinstance(a, Int) and rv['op'] == 'Not':
                fr.storev(dst, Int(1 - a.v) if a.bits == 1 or a.v in (0, 1) else Int(~a.v & ((1 << 64) - 1)))
            elif isinstance(a, SBit) and rv['op'] == 'Not':
                fr.storev(dst, a.flip())
            elif isinstance(a, tuple) and a[0] == 'bool' and rv['op'] == 'Not':
                fr.storev(dst, ('bool', ('not', a[1])))
            elif rv['op'] == 'PtrMetadata':
                base = a
                if isinstance(base, Ref):
                    base = fr._project(fr.store.get(base.root, TOP), base.proj)
                if base is TOP:
                    p_ = op_place(rv['a'])
                    if p_ is not None and not p_['p'] and 1 <= p_['l'] <= fr.body.arg_count and ('*', p_['l']) in fr.store:
                        base = fr.store[('*', p_['l'])]
                fr.storev(dst, Int(len(base.items)) if isinstance(base, Agg) else TOP)
            else:
                fr.storev(dst, TOP)
        elif k == 'cast':
            a = fr.operand(rv['op'])
            if self.cast_hook is not None:
                hv = self.cast_hook(rv, a)
                if hv is not None:
                    fr.storev(dst, hv)
                    return
            if rv['kind'] == 'IntToInt' and (isinstance(a, (Int, BV)) or (self.binop_hook is not None and a is not TOP and not isinstance(a, (Lin, Agg, tuple)))):
                fr.storev(dst, a)
            elif rv['kind'].startswith('PointerCoercion'):
                fr.storev(dst, a)
            elif rv['kind'] in ('Transmute', 'PtrToPtr') and isinstance(a, Ref) and isinstance(a.root, tuple) and a.root and a.root[0] == 'box':
                # the pointer of a modelled Box allocation stays that pointer through pointer casts (`vec![a, b, c]`)
                fr.storev(dst, a)
            else:
                fr.storev(dst, TOP)
        elif k == 'discr':
            v = fr.load(rv['place'])
            if isinstance(v, Opt):
                fr.storev(dst, ('discr', v, rv['place']))
            elif isinstance(v, SBit):
                fr.storev(dst, v)
            elif isinstance(v, Agg) and v.kind and isinstance(v.kind[0], str) and v.kind[0].endswith('cmp::Ordering') and v.kind[1] in ('Less', 'Equal', 'Greater'):
                fr.storev(dst, Int({'Less': 255, 'Equal': 0, 'Greater': 1}[v.kind[1]], 8))
            elif isinstance(v, Agg) and v.kind and isinstance(v.kind[0], str) and (v.kind[0].endswith('result::Result') or v.kind[0].endswith('ops::ControlFlow')) and v.kind[1] in ('Ok', 'Err', 'Continue', 'Break'):
                fr.storev(dst, Int({'Ok': 0, 'Err': 1, 'Continue': 0, 'Break': 1}[v.kind[1]]))
            elif isinstance(v, Agg) and v.kind and isinstance(v.kind[0], str) and v.kind[0] in self.facts.adts and self.facts.adts[v.kind[0]].get('kind') == 'Enum':
                # a local enum with default discriminants: the variant's position
                names_ = [vv.get('name') for vv in self.facts.adts[v.kind[0]]['variants']]
                fr.storev(dst, Int(names_.index(v.kind[1])) if v.kind[1] in names_ and len(names_) > 1 else TOP)
            else:
                fr.storev(dst, TOP)
        else:
            fr.storev(dst, TOP)

    # ------------------------------------------------------------ calls
    def eval_promoted(self, c):
        """Value of a promoted constant that rustc could not evaluate in the generic context (e.g. `&Enum::Variant`
        inside a trait's provided method): interpret the promoted body itself."""
        key = (c['def'], c['promoted'])
        cache = self.__dict__.setdefault('_prom_cache', {})
        if key in cache:
            return cache[key]
        val = None
        try:
            body = self.facts.promoted(c['def'], c['promoted'])
            frame = Frame(self, body, [])
            bb, steps = 0, 0
            while steps < 64:
                steps += 1
                blk = body.blocks[bb]
                for st in blk['stmts']:
                    if st['k'] == 'assign':
                        self._assign(frame, st)
                t_ = blk['term']
                if t_['k'] == 'goto':
                    bb = t_['target']
                    continue
                if t_['k'] == 'return':
                    val = frame.store.get(0)
                    for _ in range(4):
                        if isinstance(val, Ref):
                            val = frame._project(frame.store.get(val.root, TOP), val.proj)
                    if val is TOP:
                        val = None
                break
        except (NotDerivable, Budget, KeyError, IndexError, TypeError):
            val = None
        cache[key] = val
        return val

    def _subst_callee(self, c):
        import re
        if not self.ty_subst or c is None:
            return c
        pat = re.compile(r'\b(' + '|'.join(re.escape(k) for k in self.ty_subst) + r')\b')

        def sub_(x):
            if isinstance(x, str):
                return pat.sub(lambda m: self.ty_subst[m.group(1)], x)
            if isinstance(x, list):
                return [sub_(y) for y in x]
            return x
        c2 = dict(c)
        for k in ('self_ty', 'targs', 'res_targs'):
            if k in c2:
                c2[k] = sub_(c2[k])
        # a trait method on a now-concrete self type: resolve to the local impl when there is one
        if c2.get('trait') and c2.get('self_ty') and not c2.get('res') and c2.get('name'):
            m = self.facts.resolve_method(c2['trait'], c2['self_ty'], c2['name'])
            if m and self.facts.fn(m) is not None:
                c2['res'] = m
                c2['res_local'] = True
        return c2

    def _call(self, fr, t, pth):
        self.call_sites += 1
        self._cur_frame = fr
        c = self._subst_callee(callee(t))
        dest = t['dest']
        args = t['args']
        if c is None:
            self._havoc(fr, t, 'indirect call')
            return
        trait = c.get('trait')
        name = c.get('name')
        d = c['def']
        res = c.get('res') or d
        where = t['span']

        if self.extra_transfer is not None:
            rv_ = self.extra_transfer(self, fr, t, c, pth)
            if rv_ == 'panic':
                # the modelled call panics on this path (e.g. a length mismatch in copy_from_slice)
                pth.events.append(('diverge', where))
                if self._fork_ctx is not None:
                    self._fork_ctx[1].append((pth, ('diverges', where), {}))
                return 'diverged'
            if rv_:
                return rv_ if rv_ == 'diverged' else None

        import stdmodel
        if stdmodel.std_transfer(self, fr, t, c, pth):
            return

        # ---- plumbing that is value-transparent
        if (d.endswith('IntoIterator>::into_iter') or d.endswith('IntoIterator::into_iter')) and not res.startswith('core::slice::iter::') and not res.startswith('std::array::<impl std::iter::IntoIterator for &'):
            fr.storev(dest, fr.operand(args[0]))
            return
        if 'Iterator' in d and d.endswith('::next') and ('Range' in res):
            it_place = fr.ref_place_of(args[0])
            v = fr.deref_operand(args[0])
            if isinstance(v, RangeIt):
                if v.cur < v.end:
                    newv = RangeIt(v.cur + 1, v.end)
                    fr.storev(dest, Opt('some', Int(v.cur)))
                else:
                    newv = v
                    fr.storev(dest, Opt('none', TOP))
                if isinstance(it_place, dict):
                    fr.storev(it_place, newv)
                elif isinstance(it_place, tuple):
                    fr.store_through(args[0], newv)
                return
            raise NotDerivable('loop over a non-constant range', where)
        if name == 'clone' and trait == 'std::clone::Clone':
            fr.storev(dest, fr.deref_operand(args[0]))
            return
        if trait in ('std::convert::Into', 'std::convert::From') and name in ('into', 'from'):
            # struct-preserving conversions between projective/affine and repr types
            fr.storev(dest, fr.operand(args[0]))
            return
        if trait == 'std::convert::AsRef' or trait == 'std::convert::AsMut':
            if c.get('res_local') and self.facts.body(res) is not None and len(args) == 1:
                # a local impl (the repr newtypes: `&self.0`): the reference it really returns
                try:
                    return self._inline_call(fr, t, res, pth)
                except NotDerivable:
                    pass
            fr.storev(dest, fr.operand(args[0]))
            return
        if trait in ('CurveProjective', 'CurveAffine') and name in ('into_affine', 'into_projective'):
            fr.storev(dest, fr.deref_operand(args[0]))
            return


        # ---- slices of constant tables and their iteration
        if name == 'index' and (res.startswith('std::array::<impl std::ops::Index') or res.startswith('core::slice::index::<impl std::ops::Index')) and len(args) == 2:
            base = self.value_of_ref(fr, args[0])
            rng = fr.operand(args[1])
            ty = fr.body.local_ty(op_place(args[1])['l']) if op_place(args[1]) is not None and not op_place(args[1])['p'] else ''
            if isinstance(base, Agg):
                if ty.endswith('RangeFull'):
                    fr.storev(dest, base)
                    return
                if isinstance(rng, Agg) and all(isinstance(x, Int) for x in rng.items):
                    if ty.startswith('std::ops::RangeTo<') and len(rng.items) == 1:
                        if rng.items[0].v > len(base.items):
                            raise Diverged(where)       # slice end out of range: the indexing panics
                        fr.storev(dest, Agg(base.items[:rng.items[0].v]))
                        return
                    if ty.startswith('std::ops::RangeFrom<') and len(rng.items) == 1:
                        if rng.items[0].v > len(base.items):
                            raise Diverged(where)
                        fr.storev(dest, Agg(base.items[rng.items[0].v:]))
                        return
            fr.storev(dest, TOP)
            return
        if (res.startswith('core::slice::iter::<impl std::iter::IntoIterator for &') or res.startswith('std::array::<impl std::iter::IntoIterator for &')) and name == 'into_iter':
            base = self.value_of_ref(fr, args[0])
            if isinstance(base, Agg):
                fr.storev(dest, SliceIt(base.items, 0))
                pth.events.append(('iterate', len(base.items), where))
                return
            raise NotDerivable('iteration over a non-constant slice', where)
        if name == 'next' and res.startswith('<std::slice::Iter<'):
            v = fr.deref_operand(args[0])
            if isinstance(v, SliceIt):
                if v.pos < len(v.items):
                    fr.storev(dest, Opt('some', v.items[v.pos]))
                    nv = SliceIt(v.items, v.pos + 1)
                else:
                    fr.storev(dest, Opt('none', TOP))
                    nv = v
                fr.store_through(args[0], nv)
                return
            raise NotDerivable('iteration over a non-constant slice', where)
        if name in ('len', 'is_empty') and res.startswith('core::slice::<impl [T]>::' + name):
            base = self.value_of_ref(fr, args[0])
            for _ in range(3):
                if isinstance(base, Ref):
                    base = fr._project(fr.store.get(base.root, TOP), base.proj)
            if name == 'len':
                fr.storev(dest, Int(len(base.items)) if isinstance(base, Agg) else TOP)
            else:
                fr.storev(dest, Int(int(not base.items), 1) if isinstance(base, Agg) else TOP)
            return

        # ---- iterator adaptors over modelled iterators (closures are interpreted)
        if trait == 'std::iter::Iterator' and name in ('filter', 'take_while', 'map', 'skip_while', 'map_while', 'filter_map') and len(args) == 2:
            inner = fr.operand(args[0])
            cl = self._closure_value(fr, args[1])
            if (isinstance(inner, (SliceIt, AdaptIt, RangeIt)) or hasattr(inner, 'iter_next')) and cl is not None:
                fr.storev(dest, AdaptIt(name, inner, cl[0], cl[1]))
                return
        if name == 'next' and trait == 'std::iter::Iterator':
            itv = fr.deref_operand(args[0])
            if isinstance(itv, AdaptIt) or hasattr(itv, 'iter_next') or (isinstance(itv, SliceIt) and not res.startswith('<std::slice::Iter<')):
                val, nit = self._iter_next(itv, where)
                fr.storev(dest, val)
                fr.store_through(args[0], nit)
                return
        if name == 'collect' and trait == 'std::iter::Iterator':
            itv = fr.operand(args[0])
            if isinstance(itv, (SliceIt, AdaptIt)) or hasattr(itv, 'iter_next'):
                out = []
                for _ in range(100000):
                    val, itv = self._iter_next(itv, where)
                    if val.tag != 'some':
                        break
                    out.append(val.payload)
                fr.storev(dest, Agg(out, ('vec', 'Vec')))
                return
        if name == 'index_mut' and (res.startswith('std::array::<impl std::ops::IndexMut') or res.startswith('core::slice::index::<impl std::ops::IndexMut')) and len(args) == 2:
            tgt = fr.ref_place_of(args[0])
            rp = op_place(args[1])
            ty = fr.body.local_ty(rp['l']) if rp is not None and not rp['p'] else ''
            rng = fr.operand(args[1])
            base = None
            if isinstance(tgt, dict):
                base = fr.root_of(tgt)
            elif isinstance(tgt, tuple):
                base = (tgt[1].root, list(tgt[1].proj))
            if base is not None:
                if ty.startswith('std::ops::RangeTo<') and isinstance(rng, Agg) and len(rng.items) == 1 and isinstance(rng.items[0], Int):
                    cur_ = fr._project(fr.store.get(base[0], TOP), base[1])
                    if isinstance(cur_, Agg) and rng.items[0].v <= len(cur_.items):
                        # a bounded prefix view
                        fr.storev(dest, Ref(base[0], list(base[1]) + [['off', 0, rng.items[0].v]]))
                        return
                if ty.endswith('RangeFull') or ty.startswith('std::ops::RangeTo<'):
                    fr.storev(dest, Ref(base[0], list(base[1])))
                    return
                if ty.startswith('std::ops::RangeFrom<') and isinstance(rng, Agg) and len(rng.items) == 1 and isinstance(rng.items[0], Int):
                    fr.storev(dest, Ref(base[0], list(base[1]) + [['off', rng.items[0].v]]))
                    return
        if name in ('chunks_mut', 'chunks', 'chunks_exact', 'chunks_exact_mut') and res.startswith('core::slice::<impl [T]>::chunks') and len(args) == 2:
            v = fr.operand(args[0])
            n_ = fr.operand(args[1])
            if isinstance(v, Ref) and isinstance(n_, Int) and n_.v > 0:
                arr = fr._project(fr.store.get(v.root, TOP), v.proj)
                if isinstance(arr, Agg):
                    fr.storev(dest, ChunksIt(v.root, list(v.proj), n_.v, 0, len(arr.items)))
                    return
        if name == 'next' and (res.startswith('<std::slice::ChunksMut<') or res.startswith('<std::slice::Chunks<') or res.startswith('<std::slice::ChunksExact')):
            v = fr.deref_operand(args[0])
            if isinstance(v, ChunksIt):
                if v.pos < v.total:
                    fr.storev(dest, Opt('some', Ref(v.root, list(v.proj) + [['off', v.pos]])))
                    fr.store_through(args[0], ChunksIt(v.root, v.proj, v.n, v.pos + v.n, v.total))
                else:
                    fr.storev(dest, Opt('none', TOP))
                return
        if name == 'reverse' and res.startswith('core::slice::<impl [T]>::reverse') and len(args) == 1:
            dv_ = fr.operand(args[0])
            if isinstance(dv_, Ref):
                cur = fr._project(fr.store.get(dv_.root, TOP), dv_.proj)
                if isinstance(cur, Agg):
                    for i_, it_ in enumerate(reversed(list(cur.items))):
                        fr.store[dv_.root] = fr._update(fr.store.get(dv_.root), list(dv_.proj) + [['ci', i_, 0, False]], it_)
                    return
        if name == 'copy_from_slice' and res.startswith('core::slice::<impl [T]>::copy_from_slice'):
            dv_ = fr.operand(args[0])
            src = self.value_of_ref(fr, args[1])
            if isinstance(src, Ref):
                src = fr._project(fr.store.get(src.root, TOP), src.proj)
            if isinstance(dv_, Ref) and isinstance(src, Agg):
                cur = fr._project(fr.store.get(dv_.root, TOP), dv_.proj)
                if isinstance(cur, Agg) and len(cur.items) >= len(src.items):
                    # destination view may be a prefix (RangeTo) of a longer array: write element-wise
                    for i_, it_ in enumerate(src.items):
                        fr.store[dv_.root] = fr._update(fr.store.get(dv_.root), list(dv_.proj) + [['ci', i_, 0, False]], it_)
                    return
        # ---- comparisons fork the path set
        if trait == 'std::cmp::PartialEq' and name in ('eq', 'ne') and len(args) == 2:
            a = self._as_lin(fr.deref_operand(args[0]))
            b = self._as_lin(fr.deref_operand(args[1]))
            sty_ = (c.get('self_ty') or '')
            if sty_.startswith('(') and type(a) is Agg and type(b) is Agg and len(a.items) == len(b.items) and a.items and self._sched is not None:
                # tuples compare component by component, left to right, stopping at the first difference: each
                # undecided component comparison is a choice of the model (the calling path forks)
                equal = True
                for x_, y_ in zip(a.items, b.items):
                    for _ in range(3):
                        if isinstance(x_, Ref):
                            x_ = self._ref_value(fr, x_)
                        if isinstance(y_, Ref):
                            y_ = self._ref_value(fr, y_)
                    x_, y_ = self._as_lin(x_), self._as_lin(y_)
                    if isinstance(x_, Int) and isinstance(y_, Int):
                        if x_.v != y_.v:
                            equal = False
                            break
                        continue
                    if not (isinstance(x_, Lin) and isinstance(y_, Lin)):
                        equal = None
                        break
                    lab_ = ('eq', x_, y_, where)
                    prev_ = pth.decided(lab_)
                    if prev_ is None:
                        prev_ = bool(self.choose(2, where))
                        pth.labels = pth.labels + [(lab_, 1 if prev_ else 0)]
                    if not prev_:
                        equal = False
                        break
                if equal is not None:
                    fr.storev(dest, Int(int(equal == (name == 'eq')), 1))
                    return
            if self.mode == 'mul' and (a == ('zero',) or b == ('zero',)) and not (a == ('zero',) and b == ('zero',)):
                # `x == F::zero()` is the zero test of x
                other_ = b if a == ('zero',) else a
                key_ = ('is_zero', other_, where)
                fr.storev(dest, ('bool', key_ if name == 'eq' else ('not', key_)))
                return
            if isinstance(a, SBit) or isinstance(b, SBit):
                sa, sb = to_sbit(a), to_sbit(b)
                if sa is not None and sb is not None:
                    r_ = sa.xor(sb)
                    fr.storev(dest, r_.flip() if name == 'eq' else r_)
                    return
            fr.storev(dest, ('bool', (name, a, b, where)))
            return
        # ---- sgn0 / conditional negation (signum module)
        if trait == 'signum::Signum0' and name == 'sgn0':
            v_ = self._as_lin(fr.deref_operand(args[0]))
            pid_ = self.place_id(fr, args[0])
            # the sign is a function of the value: one atom per tracked value; an untracked value gets an atom of its own
            if isinstance(v_, Lin):
                key_ = 'sgn0(%r)' % (v_,)
            else:
                self._sgn_ctr = getattr(self, '_sgn_ctr', 0) + 1
                key_ = 'sgn0(?%d of %r at %s)' % (self._sgn_ctr, pid_, where)
            fr.storev(dest, SBit.atom(key_, ('sgn0', pid_, where, v_)))
            return
        if trait == 'std::ops::BitXor' and name == 'bitxor':
            sa, sb = to_sbit(fr.operand(args[0])), to_sbit(fr.operand(args[1]))
            fr.storev(dest, sa.xor(sb) if sa is not None and sb is not None else ('xor', fr.operand(args[0]), fr.operand(args[1])))
            return
        if trait == 'signum::Signum0' and name == 'negate_if':
            v = self._as_lin(fr.deref_operand(args[0]))
            sg = fr.operand(args[1])
            pth.events.append(('negate_if', self.place_id(fr, args[0]), sg, where))
            if isinstance(v, Lin):
                fr.store_through(args[0], v.add(Lin.atom('sign')))
            else:
                fr.store_through(args[0], TOP)
            return

        # ---- group / field transfer functions
        if self.mode == 'add' and trait in ('CurveProjective', 'CurveAffine'):
            if self._group_transfer(fr, t, c, pth):
                return
        if self.mode == 'mul' and trait == FIELD_TRAIT:
            if self._field_transfer(fr, t, c, pth):
                return
        if self.mode == 'mul' and name == 'conjugate' and self.conj_as is not None and d.endswith('Fq12::conjugate'):
            v = fr.deref_operand(args[0])
            if isinstance(v, Lin):
                fr.store_through(args[0], v.scale(self.conj_as))
                return
        if d.endswith('BitIterator::<E>::new') or d.endswith('BitIterator::new') or 'BitIterator' in d and name == 'new':
            v = fr.operand(args[0])
            if isinstance(v, Ref):
                v = fr._project(fr.store.get(v.root, TOP), v.proj)
            n = limbs_int(v)
            if n is None:
                v = fr.deref_operand(args[0])
                n = limbs_int(v)
            arr = v.items[0] if (isinstance(v, Agg) and len(v.items) == 1 and isinstance(v.items[0], Agg)) else v
            nb = 64 * len(arr.items) if isinstance(arr, Agg) else None
            fr.storev(dest, Bits(n, nb) if n is not None else TOP)
            return

        # ---- coordinate views: as_tuple() of a point is the tuple of references to its three coordinate fields
        if name == 'as_tuple' and trait in ('CurveProjective', 'CurveAffine') and len(args) == 1:
            tgt_ = fr.ref_place_of(args[0])
            if isinstance(tgt_, dict):
                root_, proj_ = fr.root_of(tgt_)
                cur_ = fr._project(fr.store.get(root_, TOP), proj_)
                if isinstance(cur_, Agg) and len(cur_.items) >= 2:
                    n_ = 3 if trait == 'CurveProjective' else 2
                    fr.storev(dest, Agg([Ref(root_, list(proj_) + [['f', i_, '']]) for i_ in range(n_)]))
                    return
        # ---- local callee: interpret with a summary frame
        if c.get('res_local') and self.inline(res) and self.facts.body(res) is not None:
            return self._inline_call(fr, t, res, pth)
        if not c.get('res') and trait and c.get('def_local'):
            # a method of a crate-private trait with a single (blanket) impl, called from generic code
            import inline as INL
            um = INL.unique_private_impl_method(self.facts, trait, name)
            if um is not None and self.inline(um):
                return self._inline_call(fr, t, um, pth)
        self._havoc(fr, t, 'callee %s not in the fragment' % res)

    def _closure_value(self, fr, op):
        """(closure def-path, captured values) of a closure operand; a function item passed as a callable gives
        (its def-path, None)."""
        kc = op_const(op)
        if kc is not None and isinstance(kc.get('fn'), dict):
            fn_ = kc['fn']
            path_ = fn_.get('res') or fn_.get('def')
            if path_ and self.facts.body(path_) is not None:
                return path_, None
            if path_:
                # a function item without a body here (a trait method named as a callable, `map(CurveAffine::prepare)`):
                # calling it is a call of that callee, decided by the transfer functions like any other call
                return ('fn-item', fn_), None
            return None
        p = op_place(op)
        if p is None or p['p']:
            return None
        rv = fr.res.local_def_rv(p['l'])
        if rv and rv['k'] == 'agg' and 'closure' in rv['kind']:
            return rv['kind']['closure'], Agg([fr.operand(o_) for o_ in rv['ops']])
        # a closure value that reached this place by moves / as an argument of an inlined callee
        v = fr.operand(op)
        for _ in range(4):
            if isinstance(v, Ref):
                v = self._ref_value(fr, v)
        if isinstance(v, tuple) and len(v) == 2 and v[0] == 'byref':
            v = v[1]
        if isinstance(v, Agg) and isinstance(v.kind, tuple) and len(v.kind) == 2 and v.kind[0] == 'closure' and self.facts.body(v.kind[1]) is not None:
            return v.kind[1], Agg(list(v.items))
        return None

    def _sub(self):
        sub = Interp(self.facts, self.mode, self.inline, self.max_steps, self.max_paths, self.conj_as, self.frob_q, self.extra_transfer)
        sub.steps = self.steps
        sub.fresh = self.fresh
        sub.sums = self.sums
        sub.interned = self.interned
        sub.cast_hook = self.cast_hook
        sub.body_override = self.body_override
        sub.fork_inlined = self.fork_inlined
        sub.shared_keys = self.shared_keys
        sub.ty_subst = dict(self.ty_subst)
        if self.propagate_hooks:
            sub.binop_hook = self.binop_hook
            sub.propagate_hooks = True
        if getattr(self, 'proj_hook', None) is not None:
            sub.proj_hook = self.proj_hook
        return sub

    @staticmethod
    def _ref_value(fr, r):
        """Value a reference designates; a by-reference parameter local (only its pointee is in the store) reads as a
        reference to that pointee."""
        if r.root not in fr.store and isinstance(r.root, int) and ('*', r.root) in fr.store:
            if not r.proj:
                return Ref(('*', r.root), [])
            return fr._project(fr.store[('*', r.root)], [e for e in r.proj if e[0] != 'deref'])
        return fr._project(fr.store.get(r.root, TOP), r.proj)

    def _closure_run(self, fr, path, captures, args, where):
        """Run a closure whose captured state lives in frame `fr` on all its paths.  Captured references (also those
        nested in captured closures / structs) and references among the arguments are re-rooted in the callee frame.
        Returns (non-diverging results, back, restore): `back` lists (callee key, caller reference) pairs to write
        back, `restore` maps values that mention callee places of nested captures to the caller's places."""
        cbody = self.facts.body(path)
        extra = {}
        caps = []
        back = []
        nested_n = [0]
        nested_back = {}
        back_outer = []
        self._back_outer = back_outer

        def restore(x, depth=0):
            # the inverse of deep_caps on a value that is written back to the caller's frame: references to the places
            # that stood for the caller's places designate those places again
            if depth > 6:
                return x
            if isinstance(x, Ref) and x.root in nested_back:
                o_ = nested_back[x.root]
                return Ref(o_.root, list(o_.proj) + list(x.proj))
            if isinstance(x, Agg) and type(x) is Agg and x.items:
                ys = [restore(y, depth + 1) for y in x.items]
                if any(a_ is not b_ for a_, b_ in zip(ys, x.items)):
                    return Agg(ys, x.kind)
            return x

        def deep_caps(x, tag, depth=0):
            # a captured value that itself holds references into the caller's frame (a captured closure with its own
            # captures, a struct of references): those references get places in the closure's frame too (read-only)
            if depth > 5 or not (isinstance(x, Agg) and type(x) is Agg):
                return x
            out = []
            changed = False
            for y in x.items:
                if isinstance(y, Ref) and (y.root in fr.store or (isinstance(y.root, int) and ('*', y.root) in fr.store)):
                    val_ = self._ref_value(fr, y)
                    for _ in range(8):
                        if not isinstance(val_, Ref):
                            break
                        val_ = self._ref_value(fr, val_)
                    nested_n[0] += 1
                    key_ = ('upn', tag, len(fr.store), nested_n[0])
                    extra[key_] = deep_caps(val_, tag, depth + 1)
                    nested_back[key_] = y
                    out.append(Ref(key_, []))
                    changed = True
                elif isinstance(y, Agg) and type(y) is Agg:
                    z = deep_caps(y, tag, depth + 1)
                    changed = changed or (z is not y)
                    out.append(z)
                else:
                    out.append(y)
            return Agg(out, x.kind) if changed else x
        for k, v in enumerate(captures.items):
            if isinstance(v, Ref):
                # a captured reference, possibly to a reference (`&mut &mut T` when a `&mut` parameter is captured by
                # unique borrow): every level keeps a place of its own in the closure's frame, the innermost one is
                # written back to the caller's place
                chain = [v]
                val = self._ref_value(fr, v)
                for _ in range(8):
                    if not isinstance(val, Ref):
                        break
                    chain.append(val)
                    val = self._ref_value(fr, val)
                if isinstance(val, Ref):
                    val = TOP
                keys = [('up', k, len(fr.store), lvl) for lvl in range(len(chain))]
                for lvl in range(len(chain) - 1):
                    extra[keys[lvl]] = Ref(keys[lvl + 1], [])
                    # an outer level is itself a place of the caller (`rest: &[u8]` captured by unique borrow and
                    # re-pointed by the closure): written back when the closure stored something else there
                    back_outer.append((keys[lvl], chain[lvl], keys[lvl + 1]))
                extra[keys[-1]] = deep_caps(val, ('cap', k))
                caps.append(Ref(keys[0], []))
                back.append((keys[-1], chain[-1]))
            else:
                caps.append(deep_caps(v, ('cap', k)))
        caps = Agg(caps, captures.kind)
        first = ('byref', caps) if cbody.local_ty(1).startswith('&') else caps

        def reroot(v, tag):
            # references into the caller's frame among the arguments (iterator items of iter_mut etc.); a reference to
            # a reference keeps both levels (`&mut &mut T` items of an array of references)
            if isinstance(v, Ref):
                chain = [v]
                val = self._ref_value(fr, v)
                for _ in range(8):
                    if not isinstance(val, Ref):
                        break
                    chain.append(val)
                    val = self._ref_value(fr, val)
                keys = [('up', tag, len(fr.store), len(extra) + lvl) for lvl in range(len(chain))]
                for lvl in range(len(chain) - 1):
                    extra[keys[lvl]] = Ref(keys[lvl + 1], [])
                extra[keys[-1]] = TOP if isinstance(val, Ref) else val
                back.append((keys[-1], chain[-1]))
                return Ref(keys[0], [])
            if isinstance(v, Agg):
                return Agg([reroot(x, tag) for x in v.items], v.kind)
            if isinstance(v, tuple) and len(v) == 2 and v[0] == 'byref':
                return ('byref', reroot(v[1], tag))
            return v
        args = [reroot(a, 'arg%d' % i) for i, a in enumerate(args)]
        sub = self._sub()
        for k_ in self.shared_keys:
            if k_ in fr.store:
                extra[k_] = fr.store[k_]
        results = sub.run(path, [first] + list(args), extra=extra)
        self.steps = sub.steps
        self.fresh = sub.fresh
        self.call_sites += sub.call_sites
        diverging_ = [r for r in results if isinstance(r[1], tuple) and r[1] and r[1][0] == 'diverges']
        results = [r for r in results if not (isinstance(r[1], tuple) and r[1] and r[1][0] == 'diverges')]
        return results, back, restore, diverging_

    def _call_closure_rw(self, fr, path, captures, args, where):
        """Call a closure whose captured `&mut` state lives in frame `fr`: captured references
        are re-rooted in the callee frame and the final values written back."""
        if isinstance(path, tuple) and path and path[0] == 'fn-item':
            return self._call_fn_item(fr, path[1], args, where)
        cbody = self.facts.body(path)
        if cbody is None:
            raise NotDerivable('closure body not available', where)
        if captures is None:
            # a plain function used as a callable
            sub = self._sub()
            results = sub.run(path, list(args))
            self.steps = sub.steps
            self.call_sites += sub.call_sites
            results = [r for r in results if not (isinstance(r[1], tuple) and r[1] and r[1][0] == 'diverges')]
            if len(results) != 1:
                raise NotDerivable('function %s used as a callable has %d paths' % (path, len(results)), where)
            return results[0][1]
        results, back, restore, diverging_ = self._closure_run(fr, path, captures, args, where)
        cp_ = getattr(self, '_cur_path', None)
        if len(results) + len(diverging_) > 1 and self._sched is not None and cp_ is not None:
            # a closure with several paths: the calling path forks (by re-execution of the call under each choice); a
            # path on which the closure panics ends the calling path there
            allr = results + diverging_
            pth2, ret, outs = allr[self.choose(len(allr), where)]
            cp_.labels = cp_.labels + list(pth2.labels)
            if isinstance(ret, tuple) and ret and ret[0] == 'diverges':
                cp_.events.extend(pth2.events)
                raise Diverged(ret[1] if len(ret) > 1 else where)
        elif not results and diverging_ and self._sched is not None and cp_ is not None:
            cp_.labels = cp_.labels + list(diverging_[0][0].labels)
            cp_.events.extend(diverging_[0][0].events)
            raise Diverged(diverging_[0][1][1] if len(diverging_[0][1]) > 1 else where)
        elif len(results) != 1:
            raise NotDerivable('closure %s does not evaluate to a single value on a modelled item (%d paths)' % (path, len(results)), where)
        else:
            pth2, ret, outs = results[0]
        if cp_ is not None and pth2.events:
            # what the closure did (recorded by transfer functions) belongs to the path that called it
            cp_.events.extend(pth2.events)
        for k_ in self.shared_keys:
            if k_ in outs:
                fr.store[k_] = outs[k_]
        for key, v in back:
            if key in outs:
                ov_ = restore(outs[key])
                fr.store[v.root] = fr._update(fr.store.get(v.root), list(v.proj), ov_) if v.proj else ov_
        backmap = dict(back)
        for key, v, nxt in getattr(self, '_back_outer', []):
            ov_ = outs.get(key)
            if ov_ is None or (isinstance(ov_, Ref) and ov_.root == nxt and not ov_.proj):
                continue        # still points where it pointed
            if isinstance(ov_, Ref) and ov_.root in backmap:
                o_ = backmap[ov_.root]
                ov_ = Ref(o_.root, list(o_.proj) + list(ov_.proj))
            ov_ = restore(ov_)
            fr.store[v.root] = fr._update(fr.store.get(v.root), list(v.proj), ov_) if v.proj else ov_

        def unroot(x):
            # references into re-rooted captured state that escape through the return value
            if isinstance(x, Ref) and x.root in backmap:
                o_ = backmap[x.root]
                return Ref(o_.root, list(o_.proj) + list(x.proj))
            if isinstance(x, Agg):
                return Agg([unroot(y) for y in x.items], x.kind)
            if isinstance(x, Opt):
                return Opt(x.tag, unroot(x.payload), x.label)
            return x
        return restore(unroot(ret))

    def _call_fn_item(self, fr, fn_, args, where):
        """A call of a function item that has no body in the crate, synthesised from a callable use: the transfer
        functions decide it as they would decide a written call with these argument values."""
        scratch = len(fr.body.locals) + 7
        t = {'k': 'call', 'func': ['k', {'fn': fn_}], 'args': [['v', a] for a in args], 'dest': {'l': scratch, 'p': []},
             'target': 0, 'unwind': None, 'span': where, 'expn': False}
        fr.store.pop(scratch, None)
        pth = getattr(self, '_cur_path', None) or Path()
        handled = False
        if self.extra_transfer is not None:
            r = self.extra_transfer(self, fr, t, fn_, pth)
            handled = bool(r) and r != 'panic'
        if not handled:
            import stdmodel
            handled = bool(stdmodel.std_transfer(self, fr, t, fn_, pth))
        if not handled or scratch not in fr.store:
            raise NotDerivable('function item %s used as a callable is not modelled' % (fn_.get('res') or fn_.get('def')), where)
        return fr.store.pop(scratch)

    def _call_closure(self, path, captures, arg, where):
        sub = self._sub()
        cbody = self.facts.body(path)
        if cbody is None:
            raise NotDerivable('closure body not available', where)
        # closures are called as (self, arg); `self` is the closure by value or by reference
        first = ('byref', captures) if cbody.local_ty(1).startswith('&') else captures
        results = sub.run(path, [first, arg])
        self.steps = sub.steps
        self.call_sites += sub.call_sites
        results = [r for r in results if not (isinstance(r[1], tuple) and r[1] and r[1][0] == 'diverges')]
        if len(results) != 1:
            raise NotDerivable('closure %s does not evaluate to a single value on a modelled item (%d paths)' % (path, len(results)), where)
        return results[0][1]

    def _iter_next(self, itv, where):
        """(Opt value, advanced iterator) for modelled iterators."""
        if isinstance(itv, SliceIt):
            if itv.pos < len(itv.items):
                return Opt('some', itv.items[itv.pos]), SliceIt(itv.items, itv.pos + 1)
            return Opt('none', TOP), itv
        if hasattr(itv, 'iter_next'):
            return itv.iter_next(self, where)
        if isinstance(itv, RangeIt):
            if itv.cur < itv.end:
                return Opt('some', Int(itv.cur)), RangeIt(itv.cur + 1, itv.end)
            return Opt('none', TOP), itv
        if isinstance(itv, AdaptIt):
            if itv.done:
                return Opt('none', TOP), itv
            inner = itv.inner
            for _ in range(100000):
                val, inner = self._iter_next(inner, where)
                if val.tag != 'some':
                    return Opt('none', TOP), AdaptIt(itv.kind, inner, itv.closure, itv.captures, True)
                item = val.payload
                if itv.kind == 'map-identity':
                    return Opt('some', item), AdaptIt(itv.kind, inner, itv.closure, itv.captures)
                cf = getattr(self, '_cur_frame', None)
                if itv.kind == 'map':
                    out = self._call_closure_rw(cf, itv.closure, itv.captures, [item], where) if cf is not None else self._call_closure(itv.closure, itv.captures, item, where)
                    return Opt('some', out), AdaptIt(itv.kind, inner, itv.closure, itv.captures)
                if itv.kind in ('map_while', 'filter_map'):
                    out = self._call_closure_rw(cf, itv.closure, itv.captures, [item], where) if cf is not None else self._call_closure(itv.closure, itv.captures, item, where)
                    if not (isinstance(out, Opt) and out.tag in ('some', 'none')):
                        raise NotDerivable('iterator closure result not decided on a modelled item', where)
                    if out.tag == 'some':
                        return Opt('some', out.payload), AdaptIt(itv.kind, inner, itv.closure, itv.captures)
                    if itv.kind == 'map_while':
                        return Opt('none', TOP), AdaptIt(itv.kind, inner, itv.closure, itv.captures, True)
                    continue
                keep = self._call_closure_rw(cf, itv.closure, itv.captures, [('byref', item)], where) if cf is not None else self._call_closure(itv.closure, itv.captures, ('byref', item), where)
                if not isinstance(keep, Int):
                    raise NotDerivable('iterator predicate not decided on a modelled item', where)
                if itv.kind == 'filter':
                    if keep.v:
                        return Opt('some', item), AdaptIt(itv.kind, inner, itv.closure, itv.captures)
                elif itv.kind == 'take_while':
                    if keep.v:
                        return Opt('some', item), AdaptIt(itv.kind, inner, itv.closure, itv.captures)
                    return Opt('none', TOP), AdaptIt(itv.kind, inner, itv.closure, itv.captures, True)
                elif itv.kind == 'skip_while':
                    if not keep.v:
                        return Opt('some', item), AdaptIt('map-identity', inner, itv.closure, itv.captures)
            raise NotDerivable('iterator adaptor did not terminate', where)
        raise NotDerivable('unmodelled iterator', where)

    def value_of_ref(self, fr, op):
        v = fr.operand(op)
        if isinstance(v, Ref):
            return fr._project(fr.store.get(v.root, TOP), v.proj)
        if v is TOP:
            return fr.deref_operand(op)
        return v

    def place_id(self, fr, op):
        """Stable identity of the place a reference operand designates."""
        t = fr.ref_place_of(op)
        if isinstance(t, dict):
            root, proj = fr.root_of(t)
            return (root, tuple(tuple(x) for x in proj))
        if isinstance(t, tuple):
            return (t[1].root, tuple(tuple(x) for x in t[1].proj))
        return None

    def _havoc(self, fr, t, why):
        # every &mut argument's referent becomes opaque -- also when the reference travels inside a by-value tuple,
        # struct or closure (e.g. the argument tuple of FnOnce::call_once); so does the result
        body = fr.body

        def wipe(v, depth=0):
            if depth > 4:
                return
            if isinstance(v, Ref):
                try:
                    cur = fr.store.get(v.root, TOP)
                    fr.store[v.root] = fr._update(cur, list(v.proj), TOP) if v.proj else TOP
                except Exception:
                    fr.store[v.root] = TOP
            elif isinstance(v, Agg):
                for x in v.items:
                    wipe(x, depth + 1)
        for a in t['args']:
            p = op_place(a)
            if p is None or p['p']:
                continue
            ty = body.local_ty(p['l'])
            if ty.startswith('&mut'):
                fr.store_through(a, TOP)
            elif not ty.startswith('&'):
                v = fr.store.get(p['l'])
                if isinstance(v, Agg):
                    wipe(v)
        fr.storev(t['dest'], TOP)

    def _inline_call(self, fr, t, res, pth):
        cbody = self.facts.body(res)
        cargs = []
        nested = {}      # references nested inside argument values: re-rooted in the callee (read-only snapshot)
        origin = {}      # re-rooted key -> the caller's own reference (restored in whatever the callee hands back)

        def reroot(v, depth=0):
            if isinstance(v, Ref) and depth < 6:
                val = self._ref_value(fr, v)
                for _ in range(8):
                    if not isinstance(val, Ref):
                        break
                    val = self._ref_value(fr, val)
                key = ('arg', len(nested), len(fr.store))
                nested[key] = reroot(val, depth + 1) if (isinstance(val, Agg) and type(val) is Agg) else val
                origin[key] = v
                return Ref(key, [])
            if isinstance(v, Agg) and type(v) is Agg and depth < 6:
                return Agg([reroot(x, depth + 1) for x in v.items], v.kind)
            return v
        for i, a in enumerate(t['args']):
            ty = cbody.local_ty(i + 1)
            if ty.startswith('&'):
                dv = fr.deref_operand(a)
                cargs.append(('byref', reroot(dv) if isinstance(dv, Agg) else dv))
                # where the callee's parameter pointee lives in the caller: references the callee returns into it
                # (`fn coeffs(&self) -> [&T; 3]`) are translated back
                tgt_ = fr.ref_place_of(a)
                if isinstance(tgt_, dict):
                    r0, p0 = fr.root_of(tgt_)
                    origin[('*', i + 1)] = Ref(r0, p0)
                elif isinstance(tgt_, tuple):
                    origin[('*', i + 1)] = tgt_[1]
            else:
                ov = fr.operand(a)
                cargs.append(reroot(ov) if isinstance(ov, Agg) else ov)
        sub = self._sub()
        cf_ = self.facts.fn(res) or {}
        names = [n_ for n_ in (cf_.get('generic_names') or []) if not n_.startswith("'")]
        cc_ = self._subst_callee(callee(t)) or {}
        targs_ = [a_ for a_ in (cc_.get('res_targs') or cc_.get('targs') or []) if not a_.startswith("'")]
        if names and len(names) == len(targs_):
            for n_, a_ in zip(names, targs_):
                if n_ != a_:
                    sub.ty_subst[n_] = a_
        shared = {k_: fr.store[k_] for k_ in self.shared_keys if k_ in fr.store}
        shared.update(nested)
        results = sub.run(res, cargs, extra=shared or None)
        self.steps = sub.steps
        self.fresh = sub.fresh
        self.call_sites += sub.call_sites
        self.opaque_sites += sub.opaque_sites
        diverging = [r for r in results if isinstance(r[1], tuple) and r[1] and r[1][0] == 'diverges']
        results = [r for r in results if not (isinstance(r[1], tuple) and r[1] and r[1][0] == 'diverges')]

        def unroot(x, depth=0):
            # references that were re-rooted for the callee and come back (in a written-back struct or in the result)
            # designate the caller's own places again
            if depth > 6:
                return x
            if isinstance(x, Ref) and x.root in origin:
                o_ = origin[x.root]
                return Ref(o_.root, list(o_.proj) + list(x.proj))
            if isinstance(x, Agg) and type(x) is Agg and any(isinstance(y, (Ref, Agg, Opt)) for y in x.items):
                return Agg([unroot(y, depth + 1) for y in x.items], x.kind)
            if isinstance(x, Opt) and isinstance(x.payload, (Ref, Agg)):
                return Opt(x.tag, unroot(x.payload, depth + 1), x.label)
            return x

        def apply(frame, r):
            p2, ret, outs = r
            for k_ in self.shared_keys:
                if k_ in outs:
                    frame.store[k_] = outs[k_]
            for i, a in enumerate(t['args']):
                ty = cbody.local_ty(i + 1)
                if ty.startswith('&mut') and (i + 1) in outs:
                    frame.store_through(a, unroot(outs[i + 1]) if origin else outs[i + 1])
            frame.storev(t['dest'], unroot(ret) if origin else ret)

        if self.fork_inlined and self._fork_ctx is not None and (len(results) > 1 or diverging):
            # the callee's paths become paths of the caller (labels and events are carried over)
            work, caller_results = self._fork_ctx
            base_labels, base_events = list(pth.labels), list(pth.events)
            for r in diverging:
                np_ = Path()
                np_.labels = base_labels + list(r[0].labels)
                np_.events = base_events + list(r[0].events)
                caller_results.append((np_, r[1], {}))
            if not results:
                return 'diverged'
            for r in results[1:]:
                if t['target'] is None:
                    continue
                nf = self._clone_frame(fr)
                apply(nf, r)
                np_ = Path()
                np_.labels = base_labels + list(r[0].labels)
                np_.events = base_events + list(r[0].events)
                work.append((nf, t['target'], np_))
            r = results[0]
            pth.labels = base_labels + list(r[0].labels)
            pth.events.extend(r[0].events)
            apply(fr, r)
            return
        if len(results) != 1:
            # a callee with data-dependent paths: result not expressible as one form
            self._havoc(fr, t, 'callee %s has %d paths' % (res, len(results)))
            pth.events.append(('multi-path-callee', res, len(results)))
            return
        pth.events.extend(results[0][0].events)
        apply(fr, results[0])

    def _group_transfer(self, fr, t, c, pth):
        name = c['name']
        args = t['args']
        dest = t['dest']
        where = t['span']
        if name == 'double':
            v = fr.deref_operand(args[0])
            if isinstance(v, Lin):
                fr.store_through(args[0], v.scale(2))
            else:
                fr.store_through(args[0], TOP)
            return True
        if name in ('add_assign', 'add_assign_mixed', 'sub_assign', 'sub_assign_mixed'):
            a = fr.deref_operand(args[0])
            b = fr.deref_operand(args[1])
            if isinstance(a, Lin) and isinstance(b, Lin):
                fr.store_through(args[0], a.add(b if name.startswith('add') else b.neg()))
            else:
                fr.store_through(args[0], TOP)
            return True
        if name == 'negate':
            v = fr.deref_operand(args[0])
            fr.store_through(args[0], v.neg() if isinstance(v, Lin) else TOP)
            return True
        if name in ('zero',):
            fr.storev(dest, Lin())
            return True
        if name in ('mul_assign',) and c.get('trait') == 'CurveProjective':
            v = fr.deref_operand(args[0])
            k = self._scalar(fr, args[1])
            fr.store_through(args[0], v.scale(k) if isinstance(v, Lin) and k is not None else TOP)
            return True
        if name == 'mul' and c.get('trait') == 'CurveAffine':
            v = fr.deref_operand(args[0])
            k = self._scalar(fr, args[1])
            fr.storev(dest, v.scale(k) if isinstance(v, Lin) and k is not None else TOP)
            return True
        if name == 'is_zero':
            v = fr.deref_operand(args[0])
            fr.storev(dest, ('bool', ('is_zero', v)))
            pth.events.append(('is_zero', v, where))
            return True
        return False

    def _scalar(self, fr, op):
        v = fr.operand(op)
        if isinstance(v, Ref):
            v = fr._project(fr.store.get(v.root, TOP), v.proj)
        n = limbs_int(v)
        if n is None:
            n = limbs_int(fr.deref_operand(op))
        return n

    def _intern(self, v):
        """Monomial standing for an abstract field value (interning multi-term sums)."""
        if isinstance(v, Lin):
            return v
        if isinstance(v, ConstField):
            return self._as_lin(v)
        if isinstance(v, Sum):
            sg = v.single()
            if sg is not None:
                return sg
            for i, s_ in enumerate(self.interned):
                if s_ == v:
                    return Lin.atom('S#%d' % i)
            self.interned.append(v)
            return Lin.atom('S#%d' % (len(self.interned) - 1))
        return None

    def _sum_transfer(self, fr, t, c, pth):
        name = c['name']
        args = t['args']

        def as_sum(v):
            v = self._as_lin(v)
            if isinstance(v, Lin):
                return Sum.of(v)
            if isinstance(v, Sum):
                return v
            if v == ('zero',):
                return Sum()
            return None
        if name in ('add_assign', 'sub_assign'):
            a = as_sum(fr.deref_operand(args[0]))
            b = as_sum(fr.deref_operand(args[1]))
            if a is None or b is None:
                fr.store_through(args[0], TOP)
            else:
                fr.store_through(args[0], a.add(b, 1 if name == 'add_assign' else -1))
            return True
        if name == 'mul_assign':
            a = self._as_lin(fr.deref_operand(args[0]))
            b = self._as_lin(fr.deref_operand(args[1]))
            if isinstance(a, Lin) and isinstance(b, Lin):
                return False
            def has_interned(l):
                return any(x.startswith('S#') for x in l.t)
            if isinstance(a, Sum) and isinstance(b, Lin):
                if has_interned(b) and a.single() is None:
                    fr.store_through(args[0], self._intern(a).add(b))
                else:
                    fr.store_through(args[0], a.mul_mono(b))
                return True
            if isinstance(a, Lin) and isinstance(b, Sum):
                if has_interned(a) and b.single() is None:
                    fr.store_through(args[0], a.add(self._intern(b)))
                else:
                    fr.store_through(args[0], b.mul_mono(a))
                return True
            if isinstance(a, Sum) and isinstance(b, Sum):
                sa, sb = a.single(), b.single()
                if sa is not None:
                    fr.store_through(args[0], b.mul_mono(sa))
                elif sb is not None:
                    fr.store_through(args[0], a.mul_mono(sb))
                else:
                    fr.store_through(args[0], self._intern(a).add(self._intern(b)))
                return True
            fr.store_through(args[0], TOP)
            return True
        if name == 'square':
            a = self._as_lin(fr.deref_operand(args[0]))
            if isinstance(a, Sum):
                m = self._intern(a)
                fr.store_through(args[0], m.scale(2))
                return True
            return False
        if name == 'negate':
            a = self._as_lin(fr.deref_operand(args[0]))
            if isinstance(a, Sum):
                fr.store_through(args[0], a.scale(-1))
                return True
            return False
        if name == 'double':
            a = self._as_lin(fr.deref_operand(args[0]))
            if isinstance(a, Sum):
                fr.store_through(args[0], a.scale(2))
                return True
            if isinstance(a, Lin):
                fr.store_through(args[0], Sum.of(a, 2))
                return True
            return False
        return False

    def _field_transfer(self, fr, t, c, pth):
        name = c['name']
        args = t['args']
        dest = t['dest']
        where = t['span']
        if self.sums and self._sum_transfer(fr, t, c, pth):
            return True
        if name == 'square':
            v = fr.deref_operand(args[0])
            fr.store_through(args[0], v.scale(2) if isinstance(v, Lin) else TOP)
            return True
        if name == 'mul_assign':
            a = fr.deref_operand(args[0])
            b = fr.deref_operand(args[1])
            a = self._as_lin(a)
            b = self._as_lin(b)
            if isinstance(a, Lin) and isinstance(b, Lin):
                fr.store_through(args[0], a.add(b))
            else:
                fr.store_through(args[0], TOP)
            return True
        if name == 'inverse':
            v = self._as_lin(fr.deref_operand(args[0]))
            fr.storev(dest, Opt(None, v.neg() if isinstance(v, Lin) else TOP, ('inverse', where)))
            pth.events.append(('inverse-of', v, where))
            return True
        if name == 'pow':
            v = self._as_lin(fr.deref_operand(args[0]))
            k = self._scalar(fr, args[1])
            if isinstance(v, Lin) and k is not None:
                fr.storev(dest, v.scale(k))
                pth.events.append(('pow', k, where))
            else:
                fr.storev(dest, TOP)
            return True
        if name == 'frobenius_map':
            v = self._as_lin(fr.deref_operand(args[0]))
            k = fr.operand(args[1])
            if isinstance(v, Lin) and isinstance(k, Int) and self.frob_q is not None:
                fr.store_through(args[0], v.scale(self.frob_q ** k.v))
                pth.events.append(('frobenius', k.v, where))
            else:
                fr.store_through(args[0], TOP)
            return True
        if name == 'negate':
            v = self._as_lin(fr.deref_operand(args[0]))
            fr.store_through(args[0], v.add(Lin.atom('-1')) if isinstance(v, Lin) else TOP)
            return True
        if name == 'double':
            v = self._as_lin(fr.deref_operand(args[0]))
            fr.store_through(args[0], v.add(Lin.atom('2')) if isinstance(v, Lin) else TOP)
            return True
        if name in ('add_assign', 'sub_assign'):
            a = self._as_lin(fr.deref_operand(args[0]))
            b = self._as_lin(fr.deref_operand(args[1]))
            ov = self.opaque('%s(%r, %r)' % (name, a, b), where)
            if isinstance(a, Lin) and isinstance(b, Lin):
                OPAQUE_DEFS[list(ov.t)[0]] = (name, a, b)
            fr.store_through(args[0], ov)
            return True
        if name == 'one':
            fr.storev(dest, Lin())
            return True
        if name == 'zero':
            fr.storev(dest, ('zero',))
            return True
        if name == 'is_zero':
            v = fr.deref_operand(args[0])
            fr.storev(dest, ('bool', ('is_zero', v, where)))
            return True
        return False

    def _as_lin(self, v):
        if isinstance(v, ConstField):
            nm = 'const:' + _const_name(self.facts, v.v)
            CONST_ATOMS[nm] = v.v
            return Lin.atom(nm)
        return v


_const_names = {}
CONST_ATOMS = {}
OPAQUE_DEFS = {}      # opaque atom -> ('add_assign' | 'sub_assign', a, b): what the interned sum was


def _const_name(facts, v):
    key = id(facts)
    if key not in _const_names:
        m = {}
        for p, c in facts.consts.items():
            if 'v' in c:
                m.setdefault(_freeze(c['v']), p)
                if isinstance(c['v'], list):
                    for i, x in enumerate(c['v']):
                        m.setdefault(_freeze(x), '%s[%d]' % (p, i))
        _const_names[key] = m
    m = _const_names[key]
    fz = _freeze(v)
    if fz in m:
        return m[fz]
    return 'anon:%x' % (hash(fz) & 0xffffffff)


def _freeze(v):
    if isinstance(v, dict):
        return tuple(sorted((k, _freeze(x)) for k, x in v.items()))
    if isinstance(v, list):
        return tuple(_freeze(x) for x in v)
    return v
